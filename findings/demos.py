"""Demonstrations of the genuine defects found while building the static checks.

Documentation only: no check in MANIFEST.json runs this file (the checks are static and never
import pjplan).  Each demo returns True when the *property holds* for the concrete input and
False when pjplan violates it.  Run with the repository's interpreter:

    /venv/bin/python /verif/findings/demos.py            # every demo, against /repo
    /venv/bin/python /verif/findings/demos.py F5 F6      # selected demos
    PJPLAN_SRC=/tmp/wt/src /venv/bin/python ...          # against another worktree

On the pinned commit (f6a69d2) every demo printed VIOLATED; after the `fix:` commits listed in
/verif/known_findings.json only the entries recorded there as known findings still do.
"""
import os
import sys
import tempfile
from datetime import datetime, timedelta

sys.path.insert(0, os.environ.get('PJPLAN_SRC', '/repo/src'))

from pjplan import (Task, WBS, ForwardScheduler, BackwardScheduler, Resource, WeeklyCalendar,  # noqa: E402
                    FixedCalendar, DirectCalendar, read_csv, write_csv, DhtmlxGantt)


def rejects(fn, exc=RuntimeError):
    try:
        fn()
    except exc:
        return True
    except RecursionError:
        return False
    except Exception:
        return False
    return False


def snapshot(tasks):
    return [(t.id, id(t.parent) if t.parent else None, [id(c) for c in t.children],
             [id(p) for p in t.predecessors], [id(s) for s in t.successors], id(t.wbs) if t.wbs else None)
            for t in tasks]


# ---------------------------------------------------------------- C01
def F1():
    """C01: a task can be made its own parent / child"""
    t = Task(1)
    a = rejects(lambda: setattr(t, 'parent', t))
    u = Task(2)
    b = rejects(lambda: setattr(u, 'children', [u]))
    return a and b


def F2():
    """C01: re-parenting may put a dependency between a task and its ancestor"""
    a, b = Task(1), Task(2)
    b.predecessors = [a]
    r1 = rejects(lambda: setattr(b, 'parent', a))
    c, d = Task(3), Task(4)
    d.predecessors = [c]
    r2 = rejects(lambda: setattr(c, 'children', [d]))
    return r1 and r2


def F3():
    """C01: self dependency accepted"""
    t = Task(1)
    u = Task(2)
    return rejects(lambda: setattr(t, 'predecessors', [t])) and rejects(lambda: setattr(u, 'successors', [u]))


def F4():
    """C01: descendant accepted as predecessor / successor"""
    a, c = Task(1), Task(2)
    a.children = [c]
    return rejects(lambda: setattr(a, 'predecessors', [c])) and rejects(lambda: setattr(a, 'successors', [c]))


def F35():
    """C01: dependency cycle accepted when another task with the same id hides the task in all_predecessors"""
    a, b, x = Task(1), Task(2), Task(1)
    b.predecessors = [x, a]
    return rejects(lambda: setattr(a, 'predecessors', [b]))


# ---------------------------------------------------------------- C05
def F5():
    """C05: id uniqueness is only checked inside one top-level branch of a WBS"""
    w = WBS()
    w // [Task(1), Task(2)]
    w[2] // Task(5)
    return rejects(lambda: w[1] // Task(5))


# ---------------------------------------------------------------- C11
def F6():
    """C11: removed task still reports the WBS as owner and cannot be attached elsewhere"""
    w = WBS()
    t = Task(1)
    w // t
    t // Task(2)
    w.remove(t)
    ok1 = t.wbs is None and t.children[0].wbs is None and len(w.tasks) == 0
    try:
        WBS() // t
        ok2 = True
    except RuntimeError:
        ok2 = False
    return ok1 and ok2


# ---------------------------------------------------------------- C15
def F7():
    """C15: children assignment with a duplicate id inside the argument is half applied"""
    w = WBS()
    w // Task(9)
    before = snapshot(w.tasks)
    n = len(w.tasks)
    r = rejects(lambda: w // [Task(1), Task(1)])
    return r and len(w.tasks) == n and snapshot(w.tasks) == before


def F8():
    """C15: move() without anchor raises after removing the task from the list"""
    w = WBS()
    a, b = Task(1), Task(2)
    w // [a, b]
    r = rejects(lambda: w.roots.move(a))
    return r and [t.id for t in w.roots] == [1, 2]


def F9():
    """C15: move(t, before=t) -> ValueError after removal"""
    w = WBS()
    a, b = Task(1), Task(2)
    w // [a, b]
    r = rejects(lambda: w.roots.move(a, before=a))
    return r and [t.id for t in w.roots] == [1, 2]


def F10():
    """C15/C16: insert at index len / out of range"""
    w = WBS()
    a, b = Task(1), Task(2)
    w // [a, b]
    try:
        w.roots.insert(2, Task(3))
        ok = [t.id for t in w.roots] == [1, 2, 3]
    except Exception:
        ok = False
    w2 = WBS()
    w2 // [Task(1), Task(2)]
    try:
        w2.roots.insert(1, Task(3))
        ok2 = [t.id for t in w2.roots] == [1, 3, 2]
    except Exception:
        ok2 = False
    return ok and ok2 and len(w.tasks) == 3


def F36():
    """C16: a children list object obtained before sort()/reorder() goes stale; remove() through it drops other tasks"""
    w = WBS()
    x, y, z = Task(1), Task(2), Task(3)
    w.roots = [x, y, z]
    r = w.roots
    w.roots.reorder([3])
    r.append(Task(4))
    r.remove(y)
    return [t.id for t in w.roots] == [3, 1, 4]


def F37():
    """C01: a task listed twice in predecessors/successors is mirrored by ONE entry on the other side; clearing the other
    side removes one of the two entries and the links stop being symmetric (found by a round-4 change author)"""
    c, d = Task(3), Task(4)
    c.predecessors = [d, d]
    d.successors = []
    return (d in c.predecessors) == (c in d.successors)


def F11():
    """C15 (known): constructor / multi-receiver operators are sequences of atomic setter calls"""
    t1 = Task(1)
    r = rejects(lambda: Task(2, parent=t1, predecessors=[t1]))
    return r and len(t1.children) == 0


def F11b():
    """C15 (known): `list << task` / `list >> task` is applied receiver by receiver; a rejection half way keeps the earlier links"""
    w = WBS()
    c, q, p = Task(1), Task(2), Task(3)
    w // [c, q]
    q // p
    r = rejects(lambda: w.roots << p)          # q is the parent of p: rejected for q, after c already got p
    return r and len(c.predecessors) == 0 and len(p.successors) == 0


def F11c():
    """C15 (known): bulk attribute assignment on a task list is applied task by task; a rejection half way keeps the earlier changes"""
    w = WBS()
    c, q, p = Task(1), Task(2), Task(3)
    w // [c, q]
    q // p
    lst = w.roots

    def bulk():
        lst.predecessors = [p]
    r = rejects(bulk)
    return r and len(c.predecessors) == 0


# ---------------------------------------------------------------- C14
def F13():
    """C14: a dependency cycle closed through the hierarchy must give RuntimeError (not RecursionError)"""
    def build1():
        w = WBS()
        s, x, y = Task(1, name='S'), Task(2, name='X', estimate=8), Task(3, name='Y', estimate=8)
        w // [s, y]
        s // x
        x.predecessors = [y]
        y.predecessors = [s]
        return w

    def build2():
        w = WBS()
        s, x, p = Task(1), Task(2, estimate=8), Task(3, estimate=8)
        w // [s, p]
        s // x
        s.predecessors = [p]
        p.predecessors = [x]
        return w

    res = []
    for build in (build1, build2):
        for sch in (ForwardScheduler(start=datetime(2030, 1, 7)), BackwardScheduler(end=datetime(2030, 3, 1))):
            try:
                sch.calc(build())
                res.append(False)
            except RecursionError:
                res.append(False)
            except RuntimeError:
                res.append(True)
            except Exception:
                res.append(False)
    return all(res)


def F39():
    """C10: clone()/subtree() looked outside tasks up by id in the same map as the member clones; ids are unique inside one WBS
    only: an outside predecessor X (id 2) of member a, with a member b that also has id 2 -> the copy of a lost the link to X
    (found while triaging F38)"""
    w = WBS()
    a, b = Task(1, name='a'), Task(2, name='b')
    w // [a, b]
    x = Task(2, name='X')
    x >> a
    c = w.clone()
    ok1 = [p is x for p in c[1].predecessors] == [True] and len(c[2].successors) == 0
    s = w.subtree(a)
    ok2 = [p is x for p in s[1].predecessors] == [True]
    return ok1 and ok2


def F40():
    """C14: a resource calendar `a / b` whose divisor calendar b has no capacity on a day (weekend of the default calendar):
    get_available_units divides by zero and both calc methods end in ZeroDivisionError instead of a schedule or a RuntimeError
    diagnosis (reported by a round-8 change author)"""
    from pjplan import DEFAULT_CALENDAR
    res = []
    for fwd in (True, False):
        w = WBS()
        w // Task(1, name='a', estimate=16, resource='r')
        r = Resource('r', calendar=DEFAULT_CALENDAR / DEFAULT_CALENDAR)
        sch = ForwardScheduler(start=datetime(2030, 1, 11), resources=[r]) if fwd else BackwardScheduler(end=datetime(2030, 1, 14), resources=[r])
        try:
            sch.calc(w)
            res.append(True)
        except RuntimeError:
            res.append(True)
        except Exception:
            res.append(False)
    return all(res)


def F38():
    """C14 / C06: an outside task linked between two members (B >> E >> T, E outside the WBS): the passes followed E back to
    the caller's ORIGINAL B, scheduled it (input mutated) and recorded its id in the memo; the clone of B was skipped, kept
    estimate None and the roll-up of its summary task ended in TypeError (found by a round-8 change author)"""
    res = []
    for fwd in (True, False):
        w = WBS()
        t = Task(2, name='T', estimate=8)
        s, b = Task(10, name='S'), Task(1, name='B')
        s // b
        e = Task(50, name='E', start=datetime(2020, 1, 1), end=datetime(2020, 1, 5)) if fwd else \
            Task(50, name='E', start=datetime(2030, 1, 1), end=datetime(2030, 1, 5))
        if fwd:
            w // [t, s]
            b >> e
            e >> t
            sch = ForwardScheduler(start=datetime(2030, 1, 7))
        else:
            w // [s, t]
            t >> e
            e >> b
            sch = BackwardScheduler(end=datetime(2030, 6, 1))
        try:
            sch.calc(w)
            res.append(b.start is None and b.end is None and b.estimate is None and e.estimate is None)
        except RuntimeError:
            res.append(False)
        except Exception:
            res.append(False)
    return all(res)


# ---------------------------------------------------------------- C02 / C09
def F14():
    """C02: a leaf first reached through a dependency edge ignores the predecessors of its ancestors"""
    w = WBS()
    p = Task(1, name='P', estimate=80)
    s = Task(2, name='S')
    x = Task(3, name='X', estimate=8)
    y = Task(4, name='Y', estimate=8)
    w // [y, p, s]
    s // x
    s.predecessors = [p]
    y.predecessors = [x]
    r = ForwardScheduler(start=datetime(2030, 1, 7)).calc(w).schedule
    return r[3].start >= r[1].end.replace(hour=0, minute=0, second=0, microsecond=0)


def F14b():
    """C09: backward twin of F14"""
    w = WBS()
    q = Task(1, name='Q', estimate=80)
    s = Task(2, name='S')
    x = Task(3, name='X', estimate=8)
    y = Task(4, name='Y', estimate=8)
    w // [s, q, y]
    s // x
    s.successors = [q]
    y.successors = [x]
    r = BackwardScheduler(end=datetime(2030, 3, 1)).calc(w).schedule
    return r[3].end <= r[1].start


# ---------------------------------------------------------------- C07
def F15():
    """C07: summary start clamped by the project start (start > end)"""
    w = WBS()
    s = Task(1)
    c = Task(2, start=datetime(2020, 1, 6), end=datetime(2020, 1, 7), estimate=8)
    w // s
    s // c
    r = ForwardScheduler(start=datetime(2021, 1, 4)).calc(w).schedule
    ok1 = r[1].start == r[2].start and r[1].start <= r[1].end
    w2 = WBS()
    s2 = Task(1)
    c2 = Task(2, end=datetime(2040, 1, 7), estimate=8)
    w2 // s2
    s2 // c2
    r2 = BackwardScheduler(end=datetime(2030, 3, 1)).calc(w2).schedule
    ok2 = r2[1].end == r2[2].end
    return ok1 and ok2


# ---------------------------------------------------------------- C12
def F16():
    """C12: float slack compared with == 0"""
    w = WBS()
    a, b, c = Task(1, estimate=0.1), Task(2, estimate=0.2), Task(3, estimate=0.3)
    w // [a, b, c]
    b.predecessors = [a]
    cp = w.critical_path()
    return sorted(t.id for t in cp) == [1, 2, 3]


def F17():
    """C12: dependency on a summary task (KeyError; predecessors of parents ignored)"""
    w = WBS()
    s, x, t = Task(1), Task(2, estimate=5), Task(3, estimate=1)
    w // [s, t]
    s // x
    t.predecessors = [s]
    try:
        cp = w.critical_path()
    except KeyError:
        return False
    return sorted(k.id for k in cp) == [2, 3]


# ---------------------------------------------------------------- C13
def _roundtrip(w):
    with tempfile.TemporaryDirectory() as d:
        p = os.path.join(d, 'x.csv')
        write_csv(w, p)
        return read_csv(p)


def F19():
    """C13: a parent with id 0 is dropped by the writer"""
    w = WBS()
    a, b = Task(0, name='a'), Task(1, name='b')
    w // a
    a // b
    r = _roundtrip(w)
    return r[1].parent is not None and r[1].parent.id == 0


def F20():
    """C13 (known): min_start is not restored"""
    w = WBS()
    w // Task(1, name='a', min_start=datetime(2030, 1, 7))
    r = _roundtrip(w)
    return r[1].min_start == datetime(2030, 1, 7)


def F21():
    """C13: structural raw keys leak into the re-read tasks as attributes"""
    w = WBS()
    w // Task(1, name='a')
    r = _roundtrip(w)
    return 'parent_id' not in r[1].__dict__ and 'predecessor_ids' not in r[1].__dict__


# ---------------------------------------------------------------- C17
def F22():
    """C17: WeeklyCalendar(start > end) accepted (validator defined, never called)"""
    return rejects(lambda: WeeklyCalendar(start=datetime(2030, 1, 2), end=datetime(2030, 1, 1), days=[0], units_per_day=8))


def F23():
    """C17: FixedCalendar(start > end) accepted"""
    return rejects(lambda: FixedCalendar(8, start=datetime(2030, 1, 2), end=datetime(2030, 1, 1)))


def F24():
    """C17: weekday keys outside 0..6 in the dict form accepted"""
    return rejects(lambda: WeeklyCalendar(units_per_day={9: 8}))


def F25():
    """C17: negative dated units accepted"""
    d = DirectCalendar()
    return rejects(lambda: DirectCalendar({datetime(2030, 1, 1): -3})) and \
        rejects(lambda: d.set_units({datetime(2030, 1, 1): -3}))


def F26():
    """C17: set_units does not normalise its keys to midnight"""
    d = DirectCalendar()
    d.set_units({datetime(2030, 1, 1, 15, 0): 4})
    return d.get_available_units(datetime(2030, 1, 1, 9, 0)) == 4


# ---------------------------------------------------------------- C18
def F27():
    """C18: property-backed attributes are invisible to filters"""
    w = WBS()
    w // [Task(1, estimate=3), Task(2)]
    return [t.id for t in w.tasks(estimate=3)] == [1] and [t.id for t in w.tasks(estimate_is_none_=True)] == [2]


def F28():
    """C18: keyword filters ignored when a callable is given"""
    w = WBS()
    w // [Task(1, name='a'), Task(2, name='b')]
    return [t.id for t in w.tasks(lambda t: True, name='b')] == [2]


# ---------------------------------------------------------------- C19
def F30():
    """C19: '</script>' in a task name closes the data block of the DHTMLX document"""
    w = WBS()
    w // Task(1, name='x</script><b>', start=datetime(2020, 1, 6), end=datetime(2020, 1, 7), estimate=1)
    html = DhtmlxGantt(w).to_html()
    return html.count('</script>') == 2


# ---------------------------------------------------------------- C04 / C09
def F33():
    """C04/C09: backward start fraction ignores the balance selector"""
    w = WBS()
    w // [Task(1, estimate=6), Task(2, estimate=6)]
    sch = BackwardScheduler(end=datetime(2030, 3, 2), balance_resources=False)
    res = sch.calc(w)
    ok = True
    for t in res.schedule.tasks:
        rows = res.resource_usage.rows(lambda r: r.task.id == t.id)
        first = min(r.date for r in rows)
        ok = ok and first <= t.start < first + timedelta(days=1)
    return ok


# ---------------------------------------------------------------- C06
def F34():
    """C06 (known): clock at or before the project start still influences a task with a user-fixed earlier start"""
    import pjplan.schedule as S

    def run(clock):
        class FakeDT(datetime):
            @classmethod
            def now(cls, tz=None):
                return clock
        old = S.datetime
        S.datetime = FakeDT
        try:
            w = WBS()
            w // Task(1, start=datetime(2020, 1, 6), estimate=8)
            r = ForwardScheduler(start=datetime(2030, 1, 7)).calc(w)
            return [(x.date, x.units) for x in r.resource_usage.rows()], r.schedule[1].end
        finally:
            S.datetime = old
    return run(datetime(2025, 1, 6)) == run(datetime(2026, 1, 5))


def F34b():
    """C06 (known): project start and clock on the same day, non-midnight start: the computed end is clamped to the clock"""
    import pjplan.schedule as S

    def run(clock):
        class FakeDT(datetime):
            @classmethod
            def now(cls, tz=None):
                return clock
        old = S.datetime
        S.datetime = FakeDT
        try:
            w = WBS()
            w // Task(1, estimate=1)
            r = ForwardScheduler(start=datetime(2030, 1, 7, 15, 0)).calc(w)
            return r.schedule[1].start, r.schedule[1].end
        finally:
            S.datetime = old
    return run(datetime(2030, 1, 7, 9, 0)) == run(datetime(2030, 1, 7, 10, 0))


def F34c():
    """C06 (known): a user-fixed end between two clock values (both before the project start) is rejected or accepted depending on the clock"""
    import pjplan.schedule as S

    def run(clock):
        class FakeDT(datetime):
            @classmethod
            def now(cls, tz=None):
                return clock
        old = S.datetime
        S.datetime = FakeDT
        try:
            w = WBS()
            w // Task(1, start=datetime(2025, 6, 2), end=datetime(2025, 6, 3), estimate=8)
            try:
                r = ForwardScheduler(start=datetime(2030, 1, 7)).calc(w)
                return 'schedule'
            except RuntimeError:
                return 'RuntimeError'
        finally:
            S.datetime = old
    return run(datetime(2025, 1, 6)) == run(datetime(2026, 1, 5))


ALL = [F1, F2, F3, F4, F35, F5, F6, F7, F8, F9, F10, F36, F37, F11, F11b, F11c, F13, F14, F14b, F15, F16, F17, F19, F20, F21, F22, F23, F24,
       F25, F26, F27, F28, F30, F33, F34, F34b, F34c, F38, F39, F40]

if __name__ == '__main__':
    sel = set(sys.argv[1:])
    bad = 0
    for f in ALL:
        if sel and f.__name__ not in sel:
            continue
        try:
            ok = f()
            msg = 'holds' if ok else 'VIOLATED'
        except RecursionError:
            ok, msg = False, 'VIOLATED (RecursionError)'
        except Exception as e:  # a crash is also a violation of the demonstrated property
            ok, msg = False, f'VIOLATED ({type(e).__name__}: {e})'
        bad += 0 if ok else 1
        print(f"{f.__name__:5s} {msg:40s} {f.__doc__.strip()}")
    print(f"{bad} violated")
