"""C19 - renderings show every task and dependency exactly once with its real dates.   (DESIGN.md section 5, C19)

Decided structurally on the three renderers (viz/mermaid/gantt.py, viz/mermaid/network.py, viz/dhtmlx/gantt.py) and the
three templates (read as text).  Six obligations:

* templates (R10)  per renderer: the `$name` / `${name}` placeholders of the template read by to_html (`$$` is an escape, any
                   other `$` makes substitute raise) == the keyword names of the single Template(..).substitute call, the result
                   is returned, and one keyword is computed by the analysed body function (__src / __data).
* once (R13)       emission counting over all control-flow paths.  Mermaid gantt: every path through __src runs exactly one
                   "complete" task-line loop: either `for t in self.wbs.tasks` with exactly one task line per iteration, or
                   `for k, v in M.items()` with exactly one `section k` header before exactly one `for t in v` loop with one line
                   per iteration, where M is proved to be a partition of self.wbs.tasks (created empty once outside loops, exactly
                   one setdefault(section-of-task, []).append(task) per task, before the emission, no other use).  Network: one
                   loop over self.wbs.tasks on every path; per task (truth table over the branch conditions) exactly one Start edge
                   iff `t.predecessors` is empty, otherwise exactly one loop over t.predecessors with one edge p.id --> t.id per
                   element.  DHTMLX: exactly one data.append per task of `self.wbs.roots x (all_children + [root])` (or of
                   self.wbs.tasks), exactly one links.append per predecessor with source=p.id, target=t.id, type "0", and a link id
                   that is unique: counter initialised once outside all loops, stepped exactly once per link (or len(links)+k).
* formats (R10)    the task line is `name : state id, start, end\n` of one task; strftime formats are constants carrying day,
                   month, year, hour (24h) and minute; the `dateFormat` directive is emitted exactly once and equals the strftime
                   format under DD/MM/YYYY/HH/mm <-> %d/%m/%Y/%H/%M; DHTMLX dates equal dhtmlxGantt's date_format (default
                   %d-%m-%Y %H:%i unless the template configures one); the state slot yields `milestone,` iff task.milestone: every
                   other state is returned only after task.milestone was excluded, the flag depends on no other test.
* json (R8)        __data returns json.dumps({'data': <list>, 'links': <list>}) (no manual text); entry id = t.id, text = t.name
                   untouched, start_date/end_date = t.start/t.end; parent = t.parent.id if t.parent in self.wbs.tasks else 0;
                   progress is 0, 1 or 1 - max(e - s, 0)/e (equivalents accepted) under e > 0 and s is not None, with the
                   Task.spent setter rejecting negatives; custom attributes copied into the entry cannot overwrite those keys.
* escape (R11)     each _repr_html_ returns an <iframe> whose quoted srcdoc value is html.escape(self.to_html()) (quote=True).
* sinks (R5)       the name in the Gantt line passes .replace(':', x); the json.dumps result passes a replace that neutralises
                   `</` (replace of '</', '<' or '/') and its placeholder is a bare expression inside <script>; every name label
                   of a network edge passes the same sanitiser and that sanitiser removes `"`.

Spec sides come from the property text / the external formats (Mermaid `name : flags, id, start, end`, dayjs tokens, dhtmlxGantt's
data model id/text/start_date/end_date/parent/progress, source/target/type, parent 0 = root), not from today's code.

Not decided: Mermaid's grammar (`}}`, `#`, `;`, line breaks in names), CSS/style attribute text, the columns JSON, title /
tickInterval text, whether WBS.tasks and roots+all_children really enumerate each task once (C01/C05), numeric values.  A link counter
stepped *after* its use is accepted (ids stay unique).  Idioms outside the recognised ones (an `emitted` flag instead of a
predecessor test, helpers with several returns / try blocks that build part of the text, enumerate() targets) end as UNDECIDED,
never as a pass; "nothing found" (no task line / edge / dateFormat) is a violation only when every piece of the text was readable.

Shapes read through (round 3): the text / the payload lists are analysed on a canonical copy of the body function (`Canon`):
`return A + B`, lines collected in a list and joined (`xs.append`, `xs.extend`, `sep.join(xs)`), `''.join(<comprehension | generator
| map>)`, text built by a private method / module function with loops (one trailing return, or a generator with `yield`),
`data = [entry(t) for ..]`, `data.append(self.entry(t))`; a partial text collected in a second local accumulator (the shape
the engine's normaliser leaves after splicing a helper) counts as emissions of the main one (`Acc`); DHTMLX links produced by a
second complete loop over the tasks; `substitute(**mapping)` / `substitute(dict(..))`; task domains spelled as an unfiltered
comprehension.  A task list cached on the chart object by __init__ (`self.x = wbs.tasks`) and rendered later is refuted (stale).

Round 4: the state slot may be a local assigned in an if/elif chain (or default + overwrite) with one `return state` - every
path's last assignment is a case; `parent` through nested conditional expressions (guard clauses of an inlined helper);
`entry.update(D)` with D a dict filled under `k not in entry` (helper spliced) or a dict comprehension with that filter;
_repr_html_ through a shared helper of another package module (its constant / `escape` import are looked up there);
round()/float() around the progress formula.  New refutations: `sep.join(lines)` with a newline separator is modelled as
"every line + sep, minus the last sep" (`_minus_trailing_separator` marker) - text appended right after it that does not start
with a newline is glued onto the last line; a `.format` / `%` template that already contains a task name (name re-read as a
format template).

Round 5: section map as `defaultdict(list)` with `M[k].append(t)`; `dict(k=v)` read as a dict display (payload, links);
link ids from `next(c)` with `c = itertools.count(k)` created once before all loops (created in a loop: refuted) and
`for i, p in enumerate(t.predecessors)` (id = i: refuted, numbering restarts per task); f-string date specs `{t.start:%d.%m.%Y %H:%M}`
read as strftime; a loop domain built by a helper (`xs = []; for r in roots: xs += r.all_children + [r]; return xs`) read as the
equivalent comprehension (`builder_comprehension`); a per-task list of sources filled first and consumed by one emitting loop is
fused into the producer sites (`Canon.fuse`).

Round 6: a local that is a pure alias of an earlier local (`m = m__i2` after a spliced helper) is renamed away
(`Canon.alias_locals`); every `.replace(a, b)` applied to the json.dumps result must keep it JSON (b is a JSON spelling of a:
`<\\/`, `\\u003c`; `\\!`, `\\'` or `&lt;` are refuted); a section map built as `{k: list(v) for k, v in groupby(<unsorted tasks>)}`
is refuted (later runs of a section overwrite earlier ones).

Round 7: a text helper with guard returns around its loop is spliced with one emission per return; `Template` / `string`
resolved through a helper of another module inlined here; lines collected in a dict (`d[key] = line`, `''.join(d.values())`) are
read as emissions whose key must contain the id of every task on the line (key by name, or not depending on an end: refuted);
a link id that glues `p.id` and `t.id` together without a separator is refuted; a path that needs a section's group to be
empty is infeasible (groups exist because a task was appended).

Round 8: `sep.join(self.gen(..))` with a generator method is spliced as direct emissions (`yield V` -> `acc += V`, `yield from E`
-> `acc += sep.join(E)`, a bare `return` ends the spliced block); the substitute() mapping may be the single trailing
`return {..}` of a method of the class; a template filled by successive `text = text.replace('$x', value)` steps where an
earlier value is computed by the class (task data) is refuted - inserted text is scanned again by the later replacements.

Round 9: an `io.StringIO()` buffer (`out.write(X)`, `out.getvalue()`) is read as a text accumulator; a payload list built by a
method (`'links': self.__links()`) is hoisted and spliced; the payload may be serialised by a one-return helper of the class,
also one with **kwargs (its replace chain is then checked like a local one); sections fetched as `M.get(k, [])` / `M[k]` for
`k in M.keys()` are accepted, `for k in (<other list> or M.keys())` is refuted (unlisted sections are dropped); "nothing found"
refutations treat every call the rule cannot read as hidden text.

Round 10: a loop over an iterable defined in both branches of the preceding `if` is moved into the branches (tests of the
same single-assignment flag inside the body are folded), a loop over a one-element literal is unrolled, a loop over a list of
tuples built by a comprehension is read as a loop over the comprehension's source (`Canon.distribute_loops`,
`unroll_literal_loops`).  New refutations: a return path that hands back text cached on the object whose key leaves out task
attributes the rendering reads (`check_memo`); the flat/sectioned decision counting only declared / filtered sections; a
child-id -> parent-id map built from the root and its direct children only.

Round 11: the state slot is evaluated case by case (`value_cases`): conditional expressions whose test is itself a conditional
text (`tag + ',' if tag else ''` with `tag = 'milestone' if t.milestone else ..`), `+`, f-strings and `and` / `or` over constant
texts are folded per feasible combination of the atoms (contradictory combinations are dropped, `a and b` short-circuits), so a
helper returning the bare tag with the comma appended by the caller is read like the original.  A task name passing
`re.sub(P, R, name)` / `re.compile(P).sub(R, name)` with constant P, R is a sanitiser step: accepted when P is `:` itself (also
followed by optional pieces) or one character class containing it; otherwise the constant chain is applied to probe names and a
name that keeps its `:` refutes (context-dependent patterns such as `:(?!\\d)`), no surviving probe -> undecided.  A strftime
format chosen by a conditional expression is checked alternative by alternative (a date-only alternative is refuted).

Engine limitations worked around here (helpers below, nothing under sa/ was changed): string-building normalisation (`parts`),
inlining of multi-statement single-return helpers (`deep`), path enumeration with event counts (`paths`, DESIGN 3.7 is not in
sa/), structural loop nesting (`loop_chains`), accumulator recognition (`Acc`), a propositional evaluator for branch conditions,
pattern matching of calls that carry keywords (sa.pat's `$*args` does not cover keywords), and statement-level splicing of
helpers called in expression position / comprehension -> loop rewriting (`Canon`, reuses sa.normalize.Normalizer.block_of).
"""
from __future__ import annotations

import ast
import copy
import itertools
import re
import string
from typing import Dict, List, Optional, Tuple

from sa.cfg import cfg_of
from sa.flow import flow_of, Expander, subst
from sa.model import Func, unmangle, walk_no_nested, src
from sa.pat import match, same


class Und(Exception):
    """the construct is written in an idiom the rule does not understand"""

    def __init__(self, func, node, construct, msg):
        super().__init__(msg)
        self.func, self.node, self.construct, self.msg = func, node, construct, msg


# --------------------------------------------------------------------------------------------------------- strings
def _fmt_parts(text: str, args: List[ast.AST], kwargs: Dict[str, ast.AST]):
    out, auto = [], 0
    try:
        parsed = list(string.Formatter().parse(text))
    except ValueError:
        return None
    for lit, field, spec, conv in parsed:
        if lit:
            out.append(('lit', lit))
        if field is None:
            continue
        if spec and ('{' in spec):
            return None
        if field == '':
            if auto >= len(args):
                return None
            out += parts(args[auto])
            auto += 1
        elif field.isdigit():
            if int(field) >= len(args):
                return None
            out += parts(args[int(field)])
        elif field.isidentifier():
            if field not in kwargs:
                return None
            out += parts(kwargs[field])
        else:
            return None
    return out


def _percent_parts(text: str, args: List[ast.AST]):
    out, i, pos = [], 0, 0
    for m in re.finditer(r'%(%|[sdr])', text):
        if m.start() > pos:
            out.append(('lit', text[pos:m.start()]))
        pos = m.end()
        if m.group(1) == '%':
            out.append(('lit', '%'))
            continue
        if i >= len(args):
            return None
        out += parts(args[i])
        i += 1
    if '%' in text[pos:]:
        return None
    if pos < len(text):
        out.append(('lit', text[pos:]))
    return out if i == len(args) else None


def _all_lit(ps) -> Optional[str]:
    if all(k == 'lit' for k, _ in ps):
        return ''.join(v for _, v in ps)
    return None


def parts(e: ast.AST) -> List[Tuple[str, object]]:
    """flat list of ('lit', str) and ('val', expr); adjacent literals are merged"""
    return _merge(_parts(e))


def _merge(ps):
    out = []
    for k, v in ps:
        if k == 'lit' and out and out[-1][0] == 'lit':
            out[-1] = ('lit', out[-1][1] + v)
        elif not (k == 'lit' and v == ''):
            out.append((k, v))
    return out


def _parts(e):
    if isinstance(e, ast.Constant) and isinstance(e.value, str):
        return [('lit', e.value)]
    if isinstance(e, ast.JoinedStr):
        out = []
        for v in e.values:
            if isinstance(v, ast.Constant):
                out.append(('lit', str(v.value)))
            elif isinstance(v, ast.FormattedValue):
                spec = v.format_spec
                if spec is None:
                    out += _parts(v.value)
                elif isinstance(spec, ast.JoinedStr) and len(spec.values) == 1 and isinstance(spec.values[0], ast.Constant) and \
                        '%' in str(spec.values[0].value) and v.conversion == -1:
                    # f"{x:%d.%m.%Y}" is format(x, spec): for datetime values the same as x.strftime(spec)
                    out.append(('val', ast.copy_location(ast.Call(func=ast.Attribute(value=v.value, attr='strftime', ctx=ast.Load()),
                                                                  args=[ast.Constant(value=spec.values[0].value)], keywords=[]), v)))
                else:
                    out.append(('val', v))
            else:
                out.append(('val', v))
        return out
    if isinstance(e, ast.BinOp) and isinstance(e.op, ast.Add):
        lp, rp = _parts(e.left), _parts(e.right)
        if any(k == 'lit' for k, _ in lp + rp):
            return lp + rp
        return [('val', e)]
    if isinstance(e, ast.BinOp) and isinstance(e.op, ast.Mod):
        t = _all_lit(_parts(e.left))
        if t is not None:
            args = list(e.right.elts) if isinstance(e.right, ast.Tuple) else [e.right]
            r = _percent_parts(t, args)
            if r is not None:
                return r
        return [('val', e)]
    if isinstance(e, ast.Call) and isinstance(e.func, ast.Attribute):
        if e.func.attr == 'format':
            t = _all_lit(_parts(e.func.value))
            if t is not None and not any(isinstance(a, ast.Starred) for a in e.args) and all(k.arg for k in e.keywords):
                r = _fmt_parts(t, list(e.args), {k.arg: k.value for k in e.keywords})
                if r is not None:
                    return r
            return [('val', e)]
        if e.func.attr == 'join' and len(e.args) == 1 and isinstance(e.args[0], (ast.List, ast.Tuple)):
            sep = _all_lit(_parts(e.func.value))
            if sep is not None:
                out = []
                for i, x in enumerate(e.args[0].elts):
                    if i:
                        out.append(('lit', sep))
                    out += _parts(x)
                return out
    if isinstance(e, ast.Call) and isinstance(e.func, ast.Name) and e.func.id == 'str' and len(e.args) == 1 and not e.keywords:
        inner = _parts(e.args[0])
        if any(k == 'lit' for k, _ in inner):
            return inner
        return [('val', e.args[0])]
    return [('val', e)]


def lits(ps) -> str:
    return ''.join(v for k, v in ps if k == 'lit')


def vals(ps) -> List[ast.AST]:
    return [v for k, v in ps if k == 'val']


def const_str(e) -> Optional[str]:
    if isinstance(e, ast.Constant) and isinstance(e.value, str):
        return e.value
    return None


class RegexStep(tuple):
    """(pattern, replacement) of a `re.sub(pattern, replacement, X)` step of a sanitiser chain"""

    def __repr__(self):
        return f"re.sub({self[0]!r}, {self[1]!r})"


def sanitiser(e: ast.AST, regex: bool = False):
    """(base expression, [(old, new), ...]) after peeling `.replace(const, const)` and `str(..)` wrappers; with `regex` also
    `re.sub(const, const, X)` / `re.compile(const).sub(const, X)` (no count / flags) as RegexStep entries"""
    chain = []
    while True:
        if isinstance(e, ast.Call) and isinstance(e.func, ast.Attribute) and e.func.attr == 'replace' and \
                len(e.args) in (2, 3) and const_str(e.args[0]) is not None and const_str(e.args[1]) is not None:
            chain.append((const_str(e.args[0]), const_str(e.args[1])))
            e = e.func.value
            continue
        if isinstance(e, ast.Call) and isinstance(e.func, ast.Name) and e.func.id == 'str' and len(e.args) == 1:
            e = e.args[0]
            continue
        if regex and isinstance(e, ast.Call) and not e.keywords:
            m = match("re.sub($p, $r, $x)", e) or match("re.compile($p).sub($r, $x)", e)
            if m and const_str(m['p']) is not None and const_str(m['r']) is not None:
                chain.append(RegexStep((const_str(m['p']), const_str(m['r']))))
                e = m['x']
                continue
        break
    chain.reverse()
    return e, chain


def removes(chain, ch: str) -> bool:
    """some step of the chain replaces exactly `ch` by text not containing it (and no later step brings it back)"""
    ok = False
    for st in chain:
        a, b = st
        if isinstance(st, RegexStep):
            if regex_removes_every(a, ch) and ch not in b:
                ok = True
            elif ch in b:
                ok = False
            continue
        if a == ch and ch not in b:
            ok = True
        elif ch in b:
            ok = False
    return ok


def regex_removes_every(pat: str, ch: str) -> bool:
    """the pattern is `ch` itself or one character class, optionally repeated with `+`: it matches `ch` wherever it stands
    (a class is confirmed by trying it); patterns with context (look-around, neighbours, anchors) are not accepted here"""
    body = pat[:-1] if pat.endswith('+') and len(pat) > 1 else pat
    if body in (ch, '\\' + ch):
        return True
    # `ch` followed only by optional pieces (`:\\s*`, `: ?`): the match at every `ch` succeeds whatever follows
    for lead in (ch, '\\' + ch):
        if pat.startswith(lead) and re.fullmatch(r'(?:(?:\\[sSdDwW]|\[[^\]\\^]+\]|[ A-Za-z0-9_-])[*?])+', pat[len(lead):]):
            return True
    if re.fullmatch(r'\[(?:\\.|[^\]\\])+\]', body):
        try:
            return re.fullmatch(pat, ch) is not None
        except re.error:
            return False
    return False


_PROBE_NEIGHBOURS = ('', 'a', 'Z', '7', ' ', '_', '-', '.', '/', '\t', '\u00e9', '"', '0')


def surviving_probe(chain, ch: str) -> Optional[str]:
    """a single-line text containing `ch` that still contains it after all steps of the chain were applied to it (the steps are
    constant str.replace / re.sub calls, so this is what the analysed code computes for that name), None when no probe survives"""
    probes = []
    for pre in _PROBE_NEIGHBOURS + (ch,):
        for post in _PROBE_NEIGHBOURS + (ch,):
            probes += [pre + ch + post, 'x' + pre + ch + post + 'y']
    for p in sorted(set(probes), key=lambda t: (len(t), t)):
        text = p
        try:
            for st in chain:
                a, b = st
                text = re.sub(a, b, text) if isinstance(st, RegexStep) else text.replace(a, b)
        except (re.error, IndexError):
            return None
        if ch in text:
            return p
    return None


# ---------------------------------------------------------------------------------------------------- deep expansion
def helper_of(ctx, f: Func, call: ast.Call) -> Optional[Func]:
    """same-class helper called as self.h(..) / Cls.h(..) / cls.h(..), or a function of the same module called by name"""
    fn = call.func
    if isinstance(fn, ast.Name):
        h = ctx.prog.module_func(f.module.name, fn.id)
        return h if h is not None and h.kind == 'function' else None
    if not (isinstance(fn, ast.Attribute) and isinstance(fn.value, ast.Name) and f.cls):
        return None
    if fn.value.id not in (f.self_name, f.cls, 'cls', 'self'):
        return None
    return ctx.prog.find_method(f.cls, unmangle(fn.attr))


def _bind(h: Func, call: ast.Call) -> Optional[Dict[str, ast.AST]]:
    params = list(h.params)
    args = list(call.args)
    if any(isinstance(a, ast.Starred) for a in args) or any(k.arg is None for k in call.keywords):
        return None
    if h.kind in ('method', 'getter', 'setter', 'classmethod'):
        args = [call.func.value] + args
    if len(args) > len(params):
        return None
    sub = dict(zip(params, args))
    for k in call.keywords:
        if k.arg in sub or k.arg not in params:
            return None
        sub[k.arg] = k.value
    a = h.node.args
    defaults = dict(zip([x.arg for x in a.args][-len(a.defaults):], a.defaults)) if a.defaults else {}
    for p in params:
        if p not in sub:
            if p not in defaults:
                return None
            sub[p] = defaults[p]
    return sub


def single_return_value(ctx, h: Func, depth=0) -> Optional[ast.AST]:
    """value of a helper whose only `return` is its last top-level statement, with the helper's locals expanded"""
    rets = [n for n in walk_no_nested(h.node) if isinstance(n, ast.Return)]
    if len(rets) != 1 or not h.body or h.body[-1] is not rets[0] or rets[0].value is None:
        return None
    val = deep(ctx, h, rets[0].value, depth=depth + 1)
    local = {d.var.split('.')[0] for d in flow_of(h).defs if d.kind != 'param'}
    bound = set()
    for n in ast.walk(val):
        if isinstance(n, ast.comprehension):
            bound |= {x.id for x in ast.walk(n.target) if isinstance(x, ast.Name)}
    if any(isinstance(n, ast.Name) and n.id in local and n.id not in bound for n in ast.walk(val)):
        return None
    return val


_MUTATORS = ('append', 'extend', 'insert', 'update', 'add', 'pop', 'remove', 'clear', 'sort', 'reverse', 'setdefault',
             'discard', 'popitem', '__setitem__', '__delitem__')
_MUTATED: Dict[int, set] = {}


def mutated_locals(f: Func) -> set:
    """local names whose object is changed in place (x.append(..), x[k] = .., del x[k]): their defining expression is not
    their value at a later use, so they must stay opaque atoms"""
    k = id(f.node)
    if k not in _MUTATED:
        out = set()
        for n in walk_no_nested(f.node, include_lambdas=True):
            if isinstance(n, ast.Call) and isinstance(n.func, ast.Attribute) and isinstance(n.func.value, ast.Name) and \
                    n.func.attr in _MUTATORS:
                out.add(n.func.value.id)
            elif isinstance(n, ast.Subscript) and isinstance(n.ctx, (ast.Store, ast.Del)) and isinstance(n.value, ast.Name):
                out.add(n.value.id)
        _MUTATED[k] = out
        f._keep = f.node
    return _MUTATED[k]


def deep(ctx, f: Func, expr: ast.AST, at=None, depth=0) -> ast.AST:
    e = Expander(ctx.prog, f, ctx.typer).expand(expr, at, stop=mutated_locals(f))
    if depth > 4:
        return e

    class T(ast.NodeTransformer):
        def visit_Call(self, n):
            self.generic_visit(n)
            h = helper_of(ctx, f, n)
            if h is None or h == f:
                return n
            body = single_return_value(ctx, h, depth)
            sub = _bind(h, n) if body is not None else None
            if sub is None:
                return n
            return subst(body, sub)
    return T().visit(copy.deepcopy(e))


def reaches(ctx, f: Func, pred, _seen=None) -> bool:
    """does f (or a same-class helper it calls) contain a node satisfying pred"""
    seen = _seen if _seen is not None else set()
    if f.qual in seen:
        return False
    seen.add(f.qual)
    for n in walk_no_nested(f.node, include_lambdas=True):
        if pred(n):
            return True
        if isinstance(n, ast.Call):
            h = helper_of(ctx, f, n)
            if h is not None and reaches(ctx, h, pred, seen):
                return True
    return False


# --------------------------------------------------------------------------------------------------------- paths
class Path:
    __slots__ = ('conds', 'events', 'exit')

    def __init__(self, conds, events, exit_):
        self.conds, self.events, self.exit = conds, events, exit_

    def count(self, *labels) -> int:
        return sum(1 for l, _ in self.events if l in labels)

    def cond_text(self) -> str:
        return ' and '.join(('' if p else 'not ') + '(' + src(t) + ')' for t, p in self.conds) or 'always'


class TooManyPaths(Exception):
    pass


_EXITS = (ast.Return, ast.Continue, ast.Break, ast.Raise)


def paths(stmts: List[ast.stmt], atoms: Dict[int, str], limit: int = 400) -> List[Path]:
    """atoms: id(statement) -> label.  A labelled loop is one event and is not entered; an unlabelled loop that contains
    labelled statements becomes the event 'opaque-loop'; a try statement containing them becomes 'opaque'."""
    def has(st):
        return any(id(x) in atoms for x in ast.walk(st))

    def has_exit(st):
        return any(isinstance(x, _EXITS) for x in walk_no_nested(st))

    def run(body):
        ps = [([], [], None)]
        for st in body:
            live = [p for p in ps if p[2] is None]
            if not live:
                break
            done = [p for p in ps if p[2] is not None]
            alts = step(st)
            ps = done + [(c + c2, e + e2, x2) for c, e, _ in live for c2, e2, x2 in alts]
            if len(ps) > limit:
                raise TooManyPaths()
        return ps

    def step(st):
        if id(st) in atoms:
            return [([], [(atoms[id(st)], st)], None)]
        if isinstance(st, ast.If):
            if not has(st) and not has_exit(st):
                return [([], [], None)]
            if isinstance(st.test, ast.Constant):
                return run(st.body if st.test.value else st.orelse)
            a, b = run(st.body), run(st.orelse)
            return [([(st.test, True)] + c, e, x) for c, e, x in a] + [([(st.test, False)] + c, e, x) for c, e, x in b]
        if isinstance(st, (ast.For, ast.AsyncFor, ast.While)):
            if has(st):
                return [([], [('opaque-loop', st)], None)]
            if any(isinstance(x, ast.Return) for x in walk_no_nested(st)):
                return [([], [], None), ([], [('early-return', st)], 'return')]
            return [([], [], None)]
        if isinstance(st, (ast.With, ast.AsyncWith)):
            return run(st.body)
        if isinstance(st, ast.Try) or type(st).__name__ in ('Match', 'TryStar'):
            if has(st) or has_exit(st):
                return [([], [('opaque', st)], None)]
            return [([], [], None)]
        if isinstance(st, ast.Return):
            return [([], [], 'return')]
        if isinstance(st, ast.Raise):
            return [([], [], 'raise')]
        if isinstance(st, ast.Continue):
            return [([], [], 'continue')]
        if isinstance(st, ast.Break):
            return [([], [], 'break')]
        return [([], [], None)]

    return [Path(c, e, x or 'fall') for c, e, x in run(stmts)]


def loop_chains(fnode) -> Dict[int, List[ast.stmt]]:
    """id(statement) -> list of enclosing For/While statements of the same function, outermost first"""
    out: Dict[int, List[ast.stmt]] = {}

    def rec(body, chain):
        for st in body:
            out[id(st)] = list(chain)
            if isinstance(st, (ast.FunctionDef, ast.AsyncFunctionDef, ast.ClassDef)):
                continue
            inner = chain + [st] if isinstance(st, (ast.For, ast.AsyncFor, ast.While)) else chain
            for fld in ('body', 'orelse', 'finalbody'):
                b = getattr(st, fld, None)
                if isinstance(b, list):
                    rec(b, inner if fld == 'body' else chain)
            for h in getattr(st, 'handlers', []) or []:
                rec(h.body, chain)
            for c in getattr(st, 'cases', []) or []:
                rec(c.body, chain)
    rec(fnode.body, [])
    return out


def stmt_of(fnode, node) -> Optional[ast.stmt]:
    """innermost statement of the function containing the expression node (identity)"""
    best = None
    for st in walk_no_nested(fnode):
        if isinstance(st, ast.stmt) and st is not fnode:
            if isinstance(st, (ast.If, ast.While)):
                roots = [st.test]
            elif isinstance(st, (ast.For, ast.AsyncFor)):
                roots = [st.iter, st.target]
            elif isinstance(st, (ast.With, ast.AsyncWith, ast.Try)):
                roots = []
            else:
                roots = [st]
            if any(x is node for r in roots for x in ast.walk(r)):
                best = st
    return best


# --------------------------------------------------------------------------------------------------------- accumulator
def _blocks(fnode) -> Dict[int, Tuple[list, int]]:
    """id(statement) -> (the statement list that holds it, its index there)"""
    out: Dict[int, Tuple[list, int]] = {}

    def rec(body):
        for i, st in enumerate(body):
            out[id(st)] = (body, i)
            if isinstance(st, (ast.FunctionDef, ast.AsyncFunctionDef, ast.ClassDef)):
                continue
            for fld in ('body', 'orelse', 'finalbody'):
                b = getattr(st, fld, None)
                if isinstance(b, list):
                    rec(b)
            for h in getattr(st, 'handlers', []) or []:
                rec(h.body)
            for c in getattr(st, 'cases', []) or []:
                rec(c.body)
    rec(fnode.body)
    return out


def _leaves_block(stmts) -> bool:
    """a return, or a break/continue that belongs to a loop outside `stmts`"""
    def rec(body, depth):
        for st in body:
            if isinstance(st, (ast.FunctionDef, ast.AsyncFunctionDef, ast.ClassDef)):
                continue
            if isinstance(st, ast.Return):
                return True
            if isinstance(st, (ast.Break, ast.Continue)) and depth == 0:
                return True
            loop = isinstance(st, (ast.For, ast.AsyncFor, ast.While))
            for fld in ('body', 'orelse', 'finalbody'):
                b = getattr(st, fld, None)
                if isinstance(b, list) and rec(b, depth + (1 if loop and fld == 'body' else 0)):
                    return True
            for h in getattr(st, 'handlers', []) or []:
                if rec(h.body, depth):
                    return True
        return False
    return rec(stmts, 0)


class Acc:
    """`acc = <text>` once, then `acc += X` / `acc = acc + X`, and every return returns acc.

    A part of the text that is first collected in a second local accumulator (`head = ..; head += ..; acc = head` or
    `acc += head`, the shape left by a spliced helper) is read through: the emissions into `head` count as emissions
    into `acc` when `head` is created and consumed in the same statement list, is filled only in between, and is used
    nowhere else."""

    def __init__(self, ctx, f: Func, name: Optional[str] = None, _outer: Tuple[str, ...] = ()):
        self.func = f
        if name is None:
            rets = [n for n in walk_no_nested(f.node) if isinstance(n, ast.Return)]
            names = {r.value.id if isinstance(r.value, ast.Name) else None for r in rets}
            if not rets or len(names) != 1 or None in names:
                raise Und(f, f.node, 'return', "the function does not return one string accumulator variable built with `+=`")
            name = names.pop()
        self.name = name
        self.emits: List[Tuple[ast.stmt, ast.AST]] = []
        self.own: set = set()          # Name nodes of the accumulator that belong to its own init / update statements
        inits = []
        for n in walk_no_nested(f.node):
            if isinstance(n, ast.AugAssign) and isinstance(n.target, ast.Name) and n.target.id == self.name:
                if not isinstance(n.op, ast.Add):
                    raise Und(f, n, n, "accumulator updated with an operator other than +=")
                self.emits.append((n, n.value))
                self.own.add(id(n.target))
            elif isinstance(n, ast.Assign) and any(isinstance(x, ast.Name) and x.id == self.name
                                                   for t in n.targets for x in ast.walk(t)):
                if len(n.targets) != 1 or not isinstance(n.targets[0], ast.Name):
                    raise Und(f, n, n, "accumulator bound by an unpacking / chained assignment")
                v = n.value
                self.own.add(id(n.targets[0]))
                if isinstance(v, ast.BinOp) and isinstance(v.op, ast.Add) and isinstance(v.left, ast.Name) and v.left.id == self.name:
                    self.emits.append((n, v.right))
                    self.own.add(id(v.left))
                else:
                    inits.append(n)
            elif isinstance(n, (ast.For, ast.AsyncFor)) and any(isinstance(x, ast.Name) and x.id == self.name for x in ast.walk(n.target)):
                raise Und(f, n, n, "accumulator rebound as a loop variable")
            elif isinstance(n, ast.NamedExpr) and n.target.id == self.name:
                raise Und(f, n, n, "accumulator rebound by a walrus")
        if len(inits) != 1:
            raise Und(f, f.node, self.name, f"accumulator `{self.name}` is (re)assigned {len(inits)} times: earlier output may be dropped")
        self.init = inits[0]
        if any(isinstance(x, ast.Name) and x.id == self.name for x in ast.walk(self.init.value)):
            raise Und(f, self.init, self.init, "accumulator initialised from itself")
        cfg = cfg_of(f)
        n0 = cfg.node_of(self.init)
        if n0 is None or (cfg.enclosing_loops(n0) and not _outer):
            raise Und(f, self.init, self.init, "accumulator initialised inside a loop")
        for st, _ in self.emits:
            n1 = cfg.node_of(st)
            if n1 is None or not cfg.dominates(n0, n1):
                raise Und(f, st, st, "an emission is not preceded by the accumulator's initialisation on every path")
        self.all = []
        for st, v in [(self.init, self.init.value)] + self.emits:
            ps = _concat(v)
            subs = [self._sub_accumulator(ctx, st, p_, _outer) for p_ in ps]
            if not any(subs):
                self.all.append((st, v))
                continue
            for p_, sub in zip(ps, subs):
                if sub is None:
                    self.all.append((st, p_))
                else:
                    self.all += sub.all

    def _sub_accumulator(self, ctx, use: ast.stmt, v: ast.AST, outer) -> Optional['Acc']:
        f = self.func
        if not isinstance(v, ast.Name) or v.id == self.name or v.id in outer:
            return None
        built = any((isinstance(n, ast.AugAssign) and isinstance(n.target, ast.Name) and n.target.id == v.id) or
                    (isinstance(n, ast.Assign) and len(n.targets) == 1 and isinstance(n.targets[0], ast.Name) and
                     n.targets[0].id == v.id and isinstance(n.value, ast.BinOp) and isinstance(n.value.left, ast.Name) and
                     n.value.left.id == v.id) for n in walk_no_nested(f.node))
        if not built:
            return None                   # a plain local: the Expander resolves it
        sub = Acc(ctx, f, v.id, outer + (self.name,))
        other = [n for n in walk_no_nested(f.node, include_lambdas=True)
                 if isinstance(n, ast.Name) and n.id == v.id and n is not v and id(n) not in sub.own]
        if other:
            st = stmt_of(f.node, other[0])
            raise Und(f, st or use, f"{v.id}: other use", f"the partial text `{v.id}` is also used in `{src(st or other[0])[:60]}`")
        blocks = _blocks(f.node)
        b0, b1 = blocks.get(id(sub.init)), blocks.get(id(use))
        if b0 is None or b1 is None or b0[0] is not b1[0] or b0[1] >= b1[1]:
            raise Und(f, use, use, f"the partial text `{v.id}` is not created and consumed in the same block")
        between = b0[0][b0[1] + 1:b1[1]]
        inside = {id(x) for st in between for x in ast.walk(st)}
        if any(id(st) not in inside for st, _ in sub.emits):
            raise Und(f, use, use, f"the partial text `{v.id}` is extended outside the statements between its creation and its use")
        if _leaves_block(between):
            raise Und(f, use, use, f"control may leave between the creation of the partial text `{v.id}` and its use")
        return sub


# --------------------------------------------------------------------------------------------------------- canonical form
def _join_of(e: ast.AST):
    """(separator, argument) of `'<sep>'.join(<arg>)`"""
    if isinstance(e, ast.Call) and isinstance(e.func, ast.Attribute) and e.func.attr == 'join' and len(e.args) == 1 and \
            not e.keywords and const_str(e.func.value) is not None:
        return const_str(e.func.value), e.args[0]
    return None


def _concat(e: ast.AST) -> List[ast.AST]:
    if isinstance(e, ast.BinOp) and isinstance(e.op, ast.Add):
        return _concat(e.left) + _concat(e.right)
    return [e]


def _name(n: str, store=False) -> ast.Name:
    return ast.Name(id=n, ctx=ast.Store() if store else ast.Load())


def _with_sep(v: ast.AST, sep: str) -> ast.AST:
    return v if not sep else ast.BinOp(left=v, op=ast.Add(), right=ast.Constant(value=sep))


_MARK = '_minus_trailing_separator'


def _marker(sep: str) -> ast.AST:
    """stands for "the text so far lacks its last separator": `sep.join(xs)` is modelled as every element followed by sep"""
    return ast.Call(func=_name(_MARK), args=[ast.Constant(value=sep)], keywords=[])


def is_marker(v: ast.AST) -> bool:
    return isinstance(v, ast.Call) and isinstance(v.func, ast.Name) and v.func.id == _MARK


def _ends_line(v: ast.AST) -> bool:
    ps = parts(v)
    return bool(ps) and ps[-1][0] == 'lit' and ps[-1][1].endswith('\n')


class Canon:
    """Rewrites a copy of a text-building function into the shape the rule reads: one string accumulator filled by `+=`
    statements inside explicit loops.  Only behaviour-preserving steps (up to a trailing separator of `sep.join`):

      return A + B                      ->  _text = A + B; return _text; the pieces are split when one needs a step below
      acc += ''.join(self.h(..))        ->  the statements of h (locals renamed), acc += ''.join(<its return value>)
      acc += self.h(..)                     (h: loops / accumulators and one trailing return; other helpers are left to `deep`)
      acc += ''.join([E for x in X if c]) -> for x in X: if c: acc += E                 (also generator expressions and map(fn, X))
      xs = []; xs.append(v); xs.extend([..]); acc += ''.join(xs)  ->  xs = ''; xs += v; ...; acc += xs

    `sep.join` with a non-empty separator is written as element + sep, followed by a marker for the missing last separator.
    Nothing is decided here.  A function that needs none of the steps is returned unchanged (same object)."""

    def __init__(self, ctx, f: Func):
        self.ctx, self.f0 = ctx, f
        self.node = copy.deepcopy(f.node)
        self.k = 0
        self.touched = False
        self.dead: set = set()          # id of pieces that could not be rewritten
        self._nz = None
        self._gen: Dict[str, Optional[Func]] = {}
        self.keyed: Dict[int, ast.AST] = {}    # id(emission statement) -> dict key under which the line was collected

    # ------------------------------------------------------------------ helpers
    def fresh(self, base: str) -> str:
        self.k += 1
        return f"{base}__c{self.k}"

    def as_list_builder(self, h: Func) -> Optional[Func]:
        """a generator helper (`yield v` statements, no return, no `yield from`) read as `_y = []; _y.append(v); return _y`"""
        ys = [n for n in walk_no_nested(h.node) if isinstance(n, (ast.Yield, ast.YieldFrom))]
        if not ys:
            return h
        if h.qual in self._gen:
            return self._gen[h.qual]
        self._gen[h.qual] = None
        if any(isinstance(n, ast.YieldFrom) or n.value is None for n in ys) or \
                any(isinstance(n, ast.Return) for n in walk_no_nested(h.node)):
            return None
        node = copy.deepcopy(h.node)
        seen = []

        class T(ast.NodeTransformer):
            def visit_Expr(self, st):
                if isinstance(st.value, ast.Yield):
                    seen.append(st)
                    return ast.copy_location(ast.Expr(value=ast.Call(func=ast.Attribute(value=_name('_yielded'), attr='append', ctx=ast.Load()),
                                                                     args=[st.value.value], keywords=[])), st)
                return st

            def visit_FunctionDef(self, n):
                return self.generic_visit(n) if n is node else n
        T().visit(node)
        if len(seen) != len(ys):
            return None                      # a yield used as an expression
        node.body = [ast.copy_location(ast.Assign(targets=[_name('_yielded', True)], value=ast.List(elts=[], ctx=ast.Load())), node)] + \
            node.body + [ast.copy_location(ast.Return(value=_name('_yielded')), node)]
        ast.fix_missing_locations(node)
        import dataclasses
        self._gen[h.qual] = dataclasses.replace(h, node=node)
        return self._gen[h.qual]

    def spliceable(self, call: ast.AST) -> Optional[Func]:
        if not isinstance(call, ast.Call):
            return None
        h = helper_of(self.ctx, self.f0, call)
        if h is None or h == self.f0 or not isinstance(h.node, ast.FunctionDef):
            return None
        h = self.as_list_builder(h)
        if h is None:
            return None
        rets = [n for n in walk_no_nested(h.node) if isinstance(n, ast.Return)]
        if not rets or any(r.value is None for r in rets):
            return None
        if len(rets) != 1 or h.body[-1] is not rets[0]:
            # guard returns before / around a loop that builds the text: spliced with one emission per return;
            # straight-line if/return chains are left to the Expander (conditional expression)
            if not any(isinstance(n, (ast.For, ast.While)) for n in walk_no_nested(h.node)):
                return None
            return h if self.checks_ok(h) else None
        if single_return_value(self.ctx, h) is not None:
            return None                     # `deep` inlines it as an expression
        return h if self.checks_ok(h) else None

    def checks_ok(self, h: Func) -> bool:
        if any(isinstance(n, (ast.Yield, ast.YieldFrom, ast.Try, ast.With, ast.FunctionDef, ast.Lambda, ast.Global, ast.Nonlocal))
               for n in ast.walk(h.node) if n is not h.node):
            return False
        if any(isinstance(n, ast.Call) and helper_of(self.ctx, h, n) == h for n in ast.walk(h.node)):
            return False
        return True

    def complex_piece(self, p: ast.AST) -> bool:
        if id(p) in self.dead:
            return False
        j = _join_of(p)
        a = j[1] if j else p
        if j and isinstance(a, (ast.ListComp, ast.GeneratorExp, ast.Name)):
            return True
        if j and isinstance(a, ast.Call) and isinstance(a.func, ast.Name) and a.func.id == 'map' and len(a.args) == 2:
            return True
        if j and isinstance(a, ast.Call):
            g = helper_of(self.ctx, self.f0, a)
            if g is not None and g != self.f0 and isinstance(g.node, ast.FunctionDef) and \
                    any(isinstance(n, (ast.Yield, ast.YieldFrom)) for n in walk_no_nested(g.node)):
                return True
        return self.spliceable(a) is not None

    def text_names(self) -> set:
        names = {r.value.id for r in walk_no_nested(self.node) if isinstance(r, ast.Return) and isinstance(r.value, ast.Name)}
        grew = True
        while grew:
            grew = False
            for st in walk_no_nested(self.node):
                e = self.emission(st)
                if e and e[0] in names:
                    for p in _concat(e[2]):
                        j = _join_of(p)
                        a = j[1] if j else p
                        if isinstance(a, ast.Name) and a.id not in names:
                            names.add(a.id)
                            grew = True
        return names

    @staticmethod
    def emission(st):
        """(accumulator, is_init, value) of `a = v`, `a += v`, `a = a + v`"""
        if isinstance(st, ast.AugAssign) and isinstance(st.op, ast.Add) and isinstance(st.target, ast.Name):
            return st.target.id, False, st.value
        if isinstance(st, ast.Assign) and len(st.targets) == 1 and isinstance(st.targets[0], ast.Name):
            a, v = st.targets[0].id, st.value
            if isinstance(v, ast.BinOp) and isinstance(v.op, ast.Add) and isinstance(v.left, ast.Name) and v.left.id == a:
                return a, False, v.right
            return a, True, v
        return None

    @staticmethod
    def emit(a: str, init: bool, v: ast.AST, at) -> ast.stmt:
        st = ast.Assign(targets=[_name(a, True)], value=v) if init else ast.AugAssign(target=_name(a, True), op=ast.Add(), value=v)
        return ast.copy_location(st, at)

    # ------------------------------------------------------------------ driver
    def alias_locals(self):
        """`a = b` as a statement of some block, b a local that occurs only in the statements of that block before it and a only
        in those after it (the shape left by a spliced helper: `m__i2 = {}; ...; m = m__i2`): a is renamed to b and the
        assignment dropped"""
        params = {x.arg for x in self.node.args.posonlyargs + self.node.args.args + self.node.args.kwonlyargs}
        if any(isinstance(n, (ast.Global, ast.Nonlocal, ast.Lambda)) or (isinstance(n, ast.FunctionDef) and n is not self.node)
               for n in ast.walk(self.node)):
            return
        again = True
        while again:
            again = False
            every = [n for n in ast.walk(self.node) if isinstance(n, ast.Name)]
            for body, i in list(_blocks(self.node).values()):
                st = body[i]
                if not (isinstance(st, ast.Assign) and len(st.targets) == 1 and isinstance(st.targets[0], ast.Name) and
                        isinstance(st.value, ast.Name)):
                    continue
                a, b = st.targets[0].id, st.value.id
                if a == b or a in params or b in params:
                    continue
                before = {id(n) for s_ in body[:i] for n in ast.walk(s_)}
                after = {id(n) for s_ in body[i + 1:] for n in ast.walk(s_)}
                occ_a = [n for n in every if n.id == a and n is not st.targets[0]]
                occ_b = [n for n in every if n.id == b and n is not st.value]
                if not occ_b or any(id(n) not in before for n in occ_b) or any(id(n) not in after for n in occ_a):
                    continue
                if not any(isinstance(n.ctx, ast.Store) for n in occ_b) or any(isinstance(n.ctx, ast.Store) for n in occ_a):
                    continue
                for n in occ_a:
                    n.id = b
                del body[i]
                if not body:
                    body.append(ast.copy_location(ast.Pass(), st))
                self.touched = again = True
                break

    def buffers_to_text(self):
        """`out = StringIO(); out.write(X) ...; return out.getvalue()`  ->  `out = ''; out += X ...; return out`
        (only when every use of the buffer is one of these three forms)"""
        imp = self.f0.module.imports
        for st0 in list(walk_no_nested(self.node)):
            if not (isinstance(st0, ast.Assign) and len(st0.targets) == 1 and isinstance(st0.targets[0], ast.Name) and
                    isinstance(st0.value, ast.Call) and not st0.value.args and not st0.value.keywords):
                continue
            c = st0.value
            if not ((imp.get('StringIO') == 'io.StringIO' and match("StringIO", c.func)) or
                    (imp.get('io') == 'io' and match("io.StringIO", c.func))):
                continue
            x = st0.targets[0].id
            ok, writes, reads = {id(st0.targets[0])}, [], []
            for n in walk_no_nested(self.node, include_lambdas=True):
                if isinstance(n, ast.Expr) and isinstance(n.value, ast.Call) and match(f"{x}.write($v)", n.value):
                    writes.append(n)
                    ok.add(id(n.value.func.value))
                elif isinstance(n, ast.Call) and match(f"{x}.getvalue()", n) :
                    reads.append(n)
                    ok.add(id(n.func.value))
            if any(isinstance(n, ast.Name) and n.id == x and id(n) not in ok for n in walk_no_nested(self.node, include_lambdas=True)):
                continue
            if sum(1 for n in walk_no_nested(self.node) if isinstance(n, ast.Assign) and any(
                    isinstance(t_, ast.Name) and t_.id == x for t_ in n.targets)) != 1:
                continue
            wr = {id(w): w for w in writes}

            def rec(body):
                out = []
                for st in body:
                    if id(st) in wr:
                        out.append(self.emit(x, False, st.value.args[0], st))
                        continue
                    if not isinstance(st, (ast.FunctionDef, ast.AsyncFunctionDef, ast.ClassDef)):
                        for fld in ('body', 'orelse', 'finalbody'):
                            b = getattr(st, fld, None)
                            if isinstance(b, list) and b and isinstance(b[0], ast.stmt):
                                setattr(st, fld, rec(b))
                    out.append(st)
                return out
            st0.value = ast.Constant(value='')       # StringIO(<initial>) is not accepted: writes would overwrite it
            self.node.body = rec(self.node.body)
            rd = {id(r) for r in reads}

            class T(ast.NodeTransformer):
                def visit_Call(self, n):
                    if id(n) in rd:
                        return ast.copy_location(_name(x), n)
                    return self.generic_visit(n)
            T().visit(self.node)
            self.touched = True

    # ------------------------------------------------------------------ loops over locally defined iterables
    def _single_def(self, name: str) -> bool:
        return sum(1 for n in ast.walk(self.node) if isinstance(n, ast.Name) and n.id == name and isinstance(n.ctx, ast.Store)) == 1

    def distribute_loops(self, stmts: List[ast.stmt]) -> List[ast.stmt]:
        """if c: ..; xs = A  else: ..; xs = B  followed by  for v in xs: BODY   ->   the loop is moved to the end of both
        branches (over A / B), and tests of the very same single-assignment name c inside BODY are folded there"""
        for st in stmts:
            if isinstance(st, (ast.FunctionDef, ast.AsyncFunctionDef, ast.ClassDef)):
                continue
            for fld in ('body', 'orelse', 'finalbody'):
                b = getattr(st, fld, None)
                if isinstance(b, list) and b and isinstance(b[0], ast.stmt):
                    setattr(st, fld, self.distribute_loops(b))
        for i in range(len(stmts) - 1):
            iff, loop = stmts[i], stmts[i + 1]
            if not (isinstance(iff, ast.If) and iff.orelse and isinstance(loop, ast.For) and not loop.orelse and
                    isinstance(loop.iter, ast.Name)):
                continue
            xs = loop.iter.id
            ends = [iff.body[-1], iff.orelse[-1]]
            if not all(isinstance(e, ast.Assign) and len(e.targets) == 1 and isinstance(e.targets[0], ast.Name) and
                       e.targets[0].id == xs for e in ends):
                continue
            uses = [n for n in ast.walk(self.node) if isinstance(n, ast.Name) and n.id == xs]
            if len(uses) != 3:
                continue
            def fold(body, name, truth):
                out = []
                for b_ in copy.deepcopy(body):
                    out.append(b_)
                for parent in [x for b_ in out for x in ast.walk(b_)]:
                    for fld in ('body', 'orelse'):
                        bl = getattr(parent, fld, None)
                        if isinstance(bl, list) and bl and isinstance(bl[0], ast.stmt):
                            nb = []
                            for y in bl:
                                if isinstance(y, ast.If) and isinstance(y.test, ast.Name) and y.test.id == name:
                                    nb.extend(y.body if truth else y.orelse)
                                else:
                                    nb.append(y)
                            setattr(parent, fld, nb or [ast.copy_location(ast.Pass(), parent)])
                top = []
                for y in out:
                    if isinstance(y, ast.If) and isinstance(y.test, ast.Name) and y.test.id == name:
                        top.extend(y.body if truth else y.orelse)
                    else:
                        top.append(y)
                return top or [ast.copy_location(ast.Pass(), loop)]
            cname = iff.test.id if isinstance(iff.test, ast.Name) and self._single_def(iff.test.id) else None
            new_if = ast.copy_location(ast.If(test=iff.test, body=list(iff.body[:-1]), orelse=list(iff.orelse[:-1])), iff)
            for branch, end, truth in ((new_if.body, ends[0], True), (new_if.orelse, ends[1], False)):
                body = fold(loop.body, cname, truth) if cname else copy.deepcopy(loop.body)
                branch.append(ast.copy_location(ast.For(target=copy.deepcopy(loop.target), iter=end.value, body=body, orelse=[]), loop))
            self.changed = True
            return self.distribute_loops(stmts[:i] + [new_if] + stmts[i + 2:])
        return stmts

    def unroll_literal_loops(self, stmts: List[ast.stmt]) -> List[ast.stmt]:
        """for a, b in [(x, y)]: BODY -> a = x; b = y; BODY      (one element, no break/continue in BODY)
        for a, b in ps: BODY  with  ps = [(E1, E2) for v in X]  -> for v' in X: a = E1'; b = E2'; BODY"""
        out = []
        for st in stmts:
            if not isinstance(st, (ast.FunctionDef, ast.AsyncFunctionDef, ast.ClassDef)):
                for fld in ('body', 'orelse', 'finalbody'):
                    b = getattr(st, fld, None)
                    if isinstance(b, list) and b and isinstance(b[0], ast.stmt):
                        setattr(st, fld, self.unroll_literal_loops(b))
            if isinstance(st, ast.For) and not st.orelse and isinstance(st.target, ast.Tuple) and \
                    all(isinstance(e, ast.Name) for e in st.target.elts):
                n = len(st.target.elts)
                it = st.iter
                if isinstance(it, (ast.List, ast.Tuple)) and len(it.elts) == 1 and isinstance(it.elts[0], ast.Tuple) and \
                        len(it.elts[0].elts) == n and not any(isinstance(x, (ast.Break, ast.Continue)) for b_ in st.body for x in ast.walk(b_)):
                    out += [ast.copy_location(ast.Assign(targets=[_name(t_.id, True)], value=v_), st)
                            for t_, v_ in zip(st.target.elts, it.elts[0].elts)] + st.body
                    self.changed = True
                    continue
                if isinstance(it, ast.Name) and self._single_def(it.id):
                    d = next((x for x in ast.walk(self.node) if isinstance(x, ast.Assign) and len(x.targets) == 1 and
                              isinstance(x.targets[0], ast.Name) and x.targets[0].id == it.id), None)
                    comp = d.value if d is not None else None
                    if isinstance(comp, ast.ListComp) and len(comp.generators) == 1 and \
                            isinstance(comp.generators[0].target, ast.Name) and isinstance(comp.elt, ast.Tuple) and len(comp.elt.elts) == n:
                        g = comp.generators[0]
                        v2 = self.fresh(g.target.id)
                        elts = []
                        for e in comp.elt.elts:
                            e = copy.deepcopy(e)
                            for x in ast.walk(e):
                                if isinstance(x, ast.Name) and x.id == g.target.id:
                                    x.id = v2
                            elts.append(e)
                        body = [ast.copy_location(ast.Assign(targets=[_name(t_.id, True)], value=e), st)
                                for t_, e in zip(st.target.elts, elts)] + st.body
                        for c_ in reversed(g.ifs):
                            c_ = copy.deepcopy(c_)
                            for x in ast.walk(c_):
                                if isinstance(x, ast.Name) and x.id == g.target.id:
                                    x.id = v2
                            body = [ast.copy_location(ast.If(test=c_, body=body, orelse=[]), st)]
                        out.append(ast.copy_location(ast.For(target=_name(v2, True), iter=copy.deepcopy(g.iter), body=body, orelse=[]), st))
                        self.changed = True
                        continue
            out.append(st)
        return out

    def run(self) -> Func:
        self.buffers_to_text()
        self.alias_locals()
        self.changed = False
        self.node.body = self.unroll_literal_loops(self.distribute_loops(self.node.body))
        if self.changed:
            self.node.body = self.unroll_literal_loops(self.node.body)
            self.touched = True
            ast.fix_missing_locations(self.node)
        self.return_expression()
        for _ in range(10):
            self.changed = False
            self.node.body = self.fuse_block(self.node.body)
            self.lists_to_text()
            names = self.text_names()
            self.node.body = self.block(self.node.body, names)
            if not self.changed:
                break
            self.touched = True
        if not self.touched:
            return self.f0
        ast.fix_missing_locations(self.node)
        import dataclasses
        fn = dataclasses.replace(self.f0, node=self.node)
        fn._c19_keyed = self.keyed
        return fn

    # ------------------------------------------------------------------ producer list + one consumer loop -> fused
    def fuse_block(self, stmts: List[ast.stmt]) -> List[ast.stmt]:
        """xs = [a] / xs = []; xs.append(b) ...; for x in xs: BODY   ->   x = a; BODY / x = b; BODY   (BODY only emits text)

        valid when xs is used by nothing else, is (re)created exactly once on every path to the consumer loop before anything
        is appended, and BODY consists of `acc += ..` / plain local assignments, so running it at the producer sites keeps
        the order of the emitted text"""
        for st in stmts:
            if isinstance(st, (ast.FunctionDef, ast.AsyncFunctionDef, ast.ClassDef)):
                continue
            for fld in ('body', 'orelse', 'finalbody'):
                b = getattr(st, fld, None)
                if isinstance(b, list) and b and isinstance(b[0], ast.stmt):
                    setattr(st, fld, self.fuse_block(b))
        for i, c in enumerate(stmts):
            if not (isinstance(c, ast.For) and not c.orelse and isinstance(c.iter, ast.Name) and isinstance(c.target, ast.Name)) or \
                    id(c) in self.dead:
                continue
            new = self.fuse(stmts[:i], c)
            if new is None:
                self.dead.add(id(c))
                continue
            self.changed = True
            return self.fuse_block(new + stmts[i + 1:])
        return stmts

    def fuse(self, before: List[ast.stmt], c: ast.For) -> Optional[List[ast.stmt]]:
        xs, x = c.iter.id, c.target.id
        for b in c.body:
            if not ((isinstance(b, ast.AugAssign) and isinstance(b.target, ast.Name)) or
                    (isinstance(b, ast.Assign) and len(b.targets) == 1 and isinstance(b.targets[0], ast.Name))):
                return None
            tgt = b.target.id if isinstance(b, ast.AugAssign) else b.targets[0].id
            if tgt in (xs, x):
                return None
        if any(isinstance(n, ast.Name) and n.id == xs for b in c.body for n in ast.walk(b)):
            return None
        inits, apps, ok = {}, {}, {id(c.iter)}
        for st in before:
            for n in walk_no_nested(st):
                if isinstance(n, ast.Assign) and len(n.targets) == 1 and isinstance(n.targets[0], ast.Name) and n.targets[0].id == xs:
                    v = n.value
                    if match("list()", v):
                        v = ast.List(elts=[], ctx=ast.Load())
                    if not isinstance(v, ast.List) or any(isinstance(e, ast.Starred) for e in v.elts):
                        return None
                    inits[id(n)] = list(v.elts)
                    ok.add(id(n.targets[0]))
                elif isinstance(n, ast.Expr) and isinstance(n.value, ast.Call) and match(f"{xs}.append($v)", n.value):
                    apps[id(n)] = n.value.args[0]
                    ok.add(id(n.value.func.value))
        if not inits:
            return None
        if any(isinstance(n, ast.Name) and n.id == xs and id(n) not in ok for n in walk_no_nested(self.node, include_lambdas=True)):
            return None
        # x must not be needed after the loop / by the producers
        if any(isinstance(n, ast.Name) and n.id == x and not any(n is y for b in c.body for y in ast.walk(b)) and n is not c.target
               for n in walk_no_nested(self.node, include_lambdas=True)):
            return None
        # the list is created outside inner loops of `before`, exactly once on every path, before anything is appended
        chains = loop_chains(ast.Module(body=before, type_ignores=[]))
        if any(chains.get(k) for k in inits):
            return None
        atoms = {k: 'init' for k in inits}
        atoms.update({k: 'app' for k in apps})
        try:
            ps = paths(before, atoms)
        except TooManyPaths:
            return None
        for p_ in ps:
            if p_.exit == 'raise':
                continue
            if p_.exit != 'fall':
                return None
            ev = [l for l, _ in p_.events]
            if ev.count('init') != 1 or ev[0] != 'init' or 'opaque' in ev:
                return None

        def body_for(e, at):
            return [ast.copy_location(ast.Assign(targets=[_name(x, True)], value=e), at)] + copy.deepcopy(c.body)

        def rec(body):
            out = []
            for st in body:
                if id(st) in inits:
                    new = [y for e in inits[id(st)] for y in body_for(e, st)]
                    out.extend(new or [ast.copy_location(ast.Pass(), st)])
                    continue
                if id(st) in apps:
                    out.extend(body_for(apps[id(st)], st))
                    continue
                if not isinstance(st, (ast.FunctionDef, ast.AsyncFunctionDef, ast.ClassDef)):
                    for fld in ('body', 'orelse', 'finalbody'):
                        b = getattr(st, fld, None)
                        if isinstance(b, list) and b and isinstance(b[0], ast.stmt):
                            setattr(st, fld, rec(b))
                out.append(st)
            return out
        return rec(before)

    def return_expression(self):
        rets = [n for n in walk_no_nested(self.node) if isinstance(n, ast.Return)]
        if len(rets) != 1 or self.node.body[-1] is not rets[0] or rets[0].value is None or isinstance(rets[0].value, ast.Name):
            return
        r = rets[0]
        self.node.body[-1:] = [self.emit('_text', True, r.value, r), ast.copy_location(ast.Return(value=_name('_text')), r)]
        self.touched = True

    def block(self, stmts: List[ast.stmt], names: set) -> List[ast.stmt]:
        out: List[ast.stmt] = []
        for st in stmts:
            if isinstance(st, (ast.FunctionDef, ast.AsyncFunctionDef, ast.ClassDef)):
                out.append(st)
                continue
            for fld in ('body', 'orelse', 'finalbody'):
                b = getattr(st, fld, None)
                if isinstance(b, list) and b and isinstance(b[0], ast.stmt):
                    setattr(st, fld, self.block(b, names))
            for h in getattr(st, 'handlers', []) or []:
                h.body = self.block(h.body, names)
            e = self.emission(st)
            new = self.rewrite(st, *e) if e and e[0] in names else None
            if new is None:
                out.append(st)
            else:
                out.extend(new)
                self.changed = True
        return out

    def rewrite(self, st, a: str, init: bool, v: ast.AST) -> Optional[List[ast.stmt]]:
        ps = _concat(v)
        if not any(self.complex_piece(p) for p in ps):
            return None
        if len(ps) > 1:
            return [self.emit(a, init and i == 0, p, st) for i, p in enumerate(ps)]
        p = ps[0]
        j = _join_of(p)
        sep, arg = j if j else (None, p)
        if j and isinstance(arg, ast.Call) and isinstance(arg.func, ast.Name) and arg.func.id == 'map':
            x = self.fresh('x')
            arg = ast.GeneratorExp(elt=ast.Call(func=arg.args[0], args=[_name(x)], keywords=[]),
                                   generators=[ast.comprehension(target=_name(x, True), iter=arg.args[1], ifs=[], is_async=0)])
        if j and isinstance(arg, (ast.ListComp, ast.GeneratorExp)):
            body = self.comp_loops(arg, lambda elt: self.emit(a, False, _with_sep(elt, sep), st), st)
            if sep and not _ends_line(arg.elt):
                body.append(self.emit(a, False, _marker(sep), st))
            return ([self.emit(a, True, ast.Constant(value=''), st)] if init else []) + body
        if j and isinstance(arg, ast.Call):
            g = helper_of(self.ctx, self.f0, arg)
            if g is not None and g != self.f0 and isinstance(g.node, ast.FunctionDef) and \
                    any(isinstance(n, (ast.Yield, ast.YieldFrom)) for n in walk_no_nested(g.node)):
                blk = self.splice_generator(g, arg, st, a, sep)
                if blk is None:
                    self.dead.add(id(p))
                    return None
                return ([self.emit(a, True, ast.Constant(value=''), st)] if init else []) + blk
        h = self.spliceable(arg)
        if h is not None:
            def leaf(val):
                if j:
                    val = ast.Call(func=ast.Attribute(value=ast.Constant(value=sep), attr='join', ctx=ast.Load()), args=[val], keywords=[])
                return self.emit(a, False, val, st)
            blk = self.splice(h, arg, st, leaf)
            if blk is None:
                self.dead.add(id(p))
                return None
            return ([self.emit(a, True, ast.Constant(value=''), st)] if init else []) + blk[0]
        self.dead.add(id(p))
        return None

    def splice_generator(self, g: Func, call: ast.Call, at, a: str, sep: str) -> Optional[List[ast.stmt]]:
        """`a += sep.join(self.g(..))`, g a generator: the statements of g with `yield V` -> `a += V`, `yield from E` ->
        `a += sep.join(E)`, and a bare `return` ending the spliced block (the normaliser's guard-return restructuring)"""
        from sa import normalize
        if not self.checks_gen(g):
            return None
        sub = _bind(g, call)
        if sub is None:
            return None
        node = copy.deepcopy(g.node)
        ok = [True]

        class T(ast.NodeTransformer):
            def visit_FunctionDef(self, n):
                return self.generic_visit(n) if n is node else n

            def visit_Expr(self, st_):
                v = st_.value
                if isinstance(v, ast.Yield) and v.value is not None:
                    return ast.copy_location(ast.Expr(value=ast.Call(func=_name('_emit_'), args=[v.value], keywords=[])), st_)
                if isinstance(v, ast.YieldFrom):
                    return ast.copy_location(ast.Expr(value=ast.Call(func=_name('_emit_from_'), args=[v.value], keywords=[])), st_)
                return st_
        T().visit(node)
        if any(isinstance(n, (ast.Yield, ast.YieldFrom)) for n in ast.walk(node)) or \
                any(isinstance(n, ast.Return) and n.value is not None and not (isinstance(n.value, ast.Constant) and n.value.value is None)
                    for n in ast.walk(node)):
            return None                          # a yield used as an expression / a generator return value
        for n in ast.walk(node):
            if isinstance(n, ast.Return):
                n.value = None
        ast.fix_missing_locations(node)
        if self._nz is None:
            self._nz = normalize.Normalizer({})
            self._nz.counter = 900
        fd = normalize.FD(g.qual, node, g.module.name, g.cls, 'static')
        try:
            blk = self._nz.block_of(fd, sub, None, at)
        except Exception:
            return None
        if not blk:
            return None
        me = self

        def rec(body):
            out = []
            for st_ in body:
                if isinstance(st_, ast.Expr) and isinstance(st_.value, ast.Call) and isinstance(st_.value.func, ast.Name) and \
                        st_.value.func.id in ('_emit_', '_emit_from_'):
                    v = st_.value.args[0]
                    if st_.value.func.id == '_emit_from_':
                        v = ast.Call(func=ast.Attribute(value=ast.Constant(value=sep), attr='join', ctx=ast.Load()), args=[v], keywords=[])
                    out.append(me.emit(a, False, _with_sep(v, sep), at))
                    continue
                for fld in ('body', 'orelse'):
                    b_ = getattr(st_, fld, None)
                    if isinstance(b_, list) and b_ and isinstance(b_[0], ast.stmt):
                        setattr(st_, fld, rec(b_))
                out.append(st_)
            return out
        new = rec(blk)
        if sep:
            new.append(self.emit(a, False, _marker(sep), at))
        return new

    def checks_gen(self, g: Func) -> bool:
        if any(isinstance(n, (ast.Try, ast.With, ast.Lambda, ast.Global, ast.Nonlocal)) or
               (isinstance(n, ast.FunctionDef) and n is not g.node) for n in ast.walk(g.node)):
            return False
        if any(isinstance(n, ast.Call) and helper_of(self.ctx, g, n) == g for n in ast.walk(g.node)):
            return False
        return True

    def comp_loops(self, comp, leaf, at) -> List[ast.stmt]:
        """`[E for x in X if c for y in Y]` as nested loops around leaf(E); the comprehension's variables get fresh names"""
        ren = {}
        for g in comp.generators:
            for x in ast.walk(g.target):
                if isinstance(x, ast.Name):
                    ren[x.id] = self.fresh(x.id)
        comp = copy.deepcopy(comp)
        for x in ast.walk(comp):
            if isinstance(x, ast.Name) and x.id in ren:
                x.id = ren[x.id]
        body: List[ast.stmt] = [leaf(comp.elt)]
        for g in reversed(comp.generators):
            for c in reversed(g.ifs):
                body = [ast.copy_location(ast.If(test=c, body=body, orelse=[]), at)]
            body = [ast.copy_location(ast.For(target=g.target, iter=g.iter, body=body, orelse=[]), at)]
        return body

    # ------------------------------------------------------------------ list-of-entries builders (DHTMLX payload)
    def run_lists(self) -> Func:
        """x = [E for ..] / x.extend(E for ..) -> loops with x.append(E);  x.append(self.h(..)) -> statements of h, x.append(<value>)"""
        self.hoist_payload_lists()
        for _ in range(6):
            self.changed = False
            lists = {n.id for d in ast.walk(self.node) if isinstance(d, ast.Dict) for n in d.values if isinstance(n, ast.Name)} | \
                    {k.value.id for d in ast.walk(self.node) if isinstance(d, ast.Call) and isinstance(d.func, ast.Name) and
                     d.func.id == 'dict' for k in d.keywords if isinstance(k.value, ast.Name)}
            self.node.body = self.list_block(self.node.body, lists)
            if not self.changed:
                break
            self.touched = True
        if not self.touched:
            return self.f0
        ast.fix_missing_locations(self.node)
        import dataclasses
        return dataclasses.replace(self.f0, node=self.node)

    def hoist_payload_lists(self):
        """{'links': self.h(..)} in a top-level statement, h a list builder (one trailing return): the statements of h are put
        before that statement and the call is replaced by h's list"""
        body = self.node.body
        i = 0
        while i < len(body):
            st = body[i]
            done = False
            for d in ast.walk(st) if isinstance(st, (ast.Return, ast.Assign, ast.Expr)) else []:
                vals_ = d.values if isinstance(d, ast.Dict) else [k.value for k in d.keywords] if (
                    isinstance(d, ast.Call) and isinstance(d.func, ast.Name) and d.func.id == 'dict') else []
                for v in vals_:
                    if id(v) in self.dead or not isinstance(v, ast.Call):
                        continue
                    h = self.spliceable(v)
                    blk = self.splice(h, v, st) if h is not None else None
                    if blk is None or not isinstance(blk[1], ast.Name):
                        self.dead.add(id(v))
                        continue
                    val = blk[1]

                    class T(ast.NodeTransformer):
                        def visit_Call(self, n):
                            return ast.copy_location(val, n) if n is v else self.generic_visit(n)
                    T().visit(st)
                    body[i:i] = blk[0]
                    i += len(blk[0])
                    self.touched = done = True
                    break
                if done:
                    break
            if not done:
                i += 1

    def list_block(self, stmts: List[ast.stmt], lists: set) -> List[ast.stmt]:
        out: List[ast.stmt] = []

        def append_to(x, at):
            return lambda elt: ast.copy_location(ast.Expr(value=ast.Call(
                func=ast.Attribute(value=_name(x), attr='append', ctx=ast.Load()), args=[elt], keywords=[])), at)
        for st in stmts:
            if isinstance(st, (ast.FunctionDef, ast.AsyncFunctionDef, ast.ClassDef)):
                out.append(st)
                continue
            for fld in ('body', 'orelse', 'finalbody'):
                b = getattr(st, fld, None)
                if isinstance(b, list) and b and isinstance(b[0], ast.stmt):
                    setattr(st, fld, self.list_block(b, lists))
            new = None
            if isinstance(st, ast.Assign) and len(st.targets) == 1 and isinstance(st.targets[0], ast.Name) and \
                    st.targets[0].id in lists and isinstance(st.value, ast.ListComp):
                x = st.targets[0].id
                new = [self.emit(x, True, ast.List(elts=[], ctx=ast.Load()), st)] + self.comp_loops(st.value, append_to(x, st), st)
            elif isinstance(st, ast.Expr) and isinstance(st.value, ast.Call) and isinstance(st.value.func, ast.Attribute) and \
                    isinstance(st.value.func.value, ast.Name) and st.value.func.value.id in lists and len(st.value.args) == 1 and \
                    not st.value.keywords:
                x, a = st.value.func.value.id, st.value.args[0]
                if st.value.func.attr == 'extend' and isinstance(a, (ast.ListComp, ast.GeneratorExp)):
                    new = self.comp_loops(a, append_to(x, st), st)
                elif st.value.func.attr == 'append' and id(a) not in self.dead:
                    h = self.spliceable(a)
                    if h is not None:
                        blk = self.splice(h, a, st)
                        if blk is None:
                            self.dead.add(id(a))
                        else:
                            new = blk[0] + [append_to(x, st)(blk[1])]
            if new is None and isinstance(st, ast.Expr) and isinstance(st.value, ast.Call) and isinstance(st.value.func, ast.Attribute) and \
                    isinstance(st.value.func.value, ast.Name) and st.value.func.attr == 'update' and len(st.value.args) == 1 and \
                    not st.value.keywords and id(st.value.args[0]) not in self.dead:
                a = st.value.args[0]                      # entry.update(self.h(..)): the statements of h, entry.update(<its value>)
                h = self.spliceable(a)
                if h is not None:
                    blk = self.splice(h, a, st)
                    if blk is None:
                        self.dead.add(id(a))
                    else:
                        new = blk[0] + [ast.copy_location(ast.Expr(value=ast.Call(func=st.value.func, args=[blk[1]], keywords=[])), st)]
            if new is None:
                out.append(st)
            else:
                out.extend(new)
                self.changed = True
        return out

    def splice(self, h: Func, call: ast.Call, at, leaf=None) -> Optional[Tuple[List[ast.stmt], ast.AST]]:
        """statements of h bound to the call.  Without `leaf`: (statements, value expression) for a helper with one trailing
        return.  With `leaf`: every `return V` of h becomes the statement leaf(V) (the normaliser's block form makes each
        return the last statement of its path), result (statements, None)"""
        from sa import normalize
        sub = _bind(h, call)
        if sub is None:
            return None
        if self._nz is None:
            self._nz = normalize.Normalizer({})
            self._nz.counter = 900
        fd = normalize.FD(h.qual, h.node, h.module.name, h.cls, 'static')      # receiver already bound by _bind
        tmp = self.fresh('_part')
        try:
            blk = self._nz.block_of(fd, sub, tmp, at)
        except Exception:
            return None
        if not blk:
            return None
        if leaf is not None:
            def is_res(st_):
                return isinstance(st_, ast.Assign) and len(st_.targets) == 1 and isinstance(st_.targets[0], ast.Name) and \
                    st_.targets[0].id == tmp

            def rec(body):
                out = []
                for k_, st_ in enumerate(body):
                    if is_res(st_):
                        if k_ != len(body) - 1:
                            raise ValueError('result assignment is not the last statement of its block')
                        out.append(leaf(st_.value))
                        continue
                    if isinstance(st_, (ast.For, ast.While)) and any(is_res(x) for x in ast.walk(st_)):
                        raise ValueError('return inside a loop')
                    for fld in ('body', 'orelse'):
                        b_ = getattr(st_, fld, None)
                        if isinstance(b_, list) and b_ and isinstance(b_[0], ast.stmt):
                            setattr(st_, fld, rec(b_))
                    out.append(st_)
                return out
            try:
                new_blk = rec(blk)
            except ValueError:
                return None
            if any(isinstance(n, ast.Name) and n.id == tmp for s_ in new_blk for n in ast.walk(s_)):
                return None
            return new_blk, None
        last = blk[-1]
        if not (isinstance(last, ast.Assign) and len(last.targets) == 1 and isinstance(last.targets[0], ast.Name) and
                last.targets[0].id == tmp):
            return None
        if any(isinstance(n, ast.Name) and n.id == tmp for s_ in blk[:-1] for n in ast.walk(s_)):
            return None
        return blk[:-1], last.value

    # ------------------------------------------------------------------ list accumulators joined into the text
    def lists_to_text(self):
        names = self.text_names()
        for st in list(walk_no_nested(self.node)):
            e = self.emission(st)
            if not e or e[0] not in names:
                continue
            for p in _concat(e[2]):
                j = _join_of(p)
                if j and isinstance(j[1], ast.Name) and id(p) not in self.dead:
                    if self.list_to_text(j[1].id, j[0], p):
                        self.changed = True
                    else:
                        self.dead.add(id(p))
                elif j and id(p) not in self.dead and isinstance(j[1], ast.Call) and not j[1].args and not j[1].keywords and \
                        isinstance(j[1].func, ast.Attribute) and j[1].func.attr == 'values' and isinstance(j[1].func.value, ast.Name):
                    if self.dict_to_text(j[1].func.value.id, j[0], p):
                        self.changed = True
                    else:
                        self.dead.add(id(p))

    def dict_to_text(self, x: str, sep: str, use: ast.Call) -> bool:
        """lines collected as `x[key] = line` in a dict created empty and read by this one `sep.join(x.values())`: written as
        `x += line`; the key of every line is kept in self.keyed - the rule has to show that the key does not merge lines"""
        plan: Dict[int, List[ast.stmt]] = {}
        ok_names = {id(use.args[0].func.value)}
        inits, elems = 0, []
        for st in walk_no_nested(self.node):
            if not (isinstance(st, ast.Assign) and len(st.targets) == 1):
                continue
            tg = st.targets[0]
            if isinstance(tg, ast.Name) and tg.id == x:
                if not (match("{}", st.value) or match("dict()", st.value)):
                    return False
                inits += 1
                plan[id(st)] = [self.emit(x, True, ast.Constant(value=''), st)]
                ok_names.add(id(tg))
            elif isinstance(tg, ast.Subscript) and isinstance(tg.value, ast.Name) and tg.value.id == x:
                new = self.emit(x, False, _with_sep(st.value, sep), st)
                self.keyed[id(new)] = tg.slice
                elems.append(st.value)
                plan[id(st)] = [new]
                ok_names.add(id(tg.value))
        if inits != 1 or not elems:
            return False
        if any(isinstance(n, ast.Name) and n.id == x and id(n) not in ok_names for n in walk_no_nested(self.node, include_lambdas=True)):
            return False

        def rec(body):
            out = []
            for st in body:
                if id(st) in plan:
                    out.extend(plan[id(st)])
                    continue
                if not isinstance(st, (ast.FunctionDef, ast.AsyncFunctionDef, ast.ClassDef)):
                    for fld in ('body', 'orelse', 'finalbody'):
                        b = getattr(st, fld, None)
                        if isinstance(b, list) and b and isinstance(b[0], ast.stmt):
                            setattr(st, fld, rec(b))
                out.append(st)
            return out
        self.node.body = rec(self.node.body)
        marked = bool(sep) and not all(_ends_line(el) for el in elems)

        class T(ast.NodeTransformer):
            def visit_Call(self, n):
                if n is use:
                    if marked:
                        return ast.copy_location(ast.BinOp(left=_name(x), op=ast.Add(), right=_marker(sep)), n)
                    return ast.copy_location(_name(x), n)
                return self.generic_visit(n)
        T().visit(self.node)
        return True

    def list_to_text(self, x: str, sep: str, use: ast.Call) -> bool:
        """`x` is created once as a list display, only appended to / extended, and read by this one join"""
        plan: Dict[int, List[ast.stmt]] = {}
        ok_names = {id(use.args[0])}
        inits = 0
        elems: List[ast.AST] = []
        for st in walk_no_nested(self.node):
            if isinstance(st, (ast.Assign, ast.AnnAssign)):
                tg = st.targets[0] if isinstance(st, ast.Assign) and len(st.targets) == 1 else getattr(st, 'target', None)
                if isinstance(tg, ast.Name) and tg.id == x and st.value is not None:
                    v = st.value
                    if match("list()", v):
                        v = ast.List(elts=[], ctx=ast.Load())
                    if not isinstance(v, ast.List) or any(isinstance(el, ast.Starred) for el in v.elts):
                        return False
                    inits += 1
                    txt: ast.AST = ast.Constant(value='')
                    for el in v.elts:
                        elems.append(el)
                        piece = _with_sep(el, sep)
                        txt = piece if (isinstance(txt, ast.Constant) and txt.value == '') else ast.BinOp(left=txt, op=ast.Add(), right=piece)
                    plan[id(st)] = [self.emit(x, True, txt, st)]
                    ok_names.add(id(tg))
            elif isinstance(st, ast.Expr) and isinstance(st.value, ast.Call) and isinstance(st.value.func, ast.Attribute) and \
                    isinstance(st.value.func.value, ast.Name) and st.value.func.value.id == x:
                c = st.value
                if c.func.attr == 'append' and len(c.args) == 1 and not c.keywords:
                    elems.append(c.args[0])
                    plan[id(st)] = [self.emit(x, False, _with_sep(c.args[0], sep), st)]
                elif c.func.attr == 'extend' and len(c.args) == 1 and not c.keywords:
                    elems.append(getattr(c.args[0], 'elt', c.args[0]))
                    new = self.extend_text(x, sep, c.args[0], st)
                    if new is None:
                        return False
                    plan[id(st)] = new
                else:
                    return False
                ok_names.add(id(c.func.value))
            elif isinstance(st, ast.AugAssign) and isinstance(st.target, ast.Name) and st.target.id == x:
                if not isinstance(st.op, ast.Add):
                    return False
                elems.append(getattr(st.value, 'elt', st.value))
                new = self.extend_text(x, sep, st.value, st)
                if new is None:
                    return False
                plan[id(st)] = new
                ok_names.add(id(st.target))
        if inits != 1:
            return False
        if any(isinstance(n, ast.Name) and n.id == x and id(n) not in ok_names for n in walk_no_nested(self.node, include_lambdas=True)):
            return False

        def rec(body):
            out = []
            for st in body:
                if id(st) in plan:
                    out.extend(plan[id(st)])
                    continue
                if not isinstance(st, (ast.FunctionDef, ast.AsyncFunctionDef, ast.ClassDef)):
                    for fld in ('body', 'orelse', 'finalbody'):
                        b = getattr(st, fld, None)
                        if isinstance(b, list) and b and isinstance(b[0], ast.stmt):
                            setattr(st, fld, rec(b))
                    for h in getattr(st, 'handlers', []) or []:
                        h.body = rec(h.body)
                out.append(st)
            return out
        self.node.body = rec(self.node.body)

        marked = bool(sep) and not all(_ends_line(el) for el in elems)

        class T(ast.NodeTransformer):
            def visit_Call(self, n):
                if n is use:
                    if marked:
                        return ast.copy_location(ast.BinOp(left=_name(x), op=ast.Add(), right=_marker(sep)), n)
                    return ast.copy_location(_name(x), n)
                return self.generic_visit(n)
        T().visit(self.node)
        return True

    def extend_text(self, x: str, sep: str, v: ast.AST, at) -> Optional[List[ast.stmt]]:
        if isinstance(v, (ast.List, ast.Tuple)) and not any(isinstance(el, ast.Starred) for el in v.elts):
            return [self.emit(x, False, _with_sep(el, sep), at) for el in v.elts] or [ast.copy_location(ast.Pass(), at)]
        if isinstance(v, (ast.ListComp, ast.GeneratorExp)):
            el = copy.deepcopy(v)
            el.elt = _with_sep(el.elt, sep)
            j = ast.Call(func=ast.Attribute(value=ast.Constant(value=''), attr='join', ctx=ast.Load()), args=[el], keywords=[])
            return [self.emit(x, False, j, at)]
        return None


def canonical(ctx, f: Func, lists: bool = False) -> Func:
    cache = ctx.__dict__.setdefault('_c19_canonical', {})
    if f.qual not in cache:
        try:
            cache[f.qual] = Canon(ctx, f).run_lists() if lists else Canon(ctx, f).run()
        except RecursionError:
            cache[f.qual] = f
    return cache[f.qual]


# --------------------------------------------------------------------------------------------------------- logic
def formula(test: ast.AST, norm):
    """propositional skeleton of a test: ('and'|'or', [..]) | ('not', x) | ('atom', key, polarity)"""
    if isinstance(test, ast.UnaryOp) and isinstance(test.op, ast.Not):
        return ('not', formula(test.operand, norm))
    if isinstance(test, ast.BoolOp):
        return ('and' if isinstance(test.op, ast.And) else 'or', [formula(v, norm) for v in test.values])
    key, pol = norm(test)
    return ('atom', key, pol)


def atoms_of(fm, out=None) -> List[str]:
    out = out if out is not None else []
    if fm[0] == 'atom':
        if fm[1] not in out:
            out.append(fm[1])
    elif fm[0] == 'not':
        atoms_of(fm[1], out)
    else:
        for x in fm[1]:
            atoms_of(x, out)
    return out


def holds(fm, asg: Dict[str, bool]) -> bool:
    if fm[0] == 'atom':
        return asg[fm[1]] == fm[2]
    if fm[0] == 'not':
        return not holds(fm[1], asg)
    if fm[0] == 'and':
        return all(holds(x, asg) for x in fm[1])
    return any(holds(x, asg) for x in fm[1])


def assignments(keys: List[str]):
    for bits in itertools.product((True, False), repeat=len(keys)):
        yield dict(zip(keys, bits))


def emptiness(e: ast.AST):
    """`len(X) == 0`, `not X`, `X == []`, `len(X) > 0`, `X` ... -> (X, True when the test says X is empty)"""
    pol = True
    while isinstance(e, ast.UnaryOp) and isinstance(e.op, ast.Not):
        e, pol = e.operand, not pol
    for p, empty in (("len($x) == 0", True), ("0 == len($x)", True), ("len($x) < 1", True), ("len($x) <= 0", True),
                     ("1 > len($x)", True), ("0 >= len($x)", True), ("$x == []", True),
                     ("len($x) > 0", False), ("0 < len($x)", False), ("len($x) != 0", False), ("0 != len($x)", False),
                     ("len($x) >= 1", False), ("1 <= len($x)", False), ("$x != []", False), ("len($x)", False),
                     ("bool($x)", False)):
        m = match(p, e)
        if m:
            return m['x'], (empty if pol else not empty)
    return None


def strip_seq(e: ast.AST) -> ast.AST:
    """look through wrappers that keep every element exactly once: list(), tuple(), sorted(), reversed(), x[:]"""
    while True:
        if isinstance(e, ast.Call) and isinstance(e.func, ast.Name) and e.func.id in ('list', 'tuple', 'sorted', 'reversed', 'iter') \
                and len(e.args) == 1:
            e = e.args[0]
        elif isinstance(e, ast.Subscript) and isinstance(e.slice, ast.Slice) and \
                e.slice.lower is None and e.slice.upper is None and e.slice.step is None:
            e = e.value
        else:
            return e


# =====================================================================================================================
#                                                   the C19 rule
# =====================================================================================================================
from sa import facts                      # noqa: E402
from sa.pat import attr_path              # noqa: E402

GANTT = dict(key='mermaid gantt', cls='MermaidGantt', mod='viz.mermaid.gantt', body='__src')
NET = dict(key='mermaid network', cls='MermaidNetwork', mod='viz.mermaid.network', body='__src')
DHX = dict(key='dhtmlx gantt', cls='DhtmlxGantt', mod='viz.dhtmlx.gantt', body='__data')
RENDERERS = (GANTT, NET, DHX)

_PLACEHOLDER = re.compile(r'\$(?:(?P<escaped>\$)|(?P<named>[_a-z][_a-z0-9]*)|\{(?P<braced>[_a-z][_a-z0-9]*)\}|(?P<invalid>))',
                          re.IGNORECASE | re.ASCII)

# spec: what a rendered date must carry (property: "start and end formatted to the minute", "real dates")
_DATE_FIELDS = (('day', ('%d',)), ('month', ('%m',)), ('year', ('%Y', '%y')), ('hour', ('%H',)), ('minute', ('%M',)))
# spec: Mermaid (dayjs) dateFormat token <-> strftime directive
_MERMAID_TOKENS = {'YYYY': '%Y', 'YY': '%y', 'MM': '%m', 'DD': '%d', 'HH': '%H', 'hh': '%I', 'mm': '%M', 'ss': '%S'}
# dhtmlxGantt parses task dates with gantt.config.date_format, default "%d-%m-%Y %H:%i" (%i = minutes)
_DHTMLX_DEFAULT_DATE = '%d-%m-%Y %H:%M'


def qual(R, name):
    return f"{R['mod']}.{R['cls']}.{name}"


def _guard(ctx, o, fn):
    def body(o):
        try:
            fn(o)
        except Und as u:
            o.undecided(u.func, u.node, u.construct, u.msg)
        except TooManyPaths:
            o.undecided(None, None, 'paths', "too many control-flow paths to enumerate")
    ctx.guarded(o, body)


def _dedupe(o):
    """the same finding key is recorded once (two task-line emissions share one helper)"""
    from sa.report import norm_text
    for name, store in (('refute', o.refuted), ('undecided', o.unknown)):
        orig = getattr(o, name)

        def rec(func, node, construct, msg, orig=orig, store=store):
            key = f"{o.id}|{func.qual if func else '-'}|{norm_text(construct)}"
            if not any(x.key == key for x in store):
                orig(func, node, construct, msg)
        setattr(o, name, rec)


def wbs_attr(ctx, R) -> str:
    """attribute of the renderer that holds the WBS handed to the constructor"""
    init = ctx.prog.func(qual(R, '__init__'))
    a = init.node.args
    anns = {x.arg: (src(x.annotation) if x.annotation is not None else None) for x in a.args + a.kwonlyargs}
    for st, tgt, val in facts.attr_stores(init):
        if isinstance(val, ast.Name) and val.id in anns and (anns[val.id] == 'WBS' or val.id == 'wbs') and \
                isinstance(tgt.value, ast.Name) and tgt.value.id == init.self_name:
            return tgt.attr
    raise Und(init, init.node, '__init__', "the constructor does not store its WBS parameter in an attribute")


_SUBTREE = ("{r}.all_children + [{r}]", "[{r}, *{r}.all_children]", "[*{r}.all_children, {r}]", "list({r}.all_children) + [{r}]",
            "[{r}] + list({r}.all_children)")


def is_all_tasks(e: ast.AST, f: Func, wattr: str) -> bool:
    """self.wbs.tasks, possibly copied (`list(..)`, `[t for t in ..]`) or spelled as roots x (all_children + [root])"""
    e = strip_seq(e)
    if match(f"{f.self_name}.{wattr}.tasks", e):
        return True
    if isinstance(e, (ast.ListComp, ast.GeneratorExp)) and not any(g.ifs or g.is_async for g in e.generators) and \
            all(isinstance(g.target, ast.Name) for g in e.generators) and isinstance(e.elt, ast.Name) and \
            e.elt.id == e.generators[-1].target.id:
        gs = e.generators
        if len(gs) == 1:
            return is_all_tasks(gs[0].iter, f, wattr)
        if len(gs) == 2 and match(f"{f.self_name}.{wattr}.roots", strip_seq(gs[0].iter)):
            r = gs[0].target.id
            return any(match(p_.format(r=r), strip_seq(gs[1].iter)) for p_ in _SUBTREE)
    return False


def stale_snapshot(ctx, f: Func, w: str, it: ast.AST) -> Optional[str]:
    """`self.X` that only the constructor fills with `<wbs>.tasks`: the task list as it was when the chart was created"""
    it = strip_seq(it)
    if not (isinstance(it, ast.Attribute) and isinstance(it.value, ast.Name) and it.value.id == f.self_name and it.attr != w and f.cls):
        return None
    ci = ctx.prog.classes.get(f.cls)
    if ci is None:
        return None
    stores = []
    for g in list(ci.methods.values()) + list(ci.getters.values()) + list(ci.setters.values()):
        for st, tgt, val in facts.attr_stores(g, it.attr):
            if not (isinstance(tgt.value, ast.Name) and tgt.value.id == g.self_name) or val is None or not isinstance(st, (ast.Assign, ast.AnnAssign)):
                return None
            stores.append((g, st, val))
    if not stores or any(g.name != '__init__' for g, _, _ in stores):
        return None
    for g, st, val in stores:
        v = strip_seq(deep(ctx, g, val, flow_of(g).node_of_expr(val)))
        a = g.node.args
        anns = {x.arg: (src(x.annotation) if x.annotation is not None else None) for x in a.args + a.kwonlyargs}
        from_param = isinstance(v, ast.Attribute) and v.attr == 'tasks' and isinstance(v.value, ast.Name) and \
            v.value.id in anns and (anns[v.value.id] == 'WBS' or v.value.id == 'wbs')
        if not (from_param or match(f"{g.self_name}.{w}.tasks", v)):
            return None
    g, st, val = stores[0]

    def pretty(x):
        return re.sub(r'\b_' + re.escape(f.cls.lstrip('_')) + '__', '__', src(x))
    return (f"`{pretty(it)}` is the task list taken once in {g.name} (`{pretty(st)[:60]}`), not self.{w}.tasks at rendering "
            f"time: tasks added to or removed from the WBS (or a WBS assigned to self.{w}) after the chart was created are "
            f"rendered stale")


def domain_problem(ctx, f: Func, w: str, it: ast.AST) -> Optional[str]:
    """why `it` is positively NOT every task of self.<w>.tasks (None: all tasks, or not understood)"""
    it = strip_seq(it)
    snap = stale_snapshot(ctx, f, w, it)
    if snap:
        return snap
    if match(f"{f.self_name}.{w}.$a", it) and not is_all_tasks(it, f, w):
        return f"`{unmangle(src(it))[:70]}` is not every task of self.{w}.tasks"
    if isinstance(it, (ast.ListComp, ast.GeneratorExp)) and any(g.ifs for g in it.generators) and \
            (is_all_tasks(it.generators[0].iter, f, w) or match(f"{f.self_name}.{w}.$a", strip_seq(it.generators[0].iter))):
        return f"`{src(it)[:70]}` filters the tasks of self.{w}: some tasks are skipped"
    if isinstance(it, ast.Subscript) and is_all_tasks(it.value, f, w):
        return f"`{src(it)[:70]}` is a slice / element of self.{w}.tasks, not every task"
    if isinstance(it, (ast.ListComp, ast.GeneratorExp)) and len(it.generators) == 2 and isinstance(it.generators[0].target, ast.Name) and \
            match(f"{f.self_name}.{w}.roots", strip_seq(it.generators[0].iter)) and isinstance(it.elt, ast.Name) and \
            isinstance(it.generators[1].target, ast.Name) and it.elt.id == it.generators[1].target.id:
        r = it.generators[0].target.id
        inner = strip_seq(it.generators[1].iter)
        if match(f"{r}.all_children", inner):
            return f"`{src(it)[:70]}` lists the descendants of every root but not the root itself: root tasks are missing"
        if match(f"{r}.children", inner) or match(f"{r}.children + [{r}]", inner) or match(f"[{r}] + {r}.children", inner):
            return f"`{src(it)[:70]}` visits only the direct children of the roots: deeper tasks are missing"
        if match(f"[{r}]", inner):
            return f"`{src(it)[:70]}` visits only the roots"
    return None


def builder_comprehension(ctx, f: Func, call: ast.AST) -> Optional[ast.AST]:
    """`self.h(..)` where h is `xs = []; for a in A: [if c:] xs += B | xs.extend(B) | xs.append(e); return xs`, read as the
    comprehension `[y for a in A if c for y in B]` / `[e for a in A if c]` over the call's arguments"""
    if not isinstance(call, ast.Call):
        return None
    h = helper_of(ctx, f, call)
    if h is None or h == f or not isinstance(h.node, ast.FunctionDef):
        return None
    body = [st for st in h.body if not (isinstance(st, ast.Expr) and isinstance(st.value, ast.Constant))]
    if len(body) != 3 or not (isinstance(body[0], (ast.Assign, ast.AnnAssign)) and isinstance(body[1], ast.For) and
                              isinstance(body[2], ast.Return) and isinstance(body[2].value, ast.Name)):
        return None
    xs = body[2].value.id
    tg = body[0].targets[0] if isinstance(body[0], ast.Assign) and len(body[0].targets) == 1 else getattr(body[0], 'target', None)
    if not (isinstance(tg, ast.Name) and tg.id == xs and body[0].value is not None and
            (match("[]", body[0].value) or match("list()", body[0].value))):
        return None
    gens, st = [], body[1]
    while True:
        if isinstance(st, ast.For) and not st.orelse and len(st.body) == 1:
            gens.append(ast.comprehension(target=st.target, iter=st.iter, ifs=[], is_async=0))
            st = st.body[0]
        elif isinstance(st, ast.If) and not st.orelse and len(st.body) == 1 and gens:
            gens[-1].ifs.append(st.test)
            st = st.body[0]
        else:
            break
    if not gens:
        return None
    elt = None
    m = match(f"{xs}.append($e)", st.value) if isinstance(st, ast.Expr) else None
    if m:
        elt = m['e']
    else:
        more = None
        if isinstance(st, ast.Expr):
            m = match(f"{xs}.extend($b)", st.value)
            more = m['b'] if m else None
        elif isinstance(st, ast.AugAssign) and isinstance(st.op, ast.Add) and isinstance(st.target, ast.Name) and st.target.id == xs:
            more = st.value
        elif isinstance(st, ast.Assign) and len(st.targets) == 1 and isinstance(st.targets[0], ast.Name) and \
                st.targets[0].id == xs and match(f"{xs} + $b", st.value):
            more = match(f"{xs} + $b", st.value)['b']
        if more is None:
            return None
        gens.append(ast.comprehension(target=_name('_each', True), iter=more, ifs=[], is_async=0))
        elt = _name('_each')
    comp = ast.ListComp(elt=elt, generators=gens)
    if any(isinstance(n, ast.Name) and n.id == xs for n in ast.walk(comp)):
        return None
    sub = _bind(h, call)
    if sub is None:
        return None
    bound = {x.id for g in gens for x in ast.walk(g.target) if isinstance(x, ast.Name)}
    if bound & set(sub):
        return None
    return ast.fix_missing_locations(ast.copy_location(subst(comp, sub), call))


def for_iter(ctx, f: Func, loop: ast.For) -> ast.AST:
    e = deep(ctx, f, loop.iter, flow_of(f).node_of_expr(loop.iter))
    comp = builder_comprehension(ctx, f, strip_seq(e))
    return comp if comp is not None else e


# ------------------------------------------------------------------------------------------------------- templates
def template_text(ctx, f: Func, tpl_expr: ast.AST):
    """(rel path, text) of the template read by `pkg_resources.read_text('pjplan.x.templates', 'y.html')`"""
    e = deep(ctx, f, tpl_expr)
    m = match("$m.read_text($p, $n)", e) or match("read_text($p, $n)", e) or \
        match("$m.files($p).joinpath($n).read_text($*_)", e) or match("files($p).joinpath($n).read_text($*_)", e)
    if not m or const_str(m['p']) is None or const_str(m['n']) is None:
        raise Und(f, tpl_expr, tpl_expr, f"template source `{src(e)[:80]}` is not read_text('<package>', '<file>')")
    rel = 'src/' + const_str(m['p']).replace('.', '/') + '/' + const_str(m['n'])
    if rel not in ctx.prog.texts:
        return rel, None
    return rel, ctx.prog.texts[rel]


def placeholders(text: str):
    names, invalid = [], []
    for m in _PLACEHOLDER.finditer(text):
        n = m.group('named') or m.group('braced')
        if n is not None:
            names.append(n)
        elif m.group('invalid') is not None:
            invalid.append(text[m.start():m.start() + 12].split('\n')[0])
    return names, invalid


def substitute_call(ctx, R):
    """(to_html, call node, template expr, {keyword: value}) of the single Template(..).substitute(..) in to_html"""
    f = ctx.prog.func(qual(R, 'to_html'))
    calls = [c for c in walk_no_nested(f.node) if isinstance(c, ast.Call) and isinstance(c.func, ast.Attribute)
             and c.func.attr in ('substitute', 'safe_substitute')]
    if len(calls) != 1:
        raise Und(f, f.node, 'to_html', f"{len(calls)} Template.substitute calls in to_html (expected one)")
    c = calls[0]
    recv = deep(ctx, f, c.func.value, flow_of(f).node_of_expr(c))
    m = (match("Template($t)", recv) if name_origin(ctx, f, 'Template') == 'string.Template' else None) or \
        (match("string.Template($t)", recv) if name_origin(ctx, f, 'string') == 'string' else None)
    if not m:
        raise Und(f, c, c.func.value, "substitute() receiver is not Template(<text>)")
    kws = {}
    if len(c.args) > 1:
        raise Und(f, c, c, "substitute() called with several positional arguments")

    def mapping(e):
        if isinstance(e, ast.Name) and e.id in mutated_locals(f):
            raise Und(f, c, e, "substitute() mapping is modified after its creation")
        d = origin(f, e, flow_of(f).node_of_expr(c))[0]
        h = helper_of(ctx, f, d) if isinstance(d, ast.Call) else None
        if h is not None and h != f and isinstance(h.node, ast.FunctionDef):
            # the mapping is computed by a method of the class: its single trailing `return {..}` is the mapping
            rets = [r for r in walk_no_nested(h.node) if isinstance(r, ast.Return)]
            if len(rets) == 1 and h.body[-1] is rets[0] and rets[0].value is not None and \
                    not (isinstance(rets[0].value, ast.Name) and rets[0].value.id in mutated_locals(h)):
                d = origin(h, rets[0].value, flow_of(h).node_of_expr(rets[0].value))[0]
        if isinstance(d, ast.Call) and isinstance(d.func, ast.Name) and d.func.id == 'dict' and not d.args and \
                all(k.arg is not None for k in d.keywords):
            return {k.arg: k.value for k in d.keywords}
        if isinstance(d, ast.Dict) and all(k is not None and const_str(k) is not None for k in d.keys):
            return {const_str(k): v for k, v in zip(d.keys, d.values)}
        raise Und(f, c, e, "substitute() mapping is not a dict literal / dict(name=..) with constant keys")
    if c.args:
        kws.update(mapping(c.args[0]))
    for k in c.keywords:
        if k.arg is None:
            kws.update(mapping(k.value))
        else:
            kws[k.arg] = k.value
    rets = [r for r in walk_no_nested(f.node) if isinstance(r, ast.Return)]
    returned = len(rets) == 1 and rets[0].value is not None and \
        any(x is c for x in ast.walk(rets[0].value)) or \
        (len(rets) == 1 and isinstance(rets[0].value, ast.Name) and
         any(d.kind == 'assign' and d.value is c for d in flow_of(f).defs_of(rets[0].value.id)))
    return f, c, m['t'], kws, returned


def replace_filling(ctx, R):
    """to_html fills the template by successive `text = text.replace('<placeholder>', value)` steps (statements, a loop over a
    literal tuple of pairs, or a call chain): (to_html, [(placeholder expr, value expr, node)]) or None"""
    f = ctx.prog.func(qual(R, 'to_html'))
    rets = [r for r in walk_no_nested(f.node) if isinstance(r, ast.Return)]
    if len(rets) != 1 or rets[0].value is None:
        return None
    steps = []

    def chain(e):
        """peel `.replace(a, b)` calls from an expression, innermost first"""
        out = []
        while isinstance(e, ast.Call) and isinstance(e.func, ast.Attribute) and e.func.attr == 'replace' and len(e.args) == 2:
            out.append((e.args[0], e.args[1], e))
            e = e.func.value
        return e, out[::-1]
    base, st0 = chain(rets[0].value)
    if not isinstance(base, ast.Name):
        return (f, st0) if st0 and match("$m.read_text($*_)", base) else None
    x = base.id
    for st in f.body:
        if isinstance(st, ast.Assign) and len(st.targets) == 1 and isinstance(st.targets[0], ast.Name) and st.targets[0].id == x:
            b, c_ = chain(st.value)
            if isinstance(b, ast.Name) and b.id == x:
                steps += c_
        elif isinstance(st, ast.For) and isinstance(st.iter, (ast.Tuple, ast.List)) and isinstance(st.target, ast.Tuple) and \
                len(st.target.elts) == 2 and all(isinstance(e_, ast.Name) for e_ in st.target.elts) and len(st.body) == 1:
            ph, val = (e_.id for e_ in st.target.elts)
            b0 = st.body[0]
            m = isinstance(b0, ast.Assign) and len(b0.targets) == 1 and isinstance(b0.targets[0], ast.Name) and \
                b0.targets[0].id == x and match(f"{x}.replace({ph}, {val})", b0.value)
            if m and all(isinstance(e_, (ast.Tuple, ast.List)) and len(e_.elts) == 2 for e_ in st.iter.elts):
                steps += [(e_.elts[0], e_.elts[1], st) for e_ in st.iter.elts]
    steps += st0
    return (f, steps) if steps else None


def check_templates(ctx, o):
    for R in RENDERERS:
        try:
            f, c, tpl, kws, returned = substitute_call(ctx, R)
            rel, text = template_text(ctx, f, tpl)
        except Und as u:
            rf = replace_filling(ctx, R)
            if rf is not None and len(rf[1]) >= 2:
                f_, steps = rf
                early = next(((a_, v_, n_) for a_, v_, n_ in steps[:-1]
                              if any(isinstance(x_, ast.Call) and helper_of(ctx, f_, x_) is not None for x_ in ast.walk(v_))), None)
                if early is not None:
                    later = ', '.join(src(a_) for a_, _, _ in steps[steps.index(early) + 1:])
                    o.refute(f_, early[2], f"to_html: successive replace of {', '.join(src(a_) for a_, _, _ in steps)}",
                             f"the template is filled by successive str.replace steps: the text inserted for {src(early[0])} "
                             f"(`{src(early[1])[:40]}`, it contains task names / attributes) is scanned again by the replacement of "
                             f"{later}, so such text inside a name is replaced too and alters that entry (expected one "
                             f"Template.substitute call, which never re-reads inserted values)")
                    continue
            o.undecided(u.func, u.node, u.construct, u.msg)
            continue
        if text is None:
            o.refute(f, c, rel, f"template file {rel} does not exist in the package")
            continue
        names, invalid = placeholders(text)
        if invalid:
            o.refute(f, c, f"{rel}: {invalid[0]}", f"template {rel} contains a `$` that is neither `$$` nor a placeholder "
                                                    f"(`{invalid[0]}`): Template.substitute raises ValueError")
            continue
        ph, kw = set(names), set(kws)
        if ph - kw:
            o.refute(f, c, f"{rel}: ${sorted(ph - kw)[0]}", f"placeholder(s) {sorted(ph - kw)} of {rel} get no value from "
                                                            f"substitute({', '.join(sorted(kw))}): KeyError / text left unreplaced")
        if kw - ph:
            o.refute(f, c, f"{rel}: {sorted(kw - ph)[0]}=", f"substitute() keyword(s) {sorted(kw - ph)} have no placeholder in "
                                                            f"{rel}: the value never reaches the document")
        if c.func.attr != 'substitute':
            o.refute(f, c, c.func, "safe_substitute leaves unknown placeholders in the document instead of failing")
        if not returned:
            o.refute(f, c, 'return', "to_html does not return the substituted template")
        if ph == kw and c.func.attr == 'substitute' and returned:
            o.site(f, c, f"{rel}: {{{', '.join(sorted(ph))}}} == substitute keywords")
        # the analysed body function is what fills a placeholder
        body = ctx.prog.func(qual(R, R['body']))
        fed = [k for k, v in kws.items()
               if any(isinstance(x, ast.Call) and helper_of(ctx, f, x) is body
                      for x in ast.walk(Expander(ctx.prog, f, ctx.typer, inline=False).expand(v, flow_of(f).node_of_expr(c))))]
        if len(fed) == 1 and fed[0] in ph:
            o.site(f, c, f"${fed[0]} <- {R['cls']}.{R['body']}()")
            R['placeholder'], R['template'], R['template_rel'] = fed[0], text, rel
        elif not fed:
            o.refute(f, c, R['body'], f"no substitute() keyword is computed by {R['cls']}.{R['body']}: the task rendering "
                                      f"never reaches the document")
        elif len(fed) > 1:
            o.undecided(f, c, c, f"{R['body']}() feeds keywords {fed}")


# ------------------------------------------------------------------------------------------------------- escape
def _module_consts(m) -> Dict[str, ast.AST]:
    out = {}
    for st in m.tree.body:
        if isinstance(st, ast.Assign) and len(st.targets) == 1 and isinstance(st.targets[0], ast.Name):
            out[st.targets[0].id] = st.value if st.targets[0].id not in out else None
        elif isinstance(st, ast.AnnAssign) and isinstance(st.target, ast.Name) and st.value is not None:
            out[st.target.id] = st.value if st.target.id not in out else None
    return out


def foreign_const(ctx, f: Func, name: str) -> Optional[ast.AST]:
    """value of a module-level string constant that is not bound in f's own module: the name arrived with a helper of another
    package module that the normaliser inlined here; it is read from the one module that defines it"""
    own = _module_consts(f.module)
    if name in own or name in f.module.imports:
        v = own.get(name)
        if v is None and name in f.module.imports:
            org = f.module.imports[name]
            if org.startswith('pjplan.'):
                for m in ctx.prog.modules.values():
                    if org == ('pjplan.' + name if m.name == '__init__' else f'pjplan.{m.name}.{name}'):
                        v = _module_consts(m).get(name)
        return v if v is not None and const_str(v) is not None else None
    found = [c[name] for c in (_module_consts(m) for m in ctx.prog.modules.values()) if name in c]
    if len(found) == 1 and found[0] is not None and const_str(found[0]) is not None:
        return found[0]
    return None


def name_origin(ctx, f: Func, name: str) -> Optional[str]:
    """dotted origin of an imported name; for a name that f's module does not bind at all (it arrived with an inlined helper
    of another package module) the origin all importing package modules agree on"""
    if name in f.module.imports:
        return f.module.imports[name]
    if name in _module_consts(f.module) or ctx.prog.module_func(f.module.name, name) is not None:
        return None
    origins = {m.imports[name] for m in ctx.prog.modules.values() if name in m.imports}
    return origins.pop() if len(origins) == 1 else None


def check_escape(ctx, o):
    for R in RENDERERS:
        f = ctx.prog.func(qual(R, '_repr_html_'))
        to_html = ctx.prog.func(qual(R, 'to_html'))
        rets = [r for r in walk_no_nested(f.node) if isinstance(r, ast.Return)]
        if len(rets) != 1 or rets[0].value is None:
            o.undecided(f, f.node, '_repr_html_', "not a single `return <iframe text>`")
            continue
        r = rets[0]
        e = Expander(ctx.prog, f, ctx.typer, inline=False).expand(r.value)
        local = {d.var for d in flow_of(f).defs}

        class K(ast.NodeTransformer):
            def visit_Name(self, n):
                if isinstance(n.ctx, ast.Load) and n.id not in local:
                    v = foreign_const(ctx, f, n.id)
                    if v is not None:
                        return copy.deepcopy(v)
                return n
        e = K().visit(copy.deepcopy(e))
        ps = parts(e)
        text = lits(ps)
        if '<iframe' not in text or 'srcdoc=' not in text:
            o.undecided(f, r, r, "the notebook representation is not an <iframe srcdoc=..> text")
            continue
        idx = next((i for i, (k, v) in enumerate(ps) if k == 'lit' and re.search(r'srcdoc=(["\'])$', v)), None)
        if idx is None or idx + 1 >= len(ps) or ps[idx + 1][0] != 'val':
            o.undecided(f, r, r, "cannot locate the value placed into srcdoc=\"..\"")
            continue
        quote = ps[idx][1][-1]
        if not (idx + 2 < len(ps) and ps[idx + 2][0] == 'lit' and ps[idx + 2][1].startswith(quote)):
            o.undecided(f, r, r, "srcdoc attribute is not closed right after the document")
            continue
        v = ps[idx + 1][1]
        esc_ok = name_origin(ctx, f, 'escape') == 'html.escape'
        m = None
        if isinstance(v, ast.Call) and v.args and ((esc_ok and match("escape", v.func)) or
                                                   (name_origin(ctx, f, 'html') == 'html' and match("html.escape", v.func))):
            m = {'d': v.args[0]}

        def is_doc(x):
            return isinstance(x, ast.Call) and helper_of(ctx, f, x) is to_html and not x.args and not x.keywords
        if m is None:
            if is_doc(v) or any(is_doc(x) for x in ast.walk(v)):
                o.refute(f, r, v, f"srcdoc receives `{src(v)[:60]}`: the document is not passed through html.escape, a quote or "
                                  f"`&` in it ends / alters the attribute")
            else:
                o.undecided(f, r, v, "srcdoc value is neither escape(self.to_html()) nor the raw document")
            continue
        call = v
        kw = {k.arg: k.value for k in call.keywords}
        qarg = kw.get('quote', call.args[1] if len(call.args) > 1 else None)
        if qarg is not None and not (isinstance(qarg, ast.Constant) and qarg.value is True):
            o.refute(f, r, v, "escape(.., quote=False) leaves quotes unescaped inside the quoted srcdoc attribute")
            continue
        if not is_doc(m['d']):
            o.refute(f, r, v, f"escape() is applied to `{src(m['d'])[:60]}`, not to self.to_html()")
            continue
        o.site(f, r, f"srcdoc={quote}escape(self.to_html()){quote}")


# ------------------------------------------------------------------------------------------------------- counting
def _infeasible(p: Path, loop) -> bool:
    """the path requires the loop variable (an element of a task list) to be None"""
    if not (isinstance(loop, ast.For) and isinstance(loop.target, ast.Name)):
        return False
    v = loop.target.id
    for t, pol in p.conds:
        for a, ap in facts.split_conj(t, pol):
            if (match(f"{v} is None", a) and ap) or (match(f"{v} is not None", a) and not ap):
                return True
    return False


def per_iteration(o, f: Func, loop, atoms: Dict[int, str], label: str, what: str, others=()) -> bool:
    """every completed iteration of `loop` meets exactly one `label` event (and none of `others`)"""
    ok = True
    hdr = f"for {src(loop.target)} in {src(loop.iter)}" if isinstance(loop, ast.For) else 'while ..'
    for p in paths(loop.body, atoms):
        if p.exit == 'raise' or _infeasible(p, loop):
            continue
        if p.exit in ('break', 'return'):
            o.refute(f, loop, f"{hdr}: {p.exit}", f"the loop `{hdr}` is left by `{p.exit}` ({p.cond_text()}): the remaining "
                                                   f"elements get no {what}")
            ok = False
            continue
        if p.count('opaque-loop', 'opaque'):
            o.undecided(f, loop, f"{hdr}: nested", f"a {what} is produced inside a nested loop / try block of `{hdr}`")
            ok = False
            continue
        n = p.count(label)
        if n == 0:
            o.refute(f, loop, f"{hdr}: no {what}", f"an iteration of `{hdr}` produces no {what} when {p.cond_text()}: "
                                                   f"expected exactly one per element")
            ok = False
        elif n > 1:
            o.refute(f, loop, f"{hdr}: {n} x {what}", f"an iteration of `{hdr}` produces {n} {what}s ({p.cond_text()}): "
                                                      f"expected exactly one per element")
            ok = False
        for other in others:
            if p.count(other):
                o.refute(f, loop, f"{hdr}: {other}", f"an iteration of `{hdr}` also produces a {other}")
                ok = False
    return ok


def once_per_call(o, f: Func, atoms: Dict[int, str], label: str, what: str) -> bool:
    ok = True
    for p in paths(f.body, atoms):
        if p.exit == 'raise':
            continue
        if p.count('opaque-loop', 'opaque'):
            o.undecided(f, f.node, f"{f.name}: nested {label}", f"the {what} sits inside a further loop / try block")
            ok = False
            continue
        n = p.count(label)
        if n == 0:
            o.refute(f, f.node, f"{f.name}: no {label}", f"on the path {p.cond_text()} through {f.name} there is no {what}")
            ok = False
        elif n > 1:
            o.refute(f, f.node, f"{f.name}: {n} x {label}", f"on the path {p.cond_text()} through {f.name} the {what} is run {n} "
                                                            f"times: every element is rendered {n} times")
            ok = False
    return ok


# ------------------------------------------------------------------------------------------------------- mermaid gantt
def _mentions(e, attrs) -> bool:
    return any(isinstance(x, ast.Attribute) and x.attr in attrs for x in ast.walk(e))


class Emission:
    def __init__(self, stmt, value, ps):
        self.stmt, self.value, self.parts = stmt, value, ps
        self.text = lits(ps)


def emissions(ctx, f: Func, acc: Acc, opaque_pred) -> List[Emission]:
    out = []
    fl = flow_of(f)
    for st, v in acc.all:
        d = deep(ctx, f, v, fl.node_of_expr(v))
        for x in ast.walk(d):
            if isinstance(x, ast.Call):
                h = helper_of(ctx, f, x)
                if h is not None and reaches(ctx, h, opaque_pred):
                    raise Und(f, st, x, f"the text appended here is built by {h.name}(), a helper the rule cannot inline "
                                        f"(not straight-line code with a single return)")
        out.append(Emission(st, d, parts(d)))
    return out


def opaque_values(ctx, f: Func, e: 'Emission') -> List[ast.AST]:
    """values of an emission whose text the rule cannot see: calls of package helpers that were not inlined, bare locals"""
    out = []
    fl = flow_of(f)
    for v in vals(e.parts):
        bound = {x.id for n in ast.walk(v) if isinstance(n, ast.comprehension) for x in ast.walk(n.target) if isinstance(x, ast.Name)}
        for x in ast.walk(v):
            if isinstance(x, ast.Name) and isinstance(x.ctx, ast.Load) and x.id not in bound:
                ds = fl.defs_of(x.id)
                if ds and not all(d.kind in ('for', 'unpack', 'param') for d in ds):
                    out.append(v)         # a local the Expander could not resolve (loop variables / parameters are data)
                    break
            elif isinstance(x, ast.Call) and (helper_of(ctx, f, x) is not None or not (
                    (isinstance(x.func, ast.Attribute) and x.func.attr in _TEXT_METHODS) or
                    (isinstance(x.func, ast.Name) and x.func.id in ('str', 'int', 'len', 'repr', 'format', _MARK)))):
                out.append(v)             # a call whose result the rule cannot read (package helper, buffer.getvalue(), ..)
                break
    return out


_TEXT_METHODS = ('replace', 'format', 'strftime', 'join', 'get', 'items', 'keys', 'values', 'lower', 'upper', 'strip', 'title',
                 'isoformat', 'rstrip', 'lstrip')


def line_roles(ctx, f: Func, ps):
    """classify the value parts of a task line: [(role, expr, extra)]"""
    roles = []
    for k, v in ps:
        if k != 'val':
            roles.append(('lit', v, None))
            continue
        m = match("$t.start.strftime($f)", v)
        if m:
            roles.append(('start', m['t'], m['f']))
            continue
        m = match("$t.end.strftime($f)", v)
        if m:
            roles.append(('end', m['t'], m['f']))
            continue
        b, chain = sanitiser(v, regex=f.module.imports.get('re') == 're')
        m = match("$t.name", b)
        if m:
            roles.append(('name', m['t'], chain))
            continue
        b, chain = sanitiser(v)
        m = match("$t.id", b)
        if m:
            roles.append(('id', m['t'], None))
            continue
        if isinstance(v, ast.Call) and helper_of(ctx, f, v) is not None and len(v.args) == 1 and not v.keywords:
            roles.append(('state', v.args[0], v))
            continue
        if isinstance(v, (ast.IfExp, ast.BoolOp)) and _mentions(v, ('milestone',)):
            roles.append(('state', None, v))
            continue
        roles.append(('other', v, None))
    return roles


class Gantt:
    def __init__(self, ctx):
        self.ctx = ctx
        self.f = f = canonical(ctx, ctx.prog.func(qual(GANTT, '__src')))
        self.w = wbs_attr(ctx, GANTT)
        self.acc = Acc(ctx, f)
        self.em = emissions(ctx, f, self.acc, lambda n: isinstance(n, ast.Attribute) and n.attr == 'strftime')
        self.lines = [e for e in self.em if any(_mentions(v, ('start', 'end', 'strftime')) for v in vals(e.parts))]
        for e in self.lines:
            e.roles = line_roles(ctx, f, e.parts)
            ts = [r[1] for r in e.roles if r[0] in ('start', 'end')]
            e.task = ts[0] if ts else None
        self.chains = loop_chains(f.node)


def section_key(e: Emission) -> Optional[ast.AST]:
    """value following the literal `section ` in an emission"""
    for i, (k, v) in enumerate(e.parts):
        if k == 'lit' and re.search(r'(^|\n)\s*section\s+$', v) and i + 1 < len(e.parts) and e.parts[i + 1][0] == 'val':
            return e.parts[i + 1][1]
    return None


def check_partition(ctx, o, G: Gantt, M: str, reader: ast.For) -> bool:
    """M maps section -> tasks and is a partition of the WBS' tasks: `M = {}` once outside loops, filled by exactly one
    `M.setdefault(key, []).append(task)` per task of self.wbs.tasks before the reading loop, never touched otherwise"""
    f, cfg = G.f, cfg_of(G.f)
    inits, adds, other, keyed = [], [], [], []
    consumed = set()
    for st in walk_no_nested(f.node):
        if isinstance(st, ast.Assign) and len(st.targets) == 1 and isinstance(st.targets[0], ast.Name) and st.targets[0].id == M:
            inits.append(st)
            consumed.add(id(st.targets[0]))
        elif isinstance(st, ast.Expr):
            m = match(f"{M}.setdefault($k, []).append($x)", st.value) or match(f"{M}.setdefault($k, list()).append($x)", st.value)
            md = None if m else match(f"{M}[$k].append($x)", st.value)
            if md:
                keyed.append(st)          # only valid on a defaultdict(list), checked with the initialisation below
            m = m or md
            if m:
                adds.append((st, m['k'], m['x']))
                consumed |= {id(n) for n in ast.walk(st) if isinstance(n, ast.Name) and n.id == M}
        elif isinstance(st, ast.For):
            it = strip_seq(st.iter)
            if match(f"{M}.items()", it) or match(f"{M}.values()", it) or match(f"{M}.keys()", it) or match(M, it) or \
                    match(f"{M}[$k]", it) or match(f"{M}.get($k, $d)", it):
                consumed |= {id(n) for n in ast.walk(st.iter) if isinstance(n, ast.Name) and n.id == M}
        if isinstance(st, ast.Assign) and len(st.targets) == 1 and isinstance(st.targets[0], ast.Name) and st.targets[0].id != M and \
                (match(f"{M}.get($k, $d)", st.value) or match(f"{M}.get($k)", st.value) or match(f"{M}[$k]", st.value)):
            consumed.add(id(st.value.func.value if isinstance(st.value, ast.Call) else st.value.value))   # read-only lookup
    for par in walk_no_nested(f.node, include_lambdas=True):
        kids = []
        if isinstance(par, ast.Call) and isinstance(par.func, ast.Name) and par.func.id in ('len', 'bool') and not par.keywords:
            kids = par.args
        elif isinstance(par, (ast.If, ast.While, ast.IfExp)):
            kids = [par.test.operand if isinstance(par.test, ast.UnaryOp) and isinstance(par.test.op, ast.Not) else par.test]
        consumed |= {id(k_) for k_ in kids if isinstance(k_, ast.Name) and k_.id == M}
    for n in walk_no_nested(f.node, include_lambdas=True):
        if isinstance(n, ast.Name) and n.id == M and id(n) not in consumed:
            other.append(n)
    if other:
        raise Und(f, other[0], f"{M}: other use", f"the section map `{M}` is also used in a way the rule does not model "
                                                  f"(`{src(stmt_of(f.node, other[0]) or other[0])[:70]}`)")
    if len(inits) == 1 and isinstance(inits[0].value, ast.DictComp) and len(inits[0].value.generators) == 1:
        gi = inits[0].value.generators[0].iter
        is_groupby = isinstance(gi, ast.Call) and gi.args and (
            (f.module.imports.get('groupby') == 'itertools.groupby' and match("groupby", gi.func)) or
            (f.module.imports.get('itertools') == 'itertools' and match("itertools.groupby", gi.func)))
        if is_groupby:
            arg = deep(ctx, f, gi.args[0], flow_of(f).node_of_expr(gi.args[0]))
            if isinstance(arg, ast.Call) and isinstance(arg.func, ast.Name) and arg.func.id == 'sorted':
                raise Und(f, inits[0], inits[0], "sections built with itertools.groupby over a sorted copy of the tasks")
            o.refute(f, inits[0], f"{M} = {{.. groupby({src(arg)[:30]}) ..}}",
                     f"the section map is a dict built from itertools.groupby over `{src(arg)[:50]}`, which is not sorted by section: "
                     f"groupby only groups *consecutive* tasks, so a later run of the same section overwrites the earlier one and "
                     f"the earlier tasks get no task line (expected one setdefault(section, []).append(task) per task)")
            return False
    ddict = len(inits) == 1 and (
        (f.module.imports.get('defaultdict') == 'collections.defaultdict' and match("defaultdict(list)", inits[0].value)) or
        (f.module.imports.get('collections') == 'collections' and match("collections.defaultdict(list)", inits[0].value)))
    if len(inits) != 1 or not (match("{}", inits[0].value) or match("dict()", inits[0].value) or ddict):
        raise Und(f, f.node, f"{M}: init", f"the section map `{M}` is not initialised exactly once with an empty dict")
    if keyed and not ddict:
        raise Und(f, keyed[0], keyed[0], f"`{src(keyed[0])[:60]}` on a plain dict (KeyError for a new section unless the key exists)")
    n0 = cfg.node_of(inits[0])
    if cfg.enclosing_loops(n0):
        o.refute(f, inits[0], f"{M} = {{}} in loop", f"the section map `{M}` is re-created inside a loop: earlier tasks are dropped")
        return False
    if not adds:
        o.refute(f, f.node, f"{M}: never filled", f"no task is ever appended to the section map `{M}`")
        return False
    loops = {id(G.chains[id(st)][-1]): G.chains[id(st)][-1] for st, _, _ in adds if G.chains[id(st)]}
    if len(loops) != 1 or any(not G.chains[id(st)] for st, _, _ in adds):
        raise Und(f, adds[0][0], f"{M}: fill", f"the section map `{M}` is filled in {len(loops)} loops / outside a loop")
    B = next(iter(loops.values()))
    if not (isinstance(B, ast.For) and isinstance(B.target, ast.Name)):
        raise Und(f, B, f"{M}: fill loop", "the loop filling the section map is not `for <name> in ..`")
    it = for_iter(ctx, f, B)
    if not is_all_tasks(it, f, G.w):
        wrong = domain_problem(ctx, f, G.w, it)
        if wrong:
            o.refute(f, B, f"{M}: fill domain", f"the section map is filled from `{src(it)[:60]}`, not from every task of self.wbs.tasks: {wrong}")
            return False
        raise Und(f, B, f"{M}: fill domain", f"cannot tell whether `{src(it)[:60]}` enumerates every task exactly once")
    ok = True
    for st, k, x in adds:
        if not (isinstance(x, ast.Name) and x.id == B.target.id):
            xx = deep(ctx, f, x, flow_of(f).node_of_expr(x))
            if not (isinstance(xx, ast.Name) and xx.id == B.target.id):
                raise Und(f, st, st, f"the section map receives `{src(x)}`, not the loop's task `{B.target.id}`")
        key = deep(ctx, f, k, flow_of(f).node_of_expr(k))
        t = B.target.id
        good = match(f"{t}.gantt_section if 'gantt_section' in {t}.__dict__ else $d", key) or \
            match(f"$d if 'gantt_section' not in {t}.__dict__ else {t}.gantt_section", key) or \
            match(f"getattr({t}, 'gantt_section', $d)", key) or match(f"{t}.__dict__.get('gantt_section', $d)", key)
        if good:
            pass
        elif not any(isinstance(n, ast.Name) and n.id == t for n in ast.walk(key)):
            o.refute(f, st, k, f"tasks are filed under `{src(key)[:60]}`, which does not depend on the task: not grouped under "
                               f"their own section")
            ok = False
        elif not _mentions(key, ('gantt_section',)):
            o.refute(f, st, k, f"tasks are filed under `{src(key)[:60]}`, not under their gantt_section")
            ok = False
        else:
            raise Und(f, st, k, f"section key `{src(key)[:70]}` is not `task.gantt_section if set else <default>`")
    ok = per_iteration(o, f, B, {id(st): 'append' for st, _, _ in adds}, 'append', 'append to the section map') and ok
    nb, nr = cfg.node_of(B), cfg.node_of(reader)
    if not cfg.dominates(nb, nr) or cfg.enclosing_loops(nb):
        o.refute(f, B, f"{M}: fill order", "the loop filling the section map does not run exactly once before the sections are emitted")
        ok = False
    if ok:
        o.site(f, B, f"section map `{M}`: one setdefault(..).append({B.target.id}) per task of self.wbs.tasks, before the emission")
    return ok


def _bad(o) -> int:
    return len(o.refuted) + len(o.unknown)


def gantt_once(ctx, o):
    check_memo(ctx, o, canonical(ctx, ctx.prog.func(qual(GANTT, '__src'))))
    G = Gantt(ctx)
    f = G.f
    n0 = _bad(o)
    if not G.lines:
        blind = next((x for e in G.em for x in opaque_values(ctx, f, e)), None)
        if blind is not None:
            o.undecided(f, f.node, '__src: task lines not found', f"no text carrying task start/end dates is appended directly, but part "
                                                                    f"of the text comes from `{src(blind)[:60]}`, which the rule cannot read")
        else:
            o.refute(f, f.node, '__src: no task line', "no text carrying task start/end dates is ever appended to the Gantt source")
        return
    by_loop: Dict[int, Tuple[ast.stmt, List[Emission]]] = {}
    for e in G.lines:
        C = G.chains[id(e.stmt)]
        if not C:
            o.undecided(f, e.stmt, e.stmt, "a task line is emitted outside any loop")
            return
        by_loop.setdefault(id(C[-1]), (C[-1], []))[1].append(e)
    units = {}
    for L, es in by_loop.values():
        if not (isinstance(L, ast.For) and isinstance(L.target, ast.Name)):
            o.undecided(f, L, L, "task lines are emitted by a loop that is not `for <name> in ..`")
            continue
        bad = [e for e in es if not (isinstance(e.task, ast.Name) and e.task.id == L.target.id)]
        if bad:
            o.undecided(f, bad[0].stmt, bad[0].stmt, f"the task line is built for `{src(bad[0].task) if bad[0].task is not None else '?'}`, "
                                                    f"not for the loop variable `{L.target.id}`")
            continue
        if not per_iteration(o, f, L, {id(e.stmt): 'line' for e in es}, 'line', 'task line'):
            continue
        it = for_iter(ctx, f, L)
        C = G.chains[id(L)]
        if is_all_tasks(it, f, G.w):
            units[id(L)] = L
            o.site(f, L, f"unsectioned: one task line per `{L.target.id}` of self.{G.w}.tasks")
            # the flat rendering may be chosen only when all tasks share one section: a test that counts a filtered /
            # default-less collection of sections (and nothing else) sends plans with several sections there
            conds = facts.node_conditions(ctx.prog, f, L, ctx.typer)
            comps = [x for a_, _ in conds for x in ast.walk(a_) if isinstance(x, (ast.ListComp, ast.SetComp, ast.GeneratorExp))
                     and len(x.generators) == 1 and is_all_tasks(deep(ctx, f, x.generators[0].iter), f, G.w)]
            other = any(isinstance(x, ast.Call) and isinstance(x.func, ast.Name) and x.func.id in ('any', 'all', 'sum')
                        for a_, _ in conds for x in ast.walk(a_))
            if comps and not other and isinstance(comps[0].generators[0].target, ast.Name):
                tv = comps[0].generators[0].target.id
                bad = [x for x in comps if _mentions(x.elt, ('gantt_section',)) and
                       (x.generators[0].ifs or match(f"{tv}.gantt_section", x.elt))]
                if len(bad) == len(comps):
                    o.refute(f, L, f"sectioning test: {src(bad[0])[:60]}",
                             f"the flat (header-less) rendering is chosen by counting `{src(bad[0])[:80]}`, which leaves out the tasks "
                             f"without a declared gantt_section (their implicit section is not counted): a plan with one named "
                             f"section plus unsectioned tasks is rendered without any section (expected the section-or-default "
                             f"of every task)")
            continue
        # sectioned: for k, v in M.items(): <section k> ; for task in v: <line>
        P = C[-1] if C else None
        raw = strip_seq(L.iter)
        if P is not None and isinstance(P, ast.For):
            pit = strip_seq(P.iter)
            m = match("$m.items()", pit)
            kvar = M = None
            if isinstance(raw, ast.Name) and m and isinstance(m['m'], ast.Name) and isinstance(P.target, ast.Tuple) and \
                    len(P.target.elts) == 2 and all(isinstance(x, ast.Name) for x in P.target.elts) and P.target.elts[1].id == raw.id:
                kvar, M = P.target.elts[0].id, m['m'].id
            elif isinstance(P.target, ast.Name) and isinstance(raw, ast.Subscript) and isinstance(raw.value, ast.Name) and \
                    match(P.target.id, raw.slice) and (match(raw.value.id, pit) or match(f"{raw.value.id}.keys()", pit)):
                kvar, M = P.target.id, raw.value.id
            if M is None and isinstance(P.target, ast.Name):
                # for k in <keys>: v = M.get(k, []) / M[k]; for task in v
                rx = strip_seq(it)
                mg = match("$m.get($k, $d)", rx) or match("$m.get($k)", rx) or match("$m[$k]", rx)
                if mg and isinstance(mg['m'], ast.Name) and match(P.target.id, mg['k']) and isinstance(raw, ast.Name):
                    Mx = mg['m'].id
                    if match(Mx, pit) or match(f"{Mx}.keys()", pit) or match(f"list({Mx})", P.iter):
                        kvar, M = P.target.id, Mx
                    elif isinstance(pit, ast.BoolOp) and isinstance(pit.op, ast.Or) and \
                            any(match(Mx, strip_seq(x_)) or match(f"{Mx}.keys()", strip_seq(x_)) for x_ in pit.values[1:]):
                        o.refute(f, P, P.iter, f"the sections are taken from `{src(pit.values[0])[:50]}` when it is given and only "
                                               f"otherwise from the section map `{Mx}`: every section of `{Mx}` that is not listed "
                                               f"there is dropped together with its task lines (expected a loop over all keys of `{Mx}`)")
                        continue
            if M is not None:
                atoms = {id(L): 'tasks'}
                heads = []
                for e in G.em:
                    ch = G.chains[id(e.stmt)]
                    if ch and ch[-1] is P:
                        key = section_key(e)
                        if key is not None:
                            atoms[id(e.stmt)] = 'section'
                            heads.append((e, key))
                for e2 in G.lines:
                    ch = G.chains[id(e2.stmt)]
                    if P in ch and e2 not in es:
                        atoms[id(e2.stmt)] = 'extra'
                ok = True
                gvar = raw.id if isinstance(raw, ast.Name) else None

                def group_empty(pth):
                    """the path needs the group of a section to be empty: impossible, a group exists because a task was appended"""
                    for t_, pol_ in pth.conds:
                        for a_, ap_ in facts.split_conj(t_, pol_):
                            em_ = emptiness(a_) or ((a_, False) if isinstance(a_, ast.Name) else None)
                            if em_ and gvar and isinstance(strip_seq(em_[0]), ast.Name) and strip_seq(em_[0]).id == gvar and \
                                    (em_[1] if ap_ else not em_[1]):
                                return True
                    return False
                for p in paths(P.body, atoms):
                    if p.exit == 'raise' or group_empty(p):
                        continue
                    labels = [l for l, _ in p.events]
                    if p.exit in ('break', 'return'):
                        o.refute(f, P, f"sections: {p.exit}", f"the loop over the sections is left by `{p.exit}`: later sections are lost")
                        ok = False
                    elif 'opaque-loop' in labels or 'opaque' in labels or 'extra' in labels:
                        o.refute(f, P, "sections: extra task lines", "task lines are emitted by a second construct inside the section "
                                                                     "loop: tasks appear more than once")
                        ok = False
                    elif labels.count('tasks') != 1:
                        o.refute(f, P, f"sections: {labels.count('tasks')} task loops",
                                 f"a section emits its tasks {labels.count('tasks')} times when {p.cond_text()} (expected once)")
                        ok = False
                    elif labels.count('section') != 1:
                        o.refute(f, P, f"sections: {labels.count('section')} headers",
                                 f"a section gets {labels.count('section')} `section` header lines when {p.cond_text()} (expected one)")
                        ok = False
                    elif labels.index('section') > labels.index('tasks'):
                        o.refute(f, P, "sections: header after tasks", "the `section` header is emitted after the section's task lines: "
                                                                       "the tasks are grouped under the previous section")
                        ok = False
                for e, key in heads:
                    if not (isinstance(key, ast.Name) and key.id == kvar):
                        o.refute(f, e.stmt, e.stmt, f"the section header prints `{src(key)}`, not the section key `{kvar}` of the group")
                        ok = False
                if ok and check_partition(ctx, o, G, M, P):
                    units[id(P)] = P
                    o.site(f, P, f"sectioned: per key of `{M}` one header and one task line per task of the group")
                continue
        wrong = domain_problem(ctx, f, G.w, it)
        if wrong:
            o.refute(f, L, L.iter, f"task lines are emitted for `{src(it)[:70]}`, which is not every task of self.{G.w}.tasks: {wrong}")
        else:
            o.undecided(f, L, L.iter, f"cannot tell whether `{src(it)[:70]}` enumerates every task exactly once")
    if _bad(o) > n0:
        return
    atoms = {i: 'unit' for i in units}
    for e in G.lines:
        ch = G.chains[id(e.stmt)]
        if not any(id(c) in units for c in ch):
            atoms[id(e.stmt)] = 'unit'
    if once_per_call(o, f, atoms, 'unit', 'complete per-task emission of the task lines'):
        o.site(f, f.node, f"every path through __src runs exactly one of the {len(units)} complete task-line loops")


# ------------------------------------------------------------------------------------------------------- formats
def mermaid_to_strftime(fmt: str) -> Optional[str]:
    out = ''
    for tok in re.findall(r'YYYY|YY|MM|DD|HH|hh|mm|ss|[A-Za-z]+|[^A-Za-z]+', fmt):
        if tok in _MERMAID_TOKENS:
            out += _MERMAID_TOKENS[tok]
        elif tok[0].isalpha():
            return None
        else:
            out += tok.replace('%', '%%')
    return out


def missing_fields(fmt: str) -> List[str]:
    if re.search(r'%[cxX+]', fmt):
        return []
    return [name for name, ds in _DATE_FIELDS if not any(d in fmt for d in ds)]


def check_date_format(o, f, node, what: str, fexpr: ast.AST) -> Optional[str]:
    fmt = const_str(fexpr)
    if fmt is None:
        # a format chosen by a conditional expression (`A if self.scale == 'day' else B`): every alternative is a format in use
        cases = value_cases(fexpr, []) if isinstance(fexpr, ast.IfExp) else []
        if len(cases) > 1 and all(const_str(v) is not None for _, v in cases):
            bad = False
            for cs, v in cases:
                when = ', '.join(facts.cond_texts(cs))[:80]
                miss = missing_fields(v.value)
                if miss:
                    o.refute(f, node, f"{what}: strftime({v.value!r}) when {when}",
                             f"{what} is formatted with {v.value!r} when {when} (format chosen by `{src(fexpr)[:90]}`), which drops "
                             f"the {', '.join(miss)}: the rendered date is not the task's real date to the minute")
                    bad = True
                elif '%I' in v.value and '%p' not in v.value:
                    o.refute(f, node, f"{what}: strftime({v.value!r}) when {when}", f"{what} uses the 12-hour clock without AM/PM when {when}")
                    bad = True
            if bad:
                return None
            if len({v.value for _, v in cases}) == 1:
                return cases[0][1].value
            o.undecided(f, node, fexpr, f"the strftime format of {what} depends on a condition (`{src(fexpr)[:80]}`): the rule compares "
                                        f"one constant format with the format the viewer parses")
            return None
        o.undecided(f, node, fexpr, f"the strftime format of {what} is not a string constant")
        return None
    miss = missing_fields(fmt)
    if miss:
        o.refute(f, node, f"{what}: strftime({fmt!r})", f"{what} is formatted with {fmt!r}, which drops the {', '.join(miss)}: "
                                                          f"the rendered date is not the task's real date to the minute")
        return None
    if '%I' in fmt and '%p' not in fmt:
        o.refute(f, node, f"{what}: strftime({fmt!r})", f"{what} uses the 12-hour clock without AM/PM")
        return None
    return fmt


def _assume(conds, test: ast.AST, pol: bool):
    """conds + (test, pol) split into atoms; None when an atom is already assumed with the other polarity (infeasible)"""
    out = list(conds)
    for a, p in facts.split_conj(test, pol):
        known = [q for b, q in out if same(a, b)]
        if (not p) in known:
            return None
        if not known:
            out.append((a, p))
    return out


def _truth_cases(test: ast.AST, conds):
    """[(conds, bool)]: the truth of `test` per case; a test that is itself a conditional / concatenated text (`if tag:` with
    `tag = 'a' if c else ''`) is decided per case of that value, anything else is an atom assumed true and false"""
    if isinstance(test, ast.UnaryOp) and isinstance(test.op, ast.Not):
        return [(cs, not v) for cs, v in _truth_cases(test.operand, conds)]
    if isinstance(test, ast.Constant):
        return [(list(conds), bool(test.value))]
    if isinstance(test, ast.BoolOp):
        # short-circuit evaluation: `a and b` is decided by a when a is false, otherwise by the rest
        stop = isinstance(test.op, ast.Or)
        rest = test.values[1] if len(test.values) == 2 else ast.BoolOp(op=test.op, values=test.values[1:])
        out = []
        for cs, v in _truth_cases(test.values[0], conds):
            out += [(cs, v)] if v == stop else _truth_cases(rest, cs)
        return out
    valued, cmp_ = None, None
    if isinstance(test, (ast.IfExp, ast.JoinedStr)) or (isinstance(test, ast.BinOp) and isinstance(test.op, ast.Add)):
        valued = test
    elif isinstance(test, ast.Compare) and len(test.ops) == 1 and isinstance(test.ops[0], (ast.Eq, ast.NotEq)):
        a, b = test.left, test.comparators[0]
        if isinstance(a, ast.Constant) and isinstance(b, ast.IfExp):
            a, b = b, a
        if isinstance(a, ast.IfExp) and isinstance(b, ast.Constant):
            valued, cmp_ = a, (b.value, isinstance(test.ops[0], ast.Eq))
    elif match("len($x) > 0", test) or match("len($x) != 0", test) or match("bool($x)", test):
        x = (match("len($x) > 0", test) or match("len($x) != 0", test) or match("bool($x)", test))['x']
        if isinstance(x, ast.IfExp):
            valued = x
    if valued is not None:
        cases = value_cases(valued, conds)
        if all(isinstance(v, ast.Constant) for _, v in cases):
            if cmp_ is None:
                return [(cs, bool(v.value)) for cs, v in cases]
            return [(cs, (v.value == cmp_[0]) == cmp_[1]) for cs, v in cases]
    out = []
    for pol in (True, False):
        cs = _assume(conds, test, pol)
        if cs is not None:
            out.append((cs, pol))
    return out


def value_cases(e: ast.AST, conds) -> List[Tuple[list, ast.AST]]:
    """[(conds, value)] of an expression built from conditional expressions, `+`, f-strings and `and` / `or` over constants:
    every feasible combination of the tests with the value it yields (constant texts are concatenated); an expression of
    another kind is one case with itself as the value"""
    if isinstance(e, ast.IfExp):
        out = []
        for cs, tv in _truth_cases(e.test, conds):
            out += value_cases(e.body if tv else e.orelse, cs)
        return out
    if isinstance(e, ast.BinOp) and isinstance(e.op, ast.Add):
        out = []
        for cs1, a in value_cases(e.left, conds):
            for cs2, b in value_cases(e.right, cs1):
                if const_str(a) is not None and const_str(b) is not None:
                    out.append((cs2, ast.Constant(value=a.value + b.value)))
                else:
                    out.append((cs2, ast.BinOp(left=a, op=ast.Add(), right=b)))
        return out
    if isinstance(e, ast.JoinedStr) and all(isinstance(v, ast.Constant) or (
            isinstance(v, ast.FormattedValue) and v.conversion == -1 and v.format_spec is None) for v in e.values):
        combos = [(list(conds), '')]
        for v in e.values:
            nxt = []
            for cs, text in combos:
                if isinstance(v, ast.Constant):
                    nxt.append((cs, text + str(v.value)))
                    continue
                for cs2, pv in value_cases(v.value, cs):
                    if const_str(pv) is None:
                        return [(list(conds), e)]
                    nxt.append((cs2, text + pv.value))
            combos = nxt
        return [(cs, ast.Constant(value=text)) for cs, text in combos]
    if isinstance(e, ast.BoolOp) and len(e.values) >= 2:
        first = value_cases(e.values[0], conds)
        if all(isinstance(v, ast.Constant) for _, v in first):
            rest = e.values[1] if len(e.values) == 2 else ast.BoolOp(op=e.op, values=e.values[1:])
            out = []
            for cs, v in first:
                if bool(v.value) == isinstance(e.op, ast.And):
                    out += value_cases(rest, cs)
                else:
                    out.append((cs, v))
            return out
    return [(list(conds), e)]


def milestone_cases(ctx, f: Func, state_role):
    """[(conds [(atom, pol)], value expr, node, func, task expr)] of the state slot of the task line"""
    _, arg, v = state_role
    out = []

    def flat(e, conds, node, fn, t):
        for cs, val in value_cases(e, conds):
            out.append((cs, val, node, fn, t))
    if isinstance(v, ast.Call):
        h = helper_of(ctx, f, v)
        sub = _bind(h, v)
        tparam = next((p for p, a in (sub or {}).items() if a is arg), None)
        if tparam is None:
            raise Und(f, v, v, "cannot bind the task argument of the state helper")
        rets = [r for r in walk_no_nested(h.node) if isinstance(r, ast.Return)]
        if not rets:
            raise Und(h, h.node, h.name, "state helper without return")
        hfl = flow_of(h)
        for r in rets:
            conds = facts.node_conditions(ctx.prog, h, r, ctx.typer)
            tname = ast.Name(id=tparam, ctx=ast.Load())
            # `state = 'x,'` in the branches of an if/elif chain and one `return state`: every reaching assignment is a case
            if isinstance(r.value, ast.Name) and cfg_of(h).node_of(r) is not None:
                ds = hfl.reaching(r.value.id, cfg_of(h).node_of(r))
                if len(ds) > 1 and len(rets) == 1 and h.body[-1] is r and \
                        all(d.kind == 'assign' and d.value is not None and d.stmt is not None for d in ds):
                    by_stmt = {id(d.stmt): d for d in ds}
                    ex = Expander(ctx.prog, h, ctx.typer)
                    hcfg = cfg_of(h)
                    for p_ in paths(h.body, {k_: 'def' for k_ in by_stmt}):
                        if p_.exit == 'raise':
                            continue
                        if p_.count('opaque-loop', 'opaque') or not p_.events:
                            raise Und(h, r, r, f"the state `{r.value.id}` is assigned inside a loop / try block")
                        d = by_stmt[id(p_.events[-1][1])]            # the assignment that reaches the return on this path
                        pc = [c_ for t_, pol_ in p_.conds for c_ in facts.split_conj(ex.expand(t_, hcfg.node_containing(t_)), pol_)]
                        flat(deep(ctx, h, d.value, d.node), pc, d.stmt, h, tname)
                    continue
            val = deep(ctx, h, r.value) if r.value is not None else ast.Constant(value=None)
            flat(val, list(conds), r, h, tname)
        # falling off the end returns None
        if any(p.exit == 'fall' for p in paths(h.body, {})):
            out.append(([], ast.Constant(value=None), h.node, h, ast.Name(id=tparam, ctx=ast.Load())))
    else:
        t = next((x.value for x in ast.walk(v) if isinstance(x, ast.Attribute) and x.attr == 'milestone'), None)
        flat(v, [], v, f, t)
    return out


def ms_atom(atom: ast.AST, pol: bool, t: ast.AST) -> Optional[bool]:
    """polarity of `t.milestone` asserted by (atom, pol), None when the atom is something else"""
    while isinstance(atom, ast.UnaryOp) and isinstance(atom.op, ast.Not):
        atom, pol = atom.operand, not pol
    ts = src(t)
    for p, v in ((f"{ts}.milestone", True), (f"{ts}.milestone is True", True), (f"{ts}.milestone == True", True),
                 (f"bool({ts}.milestone)", True), (f"{ts}.milestone is False", False), (f"{ts}.milestone == False", False),
                 (f"{ts}.milestone is not True", False), (f"{ts}.milestone != True", False)):
        if match(p, atom):
            return v if pol else not v
    return None


def gantt_formats(ctx, o):
    G = Gantt(ctx)
    f = G.f
    if not G.lines:
        if any(opaque_values(ctx, f, e) for e in G.em):
            o.undecided(f, f.node, '__src: task lines not found', "no task line is emitted directly; part of the text is built elsewhere")
        else:
            o.refute(f, f.node, '__src: no task line', "no task line is emitted")
        return
    check_joined_lines(o, f, G.em, 'line')
    fmts = []
    for e in G.lines:
        roles = [r for r in e.roles if r[0] != 'lit']
        names = [r[0] for r in roles]
        others = [r for r in roles if r[0] == 'other']
        if others:
            o.undecided(f, e.stmt, others[0][1], f"unrecognised value `{src(others[0][1])[:60]}` in the task line")
            continue
        bad = False
        for need in ('name', 'state', 'id', 'start', 'end'):
            if names.count(need) != 1:
                o.refute(f, e.stmt, f"task line: {need} x{names.count(need)}",
                         f"the task line carries the task's {need} {names.count(need)} times (expected once): "
                         f"`{' '.join(names)}`; Mermaid reads `name : [flags,] id, start, end`")
                bad = True
        if bad:
            continue
        if names != ['name', 'state', 'id', 'start', 'end']:
            o.refute(f, e.stmt, f"task line order: {' '.join(names)}",
                     f"the task line lists `{', '.join(names)}`; Mermaid reads `name : [flags,] id, start, end`, so e.g. swapped "
                     f"dates render a different bar")
            continue
        t = e.task
        diff = [r for r in roles if r[1] is not None and not same(r[1], t)]
        if diff:
            o.refute(f, e.stmt, f"task line: {diff[0][0]} of {src(diff[0][1])}",
                     f"the {diff[0][0]} in the task line is taken from `{src(diff[0][1])}`, the dates from `{src(t)}`")
            continue
        # separators
        seq = e.roles
        idx = {r[0]: i for i, r in enumerate(seq) if r[0] != 'lit'}

        def between(a, b):
            return ''.join(r[1] for r in seq[idx[a] + 1:idx[b]] if r[0] == 'lit')
        tail = ''.join(r[1] for r in seq[idx['end'] + 1:] if r[0] == 'lit')
        head = ''.join(r[1] for r in seq[:idx['name']] if r[0] == 'lit')
        prob = None
        if ':' not in between('name', 'state'):
            prob = "no `:` between the name and the flags"
        elif ',' not in between('id', 'start'):
            prob = "no `,` between the id and the start"
        elif ',' not in between('start', 'end'):
            prob = "no `,` between the start and the end"
        elif not tail.endswith('\n') or '\n' in tail[:-1] or '\n' in head.rstrip('\n') + between('name', 'state') + \
                between('state', 'id') + between('id', 'start') + between('start', 'end'):
            prob = "the line is not terminated by exactly one newline"
        if prob:
            o.refute(f, e.stmt, f"task line: {prob}", f"task line malformed: {prob}")
            continue
        fs = check_date_format(o, f, e.stmt, 'the task start', next(r[2] for r in roles if r[0] == 'start'))
        fe = check_date_format(o, f, e.stmt, 'the task end', next(r[2] for r in roles if r[0] == 'end'))
        if fs is None or fe is None:
            continue
        fmts.append((e, fs, fe))
        o.site(f, e.stmt, f"task line = name : state id, start({fs}), end({fe})")
        # ---- milestone flag
        state = next(r for r in roles if r[0] == 'state')
        cases = milestone_cases(ctx, f, state)
        seen_ms = False
        okc = True
        for conds, val, node, fn, tt in cases:
            s = const_str(val)
            if s is None:
                o.undecided(fn, node, val, f"the state slot of the task line can be `{src(val)[:50]}`, not a string constant")
                okc = False
                continue
            if tt is None:
                o.undecided(fn, node, val, "cannot find the task whose milestone attribute decides the flag")
                okc = False
                continue
            if 'milestone' in [x.strip() for x in s.split(',')]:
                seen_ms = True
            if s.strip() and not s.strip().endswith(','):
                o.refute(fn, node, f"state {s!r}", f"state text {s!r} does not end with `,`: it merges with the task id")
                okc = False
                continue
            pols = [(a, p, ms_atom(a, p, tt)) for a, p in conds]
            ms_pol = [m for _, _, m in pols if m is not None]
            rest = [(a, p) for a, p, m in pols if m is None]
            is_ms = 'milestone' in [x.strip() for x in s.split(',')]
            if is_ms:
                seen_ms = True
                if True not in ms_pol:
                    o.refute(fn, node, "milestone flag: unconditional", "the `milestone,` flag is returned without testing task.milestone")
                    okc = False
                elif rest:
                    o.refute(fn, node, "milestone flag after other tests",
                             f"the `milestone,` flag is only emitted when also {', '.join(facts.cond_texts(rest))[:120]}: "
                             f"task.milestone must be tested first, a milestone that is done/active loses its flag")
                    okc = False
            else:
                if False not in ms_pol:
                    o.refute(fn, node, f"state {s!r} before the milestone test",
                             f"state {s!r} is returned ({', '.join(facts.cond_texts(conds))[:100] or 'unconditionally'}) without "
                             f"having excluded task.milestone: a milestone is rendered without its flag")
                    okc = False
        if not seen_ms:
            o.refute(f, e.stmt, "milestone flag: never", "no state of the task line carries the `milestone` flag")
            okc = False
        if okc:
            o.site(f, e.stmt, f"state slot: `milestone,` iff task.milestone ({len(cases)} cases, milestone tested first)")
    # ---- dateFormat directive
    dfs = [e for e in G.em if 'dateFormat' in e.text]
    if not dfs:
        blind = next((x for e in G.em if e not in G.lines for x in opaque_values(ctx, f, e)), None)
        if blind is not None:
            o.undecided(f, f.node, "dateFormat: not found", f"no `dateFormat` directive among the literal text of __src, but part of the "
                                                            f"text comes from `{src(blind)[:60]}`, which the rule cannot read")
        else:
            o.refute(f, f.node, "dateFormat: missing", "the Gantt source has no `dateFormat` directive: Mermaid parses the dates as YYYY-MM-DD")
        return
    if not once_per_call(o, f, {id(e.stmt): 'dateFormat' for e in dfs}, 'dateFormat', 'dateFormat directive'):
        return
    for e in dfs:
        m = re.search(r'dateFormat[ \t]+([^\n]*)\n', e.text)
        lit_only = m and any(k == 'lit' and m.group(0) in v for k, v in e.parts)
        if not lit_only:
            o.undecided(f, e.stmt, e.stmt, "the dateFormat directive is not one literal line")
            continue
        df = m.group(1).strip()
        tr = mermaid_to_strftime(df)
        if tr is None:
            o.undecided(f, e.stmt, f"dateFormat {df}", f"dateFormat `{df}` uses tokens outside YYYY YY MM DD HH hh mm ss")
            continue
        for e2, fs, fe in fmts:
            for what, fm in (('start', fs), ('end', fe)):
                if fm != tr:
                    o.refute(f, e2.stmt, f"dateFormat {df} vs {what} {fm}",
                             f"`dateFormat {df}` tells Mermaid to parse `{tr}`, but the task {what} is written with `{fm}`")
        if all(fs == tr and fe == tr for _, fs, fe in fmts) and fmts:
            o.site(f, e.stmt, f"dateFormat {df} == strftime {tr}")


def check_joined_lines(o, f: Func, em: List['Emission'], what: str):
    """lines joined with a newline separator have no newline after the last one: text appended next must start a new line"""
    cfg, blocks = cfg_of(f), _blocks(f.node)
    for i, e in enumerate(em):
        idx = next((k for k, (kind, v) in enumerate(e.parts) if kind == 'val' and is_marker(v)), None)
        if idx is None:
            continue
        sep = e.parts[idx][1].args[0].value
        if '\n' not in sep:
            continue
        followers = [(e, e.parts[idx + 1:])] + [(e2, e2.parts) for e2 in em[i + 1:]]
        for e2, ps in followers:
            ps = [p_ for p_ in ps if not (p_[0] == 'val' and is_marker(p_[1]))]
            if not ps:
                continue
            if e2.stmt is not e.stmt:
                a, b = cfg.node_of(e.stmt), cfg.node_of(e2.stmt)
                if a is None or b is None or not cfg.can_reach(a, b):
                    continue
            if not (ps[0][0] == 'lit' and ps[0][1].startswith('\n')):
                nxt = src(e2.stmt)[:60] if e2.stmt is not e.stmt else src(ps[0][1])[:40] if ps[0][0] == 'val' else repr(ps[0][1][:30])
                o.refute(f, e.stmt, f"{what}: {sep!r}.join(..) then {nxt}",
                         f"the {what}s are joined with {sep!r}, which puts the line break only *between* them: the last {what} is "
                         f"not terminated, and the text appended next (`{nxt}`) is glued onto it (expected every line to carry its "
                         f"own newline, or a newline before the following text)")
                break
            if e2.stmt is e.stmt or blocks.get(id(e2.stmt), (None,))[0] is blocks.get(id(e.stmt), (0,))[0]:
                break                          # a line break always follows


def template_sinks(ctx, o, f: Func, what: str) -> bool:
    """`X.format(..)` / `X % ..` whose template X is assembled from a task name: the name is re-read as a format template"""
    bad = False
    seen, todo = set(), [f]
    while todo:
        g = todo.pop()
        if g.qual in seen:
            continue
        seen.add(g.qual)
        fl = flow_of(g)
        for n in walk_no_nested(g.node, include_lambdas=True):
            if isinstance(n, ast.Call):
                h = helper_of(ctx, g, n)
                if h is not None:
                    todo.append(h)
            tpl = None
            if isinstance(n, ast.Call) and isinstance(n.func, ast.Attribute) and n.func.attr in ('format', 'format_map'):
                tpl = n.func.value
            elif isinstance(n, ast.BinOp) and isinstance(n.op, ast.Mod) and isinstance(n.left, (ast.Name, ast.JoinedStr)) and \
                    facts.const_num(n.right) is None:
                tpl = n.left
            if tpl is None or const_str(tpl) is not None:
                continue
            srcs = [tpl]
            if isinstance(tpl, ast.Name):
                srcs = [d.value if d.kind == 'assign' else d.stmt.value for d in fl.defs_of(tpl.id)
                        if d.kind in ('assign', 'aug') and (d.value is not None or d.stmt is not None)]
            for v in srcs:
                if v is None:
                    continue
                e = deep(ctx, g, v, fl.node_of_expr(v))
                nm = next((x for x in ast.walk(e) if isinstance(x, ast.Attribute) and x.attr == 'name'), None)
                if nm is not None:
                    o.refute(g, n, f"{what}: {src(nm)} inside the template of {src(n)[:40]}",
                             f"`{src(n)[:70]}` formats a template that already contains `{src(nm)}` (`{src(v)[:60]}`): braces / `%` in "
                             f"the task name are read as replacement fields, so the name can drop or alter the line or make "
                             f"rendering raise (expected the name to be passed as an argument of a constant template)")
                    bad = True
                    break
    return bad


def gantt_sinks(ctx, o):
    G = Gantt(ctx)
    f = G.f
    if template_sinks(ctx, o, f, 'gantt line'):
        return
    for e in G.lines:
        for role, t, chain in e.roles:
            if role != 'name':
                continue
            if removes(chain, ':'):
                o.site(f, e.stmt, f"gantt line: {src(t)}.name loses ':' ({chain})")
            elif any(isinstance(st, RegexStep) for st in chain):
                probe = surviving_probe(chain, ':')
                weak = next(st for st in chain if isinstance(st, RegexStep))
                if probe is None:
                    o.undecided(f, e.stmt, f"gantt line: name sanitiser {chain}",
                                f"the task name reaches the Gantt line through {chain}: the rule cannot tell whether the pattern "
                                f"{weak[0]!r} matches every `:` (accepted: `:` itself or one character class containing it)")
                else:
                    o.refute(f, e.stmt, f"gantt line: name sanitiser {chain}",
                             f"the task name reaches the Gantt line through {chain}: the pattern {weak[0]!r} does not match every "
                             f"`:` - the name {probe!r} keeps its `:`, which ends the name field, and the rest is parsed as "
                             f"flags/id/dates (expected every ':' to be removed, e.g. .replace(':', ..))")
            else:
                o.refute(f, e.stmt, f"gantt line: name sanitiser {chain}",
                         f"the task name reaches the Gantt line through {chain or 'no sanitiser'}: a `:` in the name ends the name "
                         f"field and the rest is parsed as flags/id/dates (expected .replace(':', ..))")
    if not any(r[0] == 'name' for e in G.lines for r in e.roles):
        o.undecided(f, f.node, 'gantt line: name', "no task name found in the task line")


# ------------------------------------------------------------------------------------------------------- mermaid network
class Edge:
    def __init__(self, e: Emission, f: Func):
        self.e, self.stmt = e, e.stmt
        if e.text.count('-->') != 1:
            raise Und(f, e.stmt, e.stmt, "an emission with several `-->` arrows")
        left, right, seen = [], [], False
        for k, v in e.parts:
            if k == 'lit' and '-->' in v and not seen:
                a, b = v.split('-->', 1)
                left.append(('lit', a))
                right.append(('lit', b))
                seen = True
            else:
                (right if seen else left).append((k, v))
        self.sides = []
        for side in (left, right):
            ids, names = [], []
            for v in vals(side):
                b, chain = sanitiser(v)
                m = match("$t.id", b)
                if m:
                    ids.append(m['t'])
                    continue
                m = match("$t.name", b)
                if m:
                    names.append((m['t'], chain))
                    continue
                raise Und(f, e.stmt, v, f"unrecognised value `{src(v)[:60]}` in an edge line")
            self.sides.append((ids, names, lits(side)))
        self.is_start = not self.sides[0][0] and not self.sides[0][1]


def check_memo(ctx, o, f: Func) -> bool:
    """a return path that hands back text kept on the object (`if self.cache[0] == key: return self.cache[1]`): every task
    attribute the rendering reads must take part in the key, otherwise a change of it re-renders the stale text"""
    s_ = f.self_name
    for r in walk_no_nested(f.node):
        if not (isinstance(r, ast.Return) and r.value is not None):
            continue
        root = r.value
        while isinstance(root, (ast.Subscript, ast.Attribute)):
            root = root.value
        if not (isinstance(root, ast.Name) and root.id == s_ and not isinstance(r.value, ast.Name)):
            continue
        key = None
        for a_, pol_ in facts.node_conditions(ctx.prog, f, r, ctx.typer, expand=False):
            if isinstance(a_, ast.Compare) and len(a_.ops) == 1 and isinstance(a_.ops[0], (ast.Eq, ast.Is)) and pol_:
                for side in (a_.left, a_.comparators[0]):
                    if isinstance(side, ast.Name):
                        d = flow_of(f).defs_of(side.id)
                        if len(d) == 1 and d[0].kind == 'assign' and d[0].value is not None:
                            key = d[0]
        if key is None:
            continue
        in_key = {x.attr for x in ast.walk(key.value) if isinstance(x, ast.Attribute)}
        callee = {id(x.func) for x in ast.walk(f.node) if isinstance(x, ast.Call)}
        read = set()
        for st in f.body:
            if st is key.stmt:
                continue
            for x in ast.walk(st):
                if isinstance(x, ast.Attribute) and id(x) not in callee and isinstance(x.ctx, ast.Load):
                    b_ = x
                    while isinstance(b_, (ast.Attribute, ast.Subscript)):
                        b_ = b_.value
                    if not (isinstance(b_, ast.Name) and b_.id == s_):
                        read.add(x.attr)
        missing = sorted(read - in_key - {'__dict__'})
        if missing:
            o.refute(f, r, f"{f.name}: cached text keyed without {', '.join(missing)}",
                     f"`{src(r)[:50]}` returns the text kept on the object when `{src(key.stmt)[:70]}` is unchanged, but the rendering "
                     f"also reads {', '.join('`.' + m_ + '`' for m_ in missing)} of the tasks: after such a change the stale "
                     f"rendering is returned (dependencies / attributes no longer real)")
            return True
    return False


def check_network(ctx, o, osk):
    f = canonical(ctx, ctx.prog.func(qual(NET, '__src')))
    template_sinks(ctx, osk, f, 'network edge')
    check_memo(ctx, o, f)
    n0 = _bad(o)
    w = wbs_attr(ctx, NET)
    acc = Acc(ctx, f)
    em = emissions(ctx, f, acc, lambda n: isinstance(n, ast.Constant) and isinstance(n.value, str) and '-->' in n.value)
    check_joined_lines(o, f, em, 'edge line')
    n0 = _bad(o)
    edges = [Edge(e, f) for e in em if '-->' in e.text]
    if not edges:
        blind = next((x for e in em for x in opaque_values(ctx, f, e)), None)
        if blind is not None:
            o.undecided(f, f.node, '__src: edges not found', f"no `-->` edge line is appended directly, but part of the text comes from "
                                                             f"`{src(blind)[:60]}`, which the rule cannot read")
        else:
            o.refute(f, f.node, '__src: no edge', "no `-->` edge line is ever appended to the flowchart source")
        return
    chains = loop_chains(f.node)
    cfg = cfg_of(f)
    groups: Dict[int, Tuple[ast.For, List[Tuple[Edge, List[ast.stmt]]]]] = {}
    for ed in edges:
        C = chains[id(ed.stmt)]
        T = next((L for L in C if isinstance(L, ast.For) and is_all_tasks(for_iter(ctx, f, L), f, w)), None)
        if T is None:
            if C and isinstance(C[0], ast.For):
                it = strip_seq(for_iter(ctx, f, C[0]))
                wrong = domain_problem(ctx, f, w, it)
                if wrong:
                    o.refute(f, C[0], C[0].iter, f"edges are emitted for `{src(it)[:70]}`, which is not every task of self.{w}.tasks: {wrong}")
                    continue
            o.undecided(f, ed.stmt, ed.stmt, "an edge line is emitted outside a loop over self.wbs.tasks")
            continue
        groups.setdefault(id(T), (T, []))[1].append((ed, C[C.index(T) + 1:]))
    if _bad(o) > n0:
        return
    keyed = getattr(f, '_c19_keyed', {})
    for ed in edges:
        if id(ed.stmt) not in keyed:
            continue
        key = deep(ctx, f, keyed[id(ed.stmt)], flow_of(f).node_of_expr(ed.stmt.value))
        for b_ in ed.sides[0][0] + ed.sides[1][0]:
            attrs = {x.attr for x in ast.walk(key) if isinstance(x, ast.Attribute) and same(x.value, b_)}
            if 'id' in attrs:
                continue
            if not any(same(x, b_) for x in ast.walk(key)):
                o.refute(f, ed.stmt, f"edge lines keyed by {src(key)[:60]}",
                         f"the edge lines are collected in a dict under the key `{src(key)[:80]}`, which does not depend on "
                         f"`{src(b_)}`: the edges of all `{src(b_)}` share one key and overwrite each other, only the last one is drawn")
                break
            if 'name' in attrs:
                o.refute(f, ed.stmt, f"edge lines keyed by {src(key)[:60]}",
                         f"the edge lines are collected in a dict under the key `{src(key)[:80]}`, which identifies `{src(b_)}` by its "
                         f"name and not by its id: names are not unique, so edges between different tasks with the same names "
                         f"overwrite each other and a dependency loses its edge (expected the ids of both ends in the key)")
            else:
                o.undecided(f, ed.stmt, f"edge lines keyed by {src(key)[:60]}",
                            f"the edge lines are collected in a dict under the key `{src(key)[:80]}`; cannot tell whether it "
                            f"distinguishes every `{src(b_)}`")
            break
    if _bad(o) > n0:
        return
    for T, eds in groups.values():
        if not isinstance(T.target, ast.Name):
            o.undecided(f, T, T, "task loop with a non-name target")
            continue
        t = T.target.id
        atoms: Dict[int, str] = {}
        ploops: Dict[int, Tuple[ast.For, List[Edge]]] = {}
        ok = True
        for ed, rest in eds:
            rid = ed.sides[1][0]
            if len(rid) != 1 or not match(t, rid[0]):
                o.refute(f, ed.stmt, ed.stmt, f"the edge does not end at the node of the loop's task (`{t}.id`): target is "
                                              f"`{', '.join(src(x) for x in rid) or 'constant'}`")
                ok = False
                continue
            if any(not same(nt, rid[0]) for nt, _ in ed.sides[1][1]):
                o.refute(f, ed.stmt, ed.stmt, "the target node is labelled with another task's name")
                ok = False
                continue
            if not rest:
                if ed.is_start:
                    atoms[id(ed.stmt)] = 'start'
                else:
                    o.refute(f, ed.stmt, ed.stmt, f"an edge from `{', '.join(src(x) for x in ed.sides[0][0])}` is emitted once per "
                                                  f"task, outside a loop over the task's predecessors")
                    ok = False
            elif len(rest) == 1 and isinstance(rest[0], ast.For):
                ploops.setdefault(id(rest[0]), (rest[0], []))[1].append(ed)
            else:
                o.undecided(f, ed.stmt, ed.stmt, "edge emitted in a loop nest deeper than task -> predecessor")
                ok = False
        for P, pes in ploops.values():
            it = strip_seq(for_iter(ctx, f, P))
            if not match(f"{t}.predecessors", it):
                m = match(f"{t}.$a", it)
                if m or isinstance(it, (ast.ListComp, ast.Subscript)):
                    o.refute(f, P, P.iter, f"dependency edges are emitted for `{src(it)[:60]}` instead of every element of "
                                           f"`{t}.predecessors`")
                else:
                    o.undecided(f, P, P.iter, f"cannot relate `{src(it)[:60]}` to `{t}.predecessors`")
                ok = False
                continue
            if not isinstance(P.target, ast.Name):
                o.undecided(f, P, P, "predecessor loop with a non-name target")
                ok = False
                continue
            p = P.target.id
            for ed in pes:
                lid, lnames, _ = ed.sides[0]
                if ed.is_start:
                    o.refute(f, ed.stmt, ed.stmt, "a Start edge is emitted once per predecessor")
                    ok = False
                elif len(lid) != 1 or not match(p, lid[0]):
                    o.refute(f, ed.stmt, ed.stmt, f"the edge does not start at the predecessor's node (`{p}.id`): source is "
                                                  f"`{', '.join(src(x) for x in lid)}`")
                    ok = False
                elif any(not same(nt, lid[0]) for nt, _ in lnames):
                    o.refute(f, ed.stmt, ed.stmt, "the source node is labelled with another task's name")
                    ok = False
            if ok and per_iteration(o, f, P, {id(ed.stmt): 'edge' for ed in pes}, 'edge', 'dependency edge'):
                atoms[id(P)] = 'ploop'
                o.site(f, P, f"one edge {p}.id --> {t}.id per element of {t}.predecessors")
            else:
                ok = False
        if not ok:
            continue
        # ---- which tasks get a Start edge / the dependency loop: truth table over the branch conditions of the task loop
        ps = [p for p in paths(T.body, atoms) if p.exit != 'raise']
        tpred = ast.parse(f"{t}.predecessors", mode='eval').body

        supersets = {}

        def grows_from_preds(x):
            """local collection seeded with t.predecessors and only ever extended: None | 'alias' | 'superset'"""
            if not isinstance(x, ast.Name):
                return None
            ds = flow_of(f).defs_of(x.id)
            seeds = [d for d in ds if d.kind == 'assign' and d.value is not None]
            if len(seeds) != 1 or any(d.kind not in ('assign', 'aug') for d in ds):
                return None
            v = deep(ctx, f, seeds[0].value, seeds[0].node)

            def has_seed(e):
                e = strip_seq(e)
                if isinstance(e, ast.Call) and isinstance(e.func, ast.Name) and e.func.id in ('set', 'frozenset') and len(e.args) == 1:
                    e = strip_seq(e.args[0])
                if same(e, tpred):
                    return True
                if isinstance(e, ast.BinOp) and isinstance(e.op, (ast.Add, ast.BitOr)):
                    return has_seed(e.left) or has_seed(e.right)
                if isinstance(e, (ast.List, ast.Tuple, ast.Set)):
                    return any(isinstance(el, ast.Starred) and has_seed(el.value) for el in e.elts)
                return False
            if not has_seed(v):
                return None
            if any(d.kind == 'aug' and not isinstance(d.stmt.op, (ast.Add, ast.BitOr)) for d in ds):
                return None
            grown = any(d.kind == 'aug' for d in ds) or not same(strip_seq(v), tpred)
            for n_ in walk_no_nested(f.node):
                if isinstance(n_, ast.Call) and isinstance(n_.func, ast.Attribute) and isinstance(n_.func.value, ast.Name) and \
                        n_.func.value.id == x.id:
                    if n_.func.attr in ('extend', 'append', 'update', 'add', 'insert'):
                        grown = True
                    elif n_.func.attr not in ('copy', 'count', 'index'):
                        return None
            return 'superset' if grown else 'alias'

        helper_rel = {}

        def helper_relation(call):
            """boolean helper h(t) that could not be inlined: {True: p, False: q} where p / q is the `t has predecessors`
            state that every `return True` / `return False` of h requires (None = no requirement); None = not analysable"""
            h = helper_of(ctx, f, call)
            if h is None:
                return None
            sub = _bind(h, call)
            prm = next((k_ for k_, a_ in (sub or {}).items() if isinstance(a_, ast.Name) and a_.id == t), None)
            if prm is None:
                return None
            hp = ast.parse(f"{prm}.predecessors", mode='eval').body
            # every mention of the task's predecessors inside h must be a recognised emptiness test of an `if`
            occ = {id(n_) for n_ in walk_no_nested(h.node, include_lambdas=True) if isinstance(n_, ast.Attribute) and same(n_, hp)}
            seen_occ = set()
            for st_ in walk_no_nested(h.node):
                if isinstance(st_, ast.If):
                    def atoms_(e_):
                        if isinstance(e_, ast.BoolOp):
                            return [y for v_ in e_.values for y in atoms_(v_)]
                        if isinstance(e_, ast.UnaryOp) and isinstance(e_.op, ast.Not):
                            return atoms_(e_.operand)
                        return [e_]
                    for a_ in atoms_(st_.test):
                        em2 = emptiness(a_)
                        if (em2 is not None and same(strip_seq(em2[0]), hp)) or same(strip_seq(a_), hp):
                            seen_occ |= {id(n_) for n_ in ast.walk(a_)}
            if occ - seen_occ:
                return None
            req = {True: [], False: []}
            rets = [r for r in walk_no_nested(h.node) if isinstance(r, ast.Return)]
            if not rets or any(p_.exit == 'fall' for p_ in paths(h.body, {})):
                return None
            for r in rets:
                if not (isinstance(r.value, ast.Constant) and isinstance(r.value.value, bool)):
                    return None
                state = None
                for a_, pol_ in facts.node_conditions(ctx.prog, h, r, ctx.typer):
                    em2 = emptiness(a_)
                    if em2 is not None and same(strip_seq(em2[0]), hp):
                        state = (not em2[1]) if pol_ else em2[1]
                    elif same(strip_seq(a_), hp):
                        state = pol_
                req[r.value.value].append(state)
            return {v: (xs[0] if xs and all(x == xs[0] for x in xs) else None) for v, xs in req.items()}

        def norm(atom):
            if isinstance(atom, ast.Call) and helper_of(ctx, f, atom) is not None:
                helper_rel[src(atom)] = helper_relation(atom)
                return src(atom), True
            em_ = emptiness(atom)
            if em_ is not None and same(strip_seq(em_[0]), tpred):
                return 'haspreds', not em_[1]
            if same(strip_seq(atom), tpred):
                return 'haspreds', True
            x_ = strip_seq(em_[0]) if em_ is not None else (atom if isinstance(atom, ast.Name) else None)
            kind = grows_from_preds(x_) if x_ is not None else None
            if kind == 'alias':
                return 'haspreds', (not em_[1]) if em_ is not None else True
            if kind == 'superset':
                key = f"{x_.id} is non-empty ({x_.id} = the task's predecessors plus further elements)"
                supersets[key] = x_.id
                return key, (not em_[1]) if em_ is not None else True
            return src(atom), True
        fms = []
        for p in ps:
            fm = []
            for test, pol in p.conds:
                x = deep(ctx, f, test, cfg.node_containing(test))
                fx = formula(x, norm)
                fm.append(fx if pol else ('not', fx))
            fms.append(('and', fm))
        keys = ['haspreds']
        for fm in fms:
            atoms_of(fm, keys)
        if len(keys) > 8:
            o.undecided(f, T, T, "too many distinct conditions in the task loop")
            continue
        local = {d.var for d in flow_of(f).defs if d.kind != 'param' and d.var != t}
        def names_of(k):
            try:
                tree = ast.parse(k, mode='eval')
            except SyntaxError:
                return set()
            bound = {x.id for n in ast.walk(tree) if isinstance(n, ast.comprehension) for x in ast.walk(n.target)
                     if isinstance(x, ast.Name)}
            return {n.id for n in ast.walk(tree) if isinstance(n, ast.Name)} - bound
        opaque_keys = [k for k in keys if k != 'haspreds' and k not in supersets and
                       ((names_of(k) & local) or (k in helper_rel and helper_rel[k] is None))]
        problems = {}
        for asg in assignments(keys):
            if any(asg['haspreds'] and not asg[k] for k in supersets):
                continue        # a superset of the predecessors cannot be empty when the task has predecessors
            if any(rel is not None and rel[asg[k]] is not None and rel[asg[k]] != asg['haspreds'] for k, rel in helper_rel.items()):
                continue        # the helper returns this value only for the other predecessor state
            hit = [p for p, fm in zip(ps, fms) if holds(fm, asg)]
            if len(hit) != 1:
                continue
            p = hit[0]
            side = ', '.join(f"{k} is {v}" for k, v in asg.items() if k != 'haspreds')
            if p.exit in ('break', 'return'):
                problems['left'] = f"the task loop is left by `{p.exit}`: later tasks get no edges"
                continue
            if p.count('opaque-loop', 'opaque'):
                problems['nested'] = None
                continue
            S, PL = p.count('start'), p.count('ploop')
            if not asg['haspreds']:
                if S == 0:
                    problems['no start'] = f"a task without predecessors gets no Start edge" + (f" when {side}" if side else '')
                elif S > 1:
                    problems['starts'] = f"a task without predecessors gets {S} Start edges"
            else:
                if S:
                    problems['start+preds'] = "a task that has predecessors also gets a Start edge (the Start edge is not " \
                                              "conditioned on `len(predecessors) == 0`)"
                if PL == 0:
                    problems['no deps'] = "the dependencies of a task are not emitted" + (f" when {side}" if side else '')
                elif PL > 1:
                    problems['deps twice'] = f"every dependency of a task is emitted {PL} times"
        if 'nested' in problems:
            o.undecided(f, T, "task loop: nested", "edge emission nested in a further loop / try")
            continue
        if problems and opaque_keys:
            o.undecided(f, T, f"task loop: {opaque_keys[0]}", f"the edges depend on the local condition `{opaque_keys[0]}` which "
                                                               f"the rule cannot relate to the predecessors")
            continue
        for kind, msg in problems.items():
            o.refute(f, T, f"task loop: {kind}", msg)
        if not problems:
            o.site(f, T, f"per task: exactly one Start edge iff no predecessors, else the dependency loop ({len(ps)} paths)")
    if _bad(o) > n0:
        return
    if once_per_call(o, f, {id(T): 'unit' for T, _ in groups.values()}, 'unit', 'loop emitting the edges of every task'):
        o.site(f, f.node, "every path through __src runs the edge loop over self.wbs.tasks exactly once")
    # ---- sinks (c): every name occurrence in an edge passes the same sanitiser, and that sanitiser removes the quote
    occ = [(ed, i, nt, chain) for ed in edges for i in (0, 1) for nt, chain in ed.sides[i][1]]
    if not occ:
        osk.undecided(f, f.node, 'network: names', "no task name found in the edge lines")
        return
    ref = None
    for ed, i, nt, chain in occ:
        if removes(chain, '"'):
            ref = chain
            break
    for ed, i, nt, chain in occ:
        side = 'source' if i == 0 else 'target'
        if not removes(chain, '"'):
            osk.refute(f, ed.stmt, f"network edge {side} label: {src(nt)}.name {chain}",
                       f"the {side} label `{src(nt)}.name` reaches the edge line through {chain or 'no sanitiser'}: a `\"` in the "
                       f"name breaks the node text" + (f" (the other label uses {ref})" if ref else ''))
        elif chain != ref:
            osk.refute(f, ed.stmt, f"network edge {side} label: {src(nt)}.name {chain}",
                       f"the {side} label is sanitised with {chain}, another label of the same node with {ref}: one node gets "
                       f"two different texts")
        else:
            osk.site(f, ed.stmt, f"network {'start' if ed.is_start else 'edge'} {side} label: {src(nt)}.name {chain}")


# ------------------------------------------------------------------------------------------------------- dhtmlx
def enumerated(loop: ast.For):
    """(index name, element name, iterated expression) of `for i, x in enumerate(X[, start])`"""
    it, tg = loop.iter, loop.target
    if isinstance(it, ast.Call) and isinstance(it.func, ast.Name) and it.func.id == 'enumerate' and 1 <= len(it.args) <= 2 and \
            all(k.arg == 'start' for k in it.keywords) and isinstance(tg, ast.Tuple) and len(tg.elts) == 2 and \
            all(isinstance(x, ast.Name) for x in tg.elts):
        return tg.elts[0].id, tg.elts[1].id, it.args[0]
    return None


def as_dict(e: ast.AST) -> ast.AST:
    """`dict(a=x, b=y)` read as the display `{'a': x, 'b': y}`"""
    if isinstance(e, ast.Call) and isinstance(e.func, ast.Name) and e.func.id == 'dict' and not e.args and e.keywords and \
            all(k.arg is not None for k in e.keywords):
        return ast.copy_location(ast.Dict(keys=[ast.Constant(value=k.arg) for k in e.keywords], values=[k.value for k in e.keywords]), e)
    return e


def origin(f: Func, e: ast.AST, at):
    """follow plain names to the expression they were (uniquely) assigned from: (original expr, cfg node)"""
    fl = flow_of(f)
    for _ in range(6):
        if isinstance(e, ast.Name) and at is not None:
            d = fl.unique_def(e.id, at)
            if d is not None and d.kind == 'assign' and d.value is not None and d.node is not at:
                e, at = d.value, d.node
                continue
        break
    return as_dict(e), at


def dict_items(d: ast.Dict) -> Optional[Dict[str, ast.AST]]:
    out = {}
    for k, v in zip(d.keys, d.values):
        if k is None or const_str(k) is None:
            return None
        out[const_str(k)] = v
    return out


def list_container(o, f: Func, name: str, payload: ast.AST):
    """appends [(stmt, arg)] of a list that is created empty once, outside loops, and otherwise only appended to"""
    cfg = cfg_of(f)
    inits, apps, consumed = [], [], set()
    for st in walk_no_nested(f.node):
        if isinstance(st, ast.Assign) and len(st.targets) == 1 and isinstance(st.targets[0], ast.Name) and st.targets[0].id == name:
            inits.append(st)
            consumed.add(id(st.targets[0]))
        elif isinstance(st, ast.AnnAssign) and isinstance(st.target, ast.Name) and st.target.id == name and st.value is not None:
            inits.append(st)
            consumed.add(id(st.target))
        elif isinstance(st, ast.Expr):
            m = match(f"{name}.append($x)", st.value)
            if m:
                apps.append((st, m['x']))
                consumed.add(id(st.value.func.value))
    # read-only uses are harmless: value of a dict display (the payload), len(..), truth tests
    for par in walk_no_nested(f.node, include_lambdas=True):
        kids = []
        if isinstance(par, ast.Dict):
            kids = par.values
        elif isinstance(par, ast.Call) and isinstance(par.func, ast.Name) and par.func.id in ('len', 'bool', 'print'):
            kids = par.args
        elif isinstance(par, (ast.If, ast.While, ast.IfExp)):
            kids = [par.test]
        if isinstance(par, ast.Call) and isinstance(par.func, ast.Name) and par.func.id == 'dict' and not par.args:
            kids = [k.value for k in par.keywords]
        for k in kids:
            if isinstance(k, ast.Name) and k.id == name:
                consumed.add(id(k))
    for n in walk_no_nested(f.node, include_lambdas=True):
        if isinstance(n, ast.Name) and n.id == name and id(n) not in consumed:
            st = stmt_of(f.node, n)
            raise Und(f, st or n, f"{name}: other use", f"the list `{name}` is also used as `{src(st or n)[:70]}`, which the rule does not model")
    if len(inits) != 1 or not (match("[]", inits[0].value) or match("list()", inits[0].value)):
        raise Und(f, f.node, f"{name}: init", f"the list `{name}` is not created exactly once as an empty list")
    n0 = cfg.node_of(inits[0])
    if cfg.enclosing_loops(n0):
        o.refute(f, inits[0], f"{name} = [] in loop", f"the list `{name}` is re-created inside a loop: entries of earlier iterations are dropped")
        return None
    return apps


def check_dhtmlx(ctx, O):
    o, oj, ofm, osk = O['once'], O['json'], O['formats'], O['sinks']
    prog = ctx.prog
    f = canonical(ctx, prog.func(qual(DHX, '__data')), lists=True)
    w = wbs_attr(ctx, DHX)
    cfg, fl = cfg_of(f), flow_of(f)
    chains = loop_chains(f.node)
    s = f.self_name
    rets = [r for r in walk_no_nested(f.node) if isinstance(r, ast.Return)]
    if len(rets) != 1 or rets[0].value is None:
        raise Und(f, f.node, '__data: return', "__data does not have exactly one `return <text>`")
    ret = rets[0]
    containers = {st.targets[0].id for st in walk_no_nested(f.node)
                  if isinstance(st, ast.Assign) and len(st.targets) == 1 and isinstance(st.targets[0], ast.Name)
                  and (match("[]", st.value) or match("list()", st.value))}
    R = Expander(prog, f, ctx.typer).expand(ret.value, stop=containers)
    base_, chain = sanitiser(R)
    for _ in range(3):
        # `return self.__to_json({...}, indent=2)`: a serialising helper with one return (extra keywords go to its **kwargs)
        h = helper_of(ctx, f, base_) if isinstance(base_, ast.Call) else None
        if h is None or h == f or not isinstance(h.node, ast.FunctionDef):
            break
        body = single_return_value(ctx, h)
        a_ = h.node.args
        params = [x.arg for x in a_.posonlyargs + a_.args]
        args = ([base_.func.value] if h.kind in ('method', 'classmethod') else []) + list(base_.args)
        if body is None or len(args) > len(params) or any(isinstance(x, ast.Starred) for x in args):
            break
        sub = dict(zip(params, args))
        for k in base_.keywords:
            if k.arg in params and k.arg not in sub:
                sub[k.arg] = k.value
            elif not (a_.kwarg and k.arg is not None):
                sub = None
                break
        if sub is None or any(p_ not in sub for p_ in params[:len(params) - len(a_.defaults)]):
            break
        inner, chain2 = sanitiser(subst(body, sub))
        base_, chain = inner, chain2 + chain
    has_json = f.module.imports.get('json') == 'json'
    m = None
    if isinstance(base_, ast.Call) and len(base_.args) == 1 and (
            (has_json and match("json.dumps", base_.func)) or
            (f.module.imports.get('dumps') == 'json.dumps' and match("dumps", base_.func))):
        m = {'p': base_.args[0]}
    if not m:
        if isinstance(base_, (ast.JoinedStr, ast.BinOp)) or (isinstance(base_, ast.Call) and getattr(base_.func, 'attr', '') in ('format', 'join')):
            oj.refute(f, ret, 'payload: manual text', f"the DHTMLX payload is assembled as text (`{src(base_)[:70]}`) instead of "
                                                      f"json.dumps of Python containers: quotes/backslashes in names break the JSON")
        else:
            oj.undecided(f, ret, ret, f"the returned payload `{src(base_)[:70]}` is not json.dumps(..)")
        return
    P = as_dict(m['p'])
    items = dict_items(P) if isinstance(P, ast.Dict) else None
    if items is not None and {'data', 'links'} <= set(items):
        for k in ('data', 'links'):
            pth = attr_path(items[k]) if isinstance(items[k], ast.Attribute) else None
            if pth and pth.split('.')[0] == s:
                oj.site(f, ret, f"payload = json.dumps({{.., '{k}': {unmangle(pth)}}})")
                o.refute(f, ret, f"payload {k}: {unmangle(pth)}",
                         f"the `{k}` list of the payload is the instance attribute `{unmangle(pth)}`, not a list created by this "
                         f"call: it is not emptied between renderings, so a second to_html()/_repr_html_() repeats every "
                         f"{'entry' if k == 'data' else 'link'} (expected a fresh local list per call)")
                return
    if items is None or not {'data', 'links'} <= set(items) or not all(isinstance(items[k], ast.Name) for k in ('data', 'links')):
        oj.undecided(f, ret, P, "json.dumps argument is not a dict literal {'data': <list>, 'links': <list>}")
        return
    kw = {k.arg: k.value for k in base_.keywords}
    if 'default' in kw or 'cls' in kw:
        oj.undecided(f, ret, ret, "json.dumps with a custom encoder")
        return
    A, B = items['data'].id, items['links'].id
    oj.site(f, ret, f"payload = json.dumps({{'data': {A}, 'links': {B}}})")

    # ---- every rewrite of the json.dumps result must keep it JSON: the replacement is a JSON spelling of the replaced text
    import json as _json
    for a_, b_ in chain:
        try:
            raw_a = _json.loads('"' + a_ + '"')
        except ValueError:
            raw_a = a_
        try:
            same_text = _json.loads('"' + b_ + '"') == raw_a
        except ValueError:
            bad_esc = re.search(r'\\(?!["\\/bfnrt]|u[0-9a-fA-F]{4})(.?)', b_)
            oj.refute(f, ret, f"json.dumps(..).replace({a_!r}, {b_!r})",
                      f"`.replace({a_!r}, {b_!r})` on the json.dumps result writes "
                      f"{('`' + chr(92) + bad_esc.group(1) + '`, which is not a JSON escape') if bad_esc else 'text that is not a JSON string fragment'}"
                      f" (JSON allows only \\\" \\\\ \\/ \\b \\f \\n \\r \\t \\uXXXX): the embedded data is no longer well-formed JSON")
            continue
        if not same_text:
            oj.refute(f, ret, f"json.dumps(..).replace({a_!r}, {b_!r})",
                      f"`.replace({a_!r}, {b_!r})` on the json.dumps result changes the text itself ({a_!r} becomes "
                      f"{_json.loads(chr(34) + b_ + chr(34))!r} after JSON decoding): names containing it are altered")

    # ---- sinks (b): `</` neutralised after json.dumps; the placeholder sits in a <script> element
    good = [(a, b) for a, b in chain if a in ('<', '/', '</') and '</' not in b and b != a and a not in b]
    if good:
        osk.site(f, ret, f"json.dumps(..).replace({good[0][0]!r}, {good[0][1]!r}) neutralises `</` inside <script>")
    else:
        osk.refute(f, ret, f"json.dumps(..){''.join('.replace(%r, %r)' % c for c in chain)}",
                   f"the JSON text is embedded in a <script> element {('with only ' + str(chain)) if chain else 'as produced by json.dumps'}: "
                   f"`</script>` (any case) inside a task name, resource or custom attribute closes the script block; expected "
                   f".replace('</', '<\\\\/') (or escaping of `<` or `/`) on the json.dumps result")
    try:
        tf, tc, tpl, kws, _ = substitute_call(ctx, DHX)
        rel, text = template_text(ctx, tf, tpl)
        ph = [k for k, v in kws.items() if any(isinstance(x, ast.Call) and helper_of(ctx, tf, x) == f for x in ast.walk(v))]
        if text is not None and len(ph) == 1:
            pos = [mm.start() for mm in _PLACEHOLDER.finditer(text) if (mm.group('named') or mm.group('braced')) == ph[0]]
            low = text.lower()
            for p_ in pos:
                inside = low.rfind('<script', 0, p_) > low.rfind('</script', 0, p_)
                quoted = text[:p_].rstrip()[-1:] in ('"', "'", '`')
                if inside and not quoted:
                    osk.site(tf, tc, f"${ph[0]} is a bare JavaScript expression inside <script> of {rel}")
                elif inside:
                    osk.refute(tf, tc, f"{rel}: quoted ${ph[0]}", f"${ph[0]} is placed inside a JavaScript string literal in {rel}: "
                                                                   f"quotes in names end the literal")
                else:
                    osk.undecided(tf, tc, f"{rel}: ${ph[0]}", f"${ph[0]} is not inside a <script> element")
    except Und as u:
        osk.undecided(u.func, u.node, u.construct, u.msg)

    # ---- containers and loops
    dapps = list_container(o, f, A, P)
    lapps = list_container(o, f, B, P)
    if dapps is None or lapps is None:
        return
    if not dapps:
        o.refute(f, f.node, f"{A}.append: none", f"nothing is ever appended to `{A}`: the document has no task entries")
        return

    def hdr(L):
        return f"for {src(L.target)} in {src(L.iter)}" if isinstance(L, ast.For) else 'while ..'

    def domain(C, what, st):
        """task loop T of a chain of enclosing loops, or None after recording the verdict"""
        if not C:
            o.refute(f, st, f"{what}: outside loops", f"`{src(st)[:60]}` runs outside every loop: one {what} per document instead of "
                                                       f"one per task")
            return None
        L0 = C[0]
        if not (isinstance(L0, ast.For) and isinstance(L0.target, ast.Name)):
            o.undecided(f, L0, L0, "outer loop is not `for <name> in ..`")
            return None
        it0 = strip_seq(for_iter(ctx, f, L0))
        if is_all_tasks(it0, f, w):
            return L0, C[1:], [L0]
        if match(f"{s}.{w}.roots", it0):
            r = L0.target.id
            if len(C) < 2:
                o.refute(f, st, f"{what}: per root", f"`{src(st)[:60]}` runs once per root of the WBS (`{hdr(L0)}`), not once per "
                                                     f"task of the root's subtree")
                return None
            L1 = C[1]
            if not (isinstance(L1, ast.For) and isinstance(L1.target, ast.Name)):
                o.undecided(f, L1, L1, "inner loop is not `for <name> in ..`")
                return None
            it1 = strip_seq(for_iter(ctx, f, L1))
            full = match(f"{r}.all_children + [{r}]", it1) or \
                match(f"[{r}, *{r}.all_children]", it1) or match(f"[*{r}.all_children, {r}]", it1) or \
                match(f"list({r}.all_children) + [{r}]", it1) or match(f"[{r}] + list({r}.all_children)", it1)
            if full:
                return L1, C[2:], [L0, L1]
            if match(f"[{r}] + {r}.all_children", it1):
                if any('__radd__' in c.methods for c in prog.mro('_ImmutableTaskList')):
                    return L1, C[2:], [L0, L1]
                o.refute(f, L1, L1.iter, f"`[{r}] + {r}.all_children` raises TypeError: the task list type defines __add__ but no "
                                         f"__radd__, so a plain list cannot be the left operand (nothing is rendered)")
                return None
            if match(f"{r}.all_children", it1):
                o.refute(f, L1, L1.iter, f"`{hdr(L1)}` omits the root `{r}` itself: root tasks get no entry (expected all_children + [root])")
            elif match(f"{r}.children + [{r}]", it1) or match(f"[{r}] + {r}.children", it1) or match(f"{r}.children", it1):
                o.refute(f, L1, L1.iter, f"`{hdr(L1)}` visits only direct children: deeper tasks get no entry (expected all_children + [root])")
            elif match(f"[{r}]", it1):
                o.refute(f, L1, L1.iter, f"`{hdr(L1)}` visits only the root")
            elif match(f"{r}.predecessors", it1) or match(f"{r}.successors", it1):
                o.refute(f, L0, L0.iter, f"`{hdr(L0)}` / `{hdr(L1)}` handles only the root tasks of the WBS: the {what} of every deeper "
                                         f"task is missing (expected a loop over the root's all_children + [root], or self.{w}.tasks)")
            else:
                o.undecided(f, L1, L1.iter, f"cannot tell whether `{src(it1)[:60]}` enumerates the subtree of `{r}` exactly once")
            return None
        wrong = domain_problem(ctx, f, w, it0)
        if wrong:
            o.refute(f, L0, L0.iter, f"`{hdr(L0)}` does not enumerate every task of the WBS: {wrong}")
            return None
        o.undecided(f, L0, L0.iter, f"cannot tell whether `{src(it0)[:60]}` enumerates every task exactly once")
        return None

    T = None
    for st, arg in dapps:
        dom = domain(chains[id(st)], 'entry', st)
        if dom is None:
            return
        L, rest, loops = dom
        if rest:
            o.refute(f, st, f"{A}.append: per {hdr(rest[-1])}", f"`{src(st)[:50]}` sits inside `{hdr(rest[-1])}`: a task gets one entry "
                                                                 f"per element of that loop, not exactly one")
            return
        if T is not None and T[0] is not L:
            o.undecided(f, st, st, f"`{A}` is filled by two different task loops")
            return
        T = (L, loops)
    L, loops = T
    t = L.target.id
    if not per_iteration(o, f, L, {id(st): 'entry' for st, _ in dapps}, 'entry', f"{A}.append"):
        return
    if len(loops) == 2 and not per_iteration(o, f, loops[0], {id(L): 'subtree'}, 'subtree', 'loop over the root\'s subtree'):
        return
    if not once_per_call(o, f, {id(loops[0]): 'unit'}, 'unit', 'loop appending the task entries'):
        return
    o.site(f, L, f"one {A}.append per task: " + ' / '.join(hdr(x) for x in loops))

    # ---- links: one per predecessor, uniquely numbered
    if not lapps:
        o.refute(f, f.node, f"{B}.append: none", f"nothing is ever appended to `{B}`: dependencies are not rendered")
        return
    Pl = None
    Lk, kloops, tk = L, loops, t
    data_loops = loops
    for st, arg in lapps:
        C = chains[id(st)]
        if len(C) >= len(data_loops) and all(a is b for a, b in zip(data_loops, C)):
            rest = C[len(data_loops):]
        else:
            # a second pass over the tasks: it must be a complete task loop of its own
            if not C:
                o.refute(f, st, f"{B}.append: outside the task loop", f"`{src(st)[:50]}` is not executed per task and predecessor "
                                                                       f"(enclosing loops: none)")
                return
            dom = domain(C, 'link', st)
            if dom is None:
                return
            L2, rest, loops2 = dom
            if kloops is not data_loops and loops2[0] is not kloops[0]:
                o.undecided(f, st, st, f"`{B}` is filled by two different task loops")
                return
            if kloops is data_loops:
                if len(loops2) == 2 and not per_iteration(o, f, loops2[0], {id(L2): 'subtree'}, 'subtree', 'loop over the root\'s subtree'):
                    return
                if not once_per_call(o, f, {id(loops2[0]): 'unit'}, 'unit', 'loop appending the links'):
                    return
            Lk, kloops = L2, loops2
            tk = Lk.target.id
        if len(rest) == 1 and isinstance(rest[0], ast.For) and enumerated(rest[0]) is not None:
            pass
        elif len(rest) != 1 or not isinstance(rest[0], ast.For) or not isinstance(rest[0].target, ast.Name):
            if not rest:
                o.refute(f, st, f"{B}.append: per task", f"`{src(st)[:50]}` runs once per task, outside a loop over the task's "
                                                         f"predecessors: not one link per dependency")
            else:
                o.undecided(f, st, st, "link appended in an unexpected loop nest")
            return
        if Pl is not None and Pl is not rest[0]:
            o.undecided(f, st, st, "links are appended by two predecessor loops")
            return
        Pl = rest[0]
    en = enumerated(Pl)                   # for i, p in enumerate(t.predecessors[, k])
    pidx = en[0] if en else None
    itp = strip_seq(deep(ctx, f, en[2], flow_of(f).node_of_expr(Pl.iter))) if en else strip_seq(for_iter(ctx, f, Pl))
    if not match(f"{tk}.predecessors", itp):
        if match(f"{tk}.$a", itp) or isinstance(itp, (ast.ListComp, ast.Subscript)):
            o.refute(f, Pl, Pl.iter, f"links are produced for `{src(itp)[:60]}` instead of every element of `{tk}.predecessors`")
        else:
            o.undecided(f, Pl, Pl.iter, f"cannot relate `{src(itp)[:60]}` to `{tk}.predecessors`")
        return
    p = en[1] if en else Pl.target.id
    if not per_iteration(o, f, Pl, {id(st): 'link' for st, _ in lapps}, 'link', f"{B}.append"):
        return
    if not per_iteration(o, f, Lk, {id(Pl): 'ploop'}, 'ploop', 'loop over the predecessors'):
        return
    o.site(f, Pl, f"one {B}.append per `{p}` of {tk}.predecessors")
    counter_ok = True
    for st, arg in lapps:
        d0, at = origin(f, arg, fl.node_of_expr(arg))
        it = dict_items(d0) if isinstance(d0, ast.Dict) else None
        if it is None or not {'id', 'source', 'target'} <= set(it):
            o.undecided(f, st, arg, "the link is not a dict literal with id/source/target")
            counter_ok = False
            continue
        sv, tv = deep(ctx, f, it['source'], at), deep(ctx, f, it['target'], at)
        if match(f"{tk}.id", sv) and match(f"{p}.id", tv):
            o.refute(f, st, "link: source/target swapped", f"the link runs from the task to its predecessor (source={tk}.id, "
                                                           f"target={p}.id): the dependency is reversed")
            counter_ok = False
        elif not (match(f"{p}.id", sv) and match(f"{tk}.id", tv)):
            o.refute(f, st, f"link: source={src(sv)} target={src(tv)}", f"the link is source=`{src(sv)}`, target=`{src(tv)}`; "
                                                                        f"expected source={p}.id (predecessor), target={tk}.id")
            counter_ok = False
        if 'type' in it:
            ty = it['type']
            if isinstance(ty, ast.Constant) and str(ty.value) != '0':
                o.refute(f, st, f"link: type {ty.value!r}", f"link type {ty.value!r} is not finish-to-start (\"0\"): the predecessor "
                                                           f"relation is drawn as another kind of dependency")
                counter_ok = False
        # numbering
        idv = it['id']
        if match(f"len({B}) + $k", idv) or match(f"len({B})", idv) or match(f"$k + len({B})", idv):
            o.site(f, st, f"link id = {src(idv)} (grows with every append)")
            continue
        if pidx is not None and any(isinstance(x, ast.Name) and x.id == pidx for x in ast.walk(idv)) and \
                not any(isinstance(x, ast.Name) and x.id != pidx and x.id not in (tk, p) for x in ast.walk(idv)):
            o.refute(f, st, f"link id: {src(idv)} from {src(Pl.iter)[:40]}",
                     f"link id `{src(idv)}` is the position of the predecessor inside `{src(Pl.iter)[:50]}`: numbering restarts for every "
                     f"task, so link ids are not unique (expected a counter that runs over all links)")
            counter_ok = False
            continue
        leaves = []

        def id_leaves(e):
            if isinstance(e, ast.IfExp):
                id_leaves(e.body)
                id_leaves(e.orelse)
                return
            while isinstance(e, ast.Call) and isinstance(e.func, ast.Name) and e.func.id in ('int', 'str') and len(e.args) == 1:
                e = e.args[0]
            leaves.append(e)
        id_leaves(deep(ctx, f, idv, at))
        glued = None
        for lf in leaves:
            ps_ = parts(lf)
            if len(ps_) == 1 and ps_[0][0] == 'val' and isinstance(ps_[0][1], ast.BinOp) and isinstance(ps_[0][1].op, ast.Add):
                ps_ = [q for piece in _concat(ps_[0][1]) for q in parts(piece)]      # str(a) + str(b)
            idvals = [k_ for k_, (kd, v_) in enumerate(ps_) if kd == 'val' and (match(f"{p}.id", sanitiser(v_)[0]) or
                                                                                  match(f"{tk}.id", sanitiser(v_)[0]))]
            if len(idvals) >= 2 and len(idvals) == len(vals(ps_)) and any(b2 == a2 + 1 for a2, b2 in zip(idvals, idvals[1:])):
                glued = lf
        if glued is not None:
            o.refute(f, st, f"link id: {src(glued)[:50]}",
                     f"link id `{src(glued)[:60]}` glues the ids of the two ends together without a separator: different "
                     f"dependencies can produce the same text (ids 1,23 and 12,3), so link ids are not unique (expected a "
                     f"running counter or len({B}) + 1)")
            counter_ok = False
            continue
        mn = match("next($c)", idv)
        if mn and isinstance(mn['c'], ast.Name):
            c = mn['c'].id
            ds = fl.defs_of(c)
            cnt = ds[0].value if len(ds) == 1 and ds[0].kind == 'assign' else None
            is_count = cnt is not None and (
                (f.module.imports.get('count') == 'itertools.count' and isinstance(cnt, ast.Call) and match("count", cnt.func)) or
                (f.module.imports.get('itertools') == 'itertools' and isinstance(cnt, ast.Call) and match("itertools.count", cnt.func)))
            uses = [x for x in walk_no_nested(f.node, include_lambdas=True) if isinstance(x, ast.Name) and x.id == c and
                    isinstance(x.ctx, ast.Load)]
            nexts = [x for x in walk_no_nested(f.node, include_lambdas=True) if isinstance(x, ast.Call) and match(f"next({c})", x)]
            if not is_count or len(uses) != len(nexts):
                o.undecided(f, st, idv, f"link id `{src(idv)}`: `{c}` is not a single itertools.count(..) used only through next()")
                counter_ok = False
            elif cfg.enclosing_loops(ds[0].node):
                lp = chains[id(ds[0].stmt)]
                o.refute(f, ds[0].stmt, f"{c} = {src(cnt)} inside a loop",
                         f"link counter `{c} = {src(cnt)}` is created inside `{hdr(lp[-1]) if lp else 'a loop'}`: numbering restarts on "
                         f"every iteration and link ids are no longer unique (expected one counter created before all loops)")
                counter_ok = False
            elif not cfg.dominates(ds[0].node, cfg.node_of(Pl)):
                o.refute(f, ds[0].stmt, f"{c}: init after use", f"link counter `{c}` is not created before the link loop on every path")
                counter_ok = False
            else:
                o.site(f, st, f"link id = next({c}), {c} = {src(cnt)} created once before all loops: every id is fresh")
            continue
        if not isinstance(idv, ast.Name):
            o.undecided(f, st, idv, f"link id `{src(idv)}` is neither a counter variable nor len({B})+k")
            counter_ok = False
            continue
        c = idv.id
        inits, incs = [], []
        for d in fl.defs_of(c):
            if d.kind == 'assign' and d.value is not None and facts.const_num(d.value) is not None:
                inits.append(d)
            elif d.kind == 'aug' and isinstance(d.stmt.op, ast.Add) and (facts.const_num(d.stmt.value) or 0) > 0:
                incs.append(d)
            elif d.kind == 'assign' and d.value is not None and (
                    (match(f"{c} + $k", d.value) and (facts.const_num(match(f"{c} + $k", d.value)['k']) or 0) > 0) or
                    (match(f"$k + {c}", d.value) and (facts.const_num(match(f"$k + {c}", d.value)['k']) or 0) > 0)):
                incs.append(d)
            elif d.kind == 'aug':
                o.refute(f, d.stmt, d.stmt, f"the link counter is updated by `{src(d.stmt)}`, which does not step it forward")
                counter_ok = False
            else:
                o.undecided(f, d.stmt or f.node, f"{c}: def", f"link counter `{c}` is defined in a way the rule does not model")
                counter_ok = False
        if not counter_ok:
            continue
        if len(inits) != 1:
            if not inits:
                o.undecided(f, st, f"{c}: init", f"link counter `{c}` is never initialised with a constant")
            else:
                o.refute(f, inits[1].stmt, f"{c}: initialised {len(inits)} times", f"link counter `{c}` is initialised "
                         f"{len(inits)} times: numbering restarts and link ids repeat")
            counter_ok = False
            continue
        inner = cfg.enclosing_loops(inits[0].node)
        if inner:
            lp = chains[id(inits[0].stmt)]
            o.refute(f, inits[0].stmt, f"{c} = {src(inits[0].value)} inside a loop",
                     f"link counter `{c}` is initialised inside `{hdr(lp[-1]) if lp else 'a loop'}`: numbering restarts on every "
                     f"iteration and link ids are no longer unique (expected one initialisation before all loops)")
            counter_ok = False
            continue
        if not cfg.dominates(inits[0].node, cfg.node_of(Pl)):
            o.refute(f, inits[0].stmt, f"{c}: init after use", f"link counter `{c}` is not initialised before the link loop on every path")
            counter_ok = False
            continue
        if not incs:
            o.refute(f, st, f"{c}: never incremented", f"link counter `{c}` is never incremented: every link gets id {src(inits[0].value)}")
            counter_ok = False
            continue
        outside = [d for d in incs if not (chains[id(d.stmt)] and chains[id(d.stmt)][-1] is Pl)]
        if outside:
            lp = chains[id(outside[0].stmt)]
            o.refute(f, outside[0].stmt, f"{c} += outside the link loop",
                     f"link counter `{c}` is incremented {('in `' + hdr(lp[-1]) + '`') if lp else 'outside every loop'}, not once per "
                     f"link: links of one task share an id")
            counter_ok = False
            continue
        if per_iteration(o, f, Pl, {id(d.stmt): 'inc' for d in incs}, 'inc', f"increment of {c}"):
            before = all(cfg.dominates(d.node, cfg.node_of(st)) for d in incs) if len(incs) == 1 else None
            o.site(f, st, f"link id = {c}: initialised once before all loops, incremented exactly once per link "
                          f"({'before' if before else 'around'} its use)")
        else:
            counter_ok = False

    # ---- entry content (json) and date formats
    for st, arg in dapps:
        d0, at = origin(f, arg, fl.node_of_expr(arg))
        it = dict_items(d0) if isinstance(d0, ast.Dict) else None
        if it is None:
            oj.undecided(f, st, arg, "the task entry is not a dict literal with constant keys")
            continue
        need = ('id', 'text', 'start_date', 'end_date', 'parent', 'progress')
        miss = [k for k in need if k not in it]
        if miss:
            oj.refute(f, st, f"entry: no {miss[0]}", f"the task entry has no `{miss[0]}` key (dhtmlxGantt reads {', '.join(need)})")
            continue
        ex = {k: deep(ctx, f, it[k], at) for k in need if k != 'progress'}
        ex['parent'] = merge_defs(ctx, f, ex['parent'], at)
        if not match(f"{t}.id", ex['id']):
            oj.refute(f, st, f"entry id: {src(ex['id'])[:40]}", f"entry id is `{src(ex['id'])[:50]}`, expected {t}.id")
            continue
        nb, nchain = sanitiser(ex['text'])
        if match(f"{t}.name", nb) and not nchain:
            oj.site(f, st, f"entry text = {t}.name, quoted by json.dumps only")
        elif any(k == 'lit' for k, _ in parts(ex['text'])) or nchain:
            oj.refute(f, st, f"entry text: {src(ex['text'])[:50]}", f"the task name is pre-processed (`{src(ex['text'])[:60]}`) before "
                                                                      f"json.dumps: the displayed name is altered")
            continue
        else:
            oj.refute(f, st, f"entry text: {src(ex['text'])[:50]}", f"entry text is `{src(ex['text'])[:60]}`, expected {t}.name")
            continue
        # dates
        okd = True
        for key, attr in (('start_date', 'start'), ('end_date', 'end')):
            mm = match(f"{t}.$a.strftime($f)", ex[key])
            if not mm:
                oj.undecided(f, st, ex[key], f"`{key}` is not {t}.{attr}.strftime(<format>)")
                okd = False
            elif mm['a'] != attr:
                oj.refute(f, st, f"entry {key}: {t}.{mm['a']}", f"`{key}` is taken from {t}.{mm['a']} instead of {t}.{attr}")
                okd = False
            else:
                fm = check_date_format(ofm, f, st, f"the entry's {key}", mm['f'])
                if fm is None:
                    okd = False
                    continue
                text = DHX.get('template') or ''
                cm = re.search(r'(?:date_format|xml_date)\s*=\s*["\']([^"\']+)["\']', text)
                want = cm.group(1).replace('%i', '%M') if cm else _DHTMLX_DEFAULT_DATE
                if fm != want:
                    ofm.refute(f, st, f"entry {key}: strftime({fm!r})", f"`{key}` is written with {fm!r} but dhtmlxGantt parses task "
                                                                          f"dates with {'its configured' if cm else 'its default'} "
                                                                          f"date_format {want.replace('%M', '%i')!r} (%i = minutes)")
                    okd = False
                else:
                    ofm.site(f, st, f"{key}: strftime({fm!r}) == dhtmlx date_format")
        if okd:
            oj.site(f, st, f"start_date/end_date = {t}.start/{t}.end")
        # later stores into the entry must not overwrite the keys above (custom attributes are copied into it)
        if isinstance(arg, ast.Name):
            ev = arg.id
            for n in [x for b in L.body for x in walk_no_nested(b)]:
                if isinstance(n, ast.Call) and isinstance(n.func, ast.Attribute) and isinstance(n.func.value, ast.Name) and \
                        n.func.value.id == ev and n.func.attr in ('update', 'setdefault', 'pop', 'clear', '__setitem__'):
                    if n.func.attr == 'update' and len(n.args) == 1 and not n.keywords and isinstance(n.args[0], ast.Name):
                        check_update(ctx, oj, f, L, n, ev, n.args[0].id, need)
                    elif n.func.attr == 'update' and len(n.args) == 1 and not n.keywords and isinstance(n.args[0], ast.DictComp):
                        dc = n.args[0]
                        kc = const_str(dc.key)
                        ks = src(dc.key)
                        conds = [c_ for g_ in dc.generators for t_ in g_.ifs for c_ in facts.split_conj(t_, True)]
                        if kc is not None:
                            if kc in need:
                                oj.refute(f, n, n, f"`{src(n)[:60]}` overwrites the entry's `{kc}` after it was computed")
                        elif any((match(f"{ks} not in {ev}", a) and pol) or (match(f"{ks} in {ev}", a) and not pol) for a, pol in conds):
                            oj.site(f, n, f"custom attributes are copied only under `{ks} not in {ev}`: id/text/dates/parent/progress are kept")
                        else:
                            oj.refute(f, n, n, f"`{src(n)[:70]}` does not filter its keys with `{ks} not in {ev}`: a task attribute named "
                                               f"id, text, parent, progress, start_date or end_date replaces the computed entry field")
                    elif n.func.attr != 'setdefault':
                        oj.undecided(f, n, n, f"the entry is modified by `{src(n)[:60]}`")
                    continue
                if not isinstance(n, (ast.Assign, ast.AugAssign)):
                    continue
                for tg in (n.targets if isinstance(n, ast.Assign) else [n.target]):
                    if not (isinstance(tg, ast.Subscript) and isinstance(tg.value, ast.Name) and tg.value.id == ev):
                        continue
                    kc = const_str(tg.slice)
                    if kc is not None:
                        if kc in need:
                            oj.refute(f, n, n, f"`{src(n)[:60]}` overwrites the entry's `{kc}` after it was computed")
                        continue
                    ks = src(tg.slice)
                    conds = facts.node_conditions(prog, f, n, ctx.typer, expand=False)
                    if any((match(f"{ks} not in {ev}", a) and pol) or (match(f"{ks} in {ev}", a) and not pol) for a, pol in conds):
                        oj.site(f, n, f"custom attributes are copied only under `{ks} not in {ev}`: id/text/dates/parent/progress are kept")
                    else:
                        oj.refute(f, n, n, f"`{src(n)[:60]}` is not guarded by `{ks} not in {ev}`: a task attribute named id, text, "
                                           f"parent, progress, start_date or end_date replaces the computed entry field")
        check_parent(ctx, oj, f, st, ex['parent'], t, w)
        check_progress(ctx, oj, f, st, it['progress'], at, t)


def check_update(ctx, oj, f: Func, L, call: ast.Call, ev: str, D: str, need):
    """`entry.update(D)`: D is a dict created empty in the task loop and filled only by `D[k] = ..` under `k not in entry`"""
    inits, stores, other = [], [], []
    used = {id(call.args[0])}
    for n in [x for b in L.body for x in walk_no_nested(b)]:
        if isinstance(n, ast.Assign) and len(n.targets) == 1:
            tg = n.targets[0]
            if isinstance(tg, ast.Name) and tg.id == D:
                inits.append(n)
                used.add(id(tg))
            elif isinstance(tg, ast.Subscript) and isinstance(tg.value, ast.Name) and tg.value.id == D:
                stores.append((n, tg))
                used.add(id(tg.value))
    other = [n for n in walk_no_nested(f.node, include_lambdas=True) if isinstance(n, ast.Name) and n.id == D and id(n) not in used]
    if other or len(inits) != 1 or not (match("{}", inits[0].value) or match("dict()", inits[0].value)):
        oj.undecided(f, call, call, f"the entry is modified by `{src(call)[:60]}` and `{D}` is not a dict created empty and filled by "
                                    f"`{D}[key] = ..` only")
        return
    # the entry itself must not change while D is collected (its keys are the reserved ones)
    for n in [x for b in L.body for x in walk_no_nested(b)]:
        if isinstance(n, ast.Call) and isinstance(n.func, ast.Attribute) and isinstance(n.func.value, ast.Name) and \
                n.func.value.id == ev and n.func.attr in ('pop', 'clear', 'popitem') or \
                isinstance(n, ast.Delete) and any(isinstance(x, ast.Name) and x.id == ev for x in ast.walk(n)):
            oj.undecided(f, n, n, f"keys are removed from the entry by `{src(n)[:60]}`")
            return
    for n, tg in stores:
        kc = const_str(tg.slice)
        if kc is not None:
            if kc in need:
                oj.refute(f, n, n, f"`{src(n)[:60]}` then `{src(call)[:40]}` overwrites the entry's `{kc}` after it was computed")
            continue
        ks = src(tg.slice)
        conds = facts.node_conditions(ctx.prog, f, n, ctx.typer, expand=False)
        if any((match(f"{ks} not in {ev}", a) and pol) or (match(f"{ks} in {ev}", a) and not pol) for a, pol in conds):
            oj.site(f, n, f"custom attributes are collected only under `{ks} not in {ev}` before {ev}.update(..): id/text/dates/parent/"
                          f"progress are kept")
        else:
            oj.refute(f, n, n, f"`{src(n)[:60]}` is not guarded by `{ks} not in {ev}` and `{src(call)[:40]}` copies it into the entry: "
                               f"a task attribute named id, text, parent, progress, start_date or end_date replaces the computed "
                               f"entry field")


def merge_defs(ctx, f: Func, e: ast.AST, at) -> ast.AST:
    """`if c: x = A / else: x = B` and `x = B; if c: x = A` read through the name x as the term `A if c else B`"""
    if not isinstance(e, ast.Name) or at is None:
        return e
    fl, cfg = flow_of(f), cfg_of(f)
    ds = fl.reaching(e.id, at)
    if len(ds) != 2 or any(d.kind != 'assign' or d.value is None for d in ds):
        return e
    for st in walk_no_nested(f.node):
        if not isinstance(st, ast.If):
            continue
        for a, b in (ds, ds[::-1]):
            in_body = any(x is a.stmt for x in st.body)
            if in_body and any(x is b.stmt for x in st.orelse):
                pass
            elif in_body and not st.orelse and cfg.dominates(b.node, cfg.node_of(st)) and not any(
                    x is b.stmt for y in st.body for x in ast.walk(y)):
                pass
            else:
                continue
            return ast.IfExp(test=deep(ctx, f, st.test, cfg.node_containing(st.test)),
                             body=deep(ctx, f, a.value, a.node), orelse=deep(ctx, f, b.value, b.node))
    return e


def check_parent(ctx, o, f: Func, st, pv: ast.AST, t: str, w: str):
    s = f.self_name
    conds, value, default = None, None, None
    mm = match(f"$d.get({t}.id, 0)", pv)
    if mm and isinstance(mm['d'], ast.DictComp) and len(mm['d'].generators) == 2:
        dc = mm['d']
        g0, g1 = dc.generators
        if isinstance(g0.target, ast.Name) and isinstance(g1.target, ast.Name) and not g0.ifs and not g1.ifs and \
                match(f"{g1.target.id}.id", dc.key) and match(f"{g0.target.id}.id", dc.value) and \
                match(f"{g0.target.id}.children", strip_seq(g1.iter)):
            dom = strip_seq(g0.iter)
            roots = [n.target.id for n in walk_no_nested(f.node) if isinstance(n, ast.For) and isinstance(n.target, ast.Name)
                     and match(f"{s}.{w}.roots", strip_seq(n.iter))]
            if is_all_tasks(dom, f, w) or any(match(p_.format(r=r), dom) for r in roots for p_ in _SUBTREE + ("[{r}] + {r}.all_children",)):
                o.site(f, st, f"parent = id of the task whose children contain {t} (map over the whole subtree), else 0")
                return
            if any(match(p_.format(r=r), dom) for r in roots for p_ in ("[{r}] + list({r}.children)", "[{r}] + {r}.children",
                                                                        "{r}.children + [{r}]", "list({r}.children) + [{r}]", "[{r}]")):
                o.refute(f, st, f"parent map over {src(dom)[:50]}",
                         f"the child-id -> parent-id map is built from `{src(dom)[:60]}` only (the root and its direct children): "
                         f"tasks three or more levels below a root are not in it and get parent 0 (expected the whole subtree, "
                         f"all_children + [root])")
                return
    if isinstance(pv, ast.IfExp):
        cases = []

        def rec(e, cs):
            if isinstance(e, ast.IfExp):
                rec(e.body, cs + facts.split_conj(e.test, True))
                rec(e.orelse, cs + facts.split_conj(e.test, False))
            else:
                cases.append((cs, e))
        rec(pv, [])
        consts = [e for _, e in cases if isinstance(e, ast.Constant)]
        others = [(cs, e) for cs, e in cases if not isinstance(e, ast.Constant)]
        if len(others) == 1 and consts:
            conds, value = others[0]
            # every other case is the default; a default that is not 0 is reported below
            default = next((e for e in consts if not (e.value == 0 and e.value is not False)), consts[0])
    elif isinstance(pv, ast.BoolOp) and isinstance(pv.op, ast.Or) and len(pv.values) == 2:
        a, default = pv.values
        if isinstance(a, ast.BoolOp) and isinstance(a.op, ast.And):
            conds, value = [c for v in a.values[:-1] for c in facts.split_conj(v, True)], a.values[-1]
        else:
            conds, value = [], a
    elif match("$x.id", pv):
        conds, value, default = [], pv, None
    if conds is None:
        o.undecided(f, st, pv, f"`parent` value `{src(pv)[:70]}` is not `<task>.parent.id if <member test> else 0`")
        return
    if not match(f"{t}.parent.id", value):
        if match("$x.id", value) or match("$x", value) and isinstance(value, (ast.Name, ast.Attribute)):
            o.refute(f, st, f"parent: {src(value)[:40]}", f"`parent` is `{src(value)[:50]}`, expected {t}.parent.id")
        else:
            o.undecided(f, st, value, f"`parent` value `{src(value)[:60]}` not understood")
        return
    if default is None or not (isinstance(default, ast.Constant) and default.value == 0 and default.value is not False):
        o.refute(f, st, f"parent default: {src(default) if default is not None else 'none'}",
                 f"a task whose parent is not rendered gets parent `{src(default) if default is not None else '<parent id>'}`, "
                 f"expected 0 (dhtmlxGantt's root)")
        return
    member = False
    for a, pol in conds:
        while isinstance(a, ast.UnaryOp) and isinstance(a.op, ast.Not):
            a, pol = a.operand, not pol
        m = match(f"{t}.parent in $c", a)
        mn = match(f"{t}.parent not in $c", a)
        if m or mn:
            c = (m or mn)['c']
            positive = pol if m else not pol
            if not is_all_tasks(c, f, w):
                o.undecided(f, st, a, f"membership is tested against `{src(c)[:50]}`, not self.{w}.tasks")
                return
            if not positive:
                o.refute(f, st, f"parent: {src(a)[:50]} inverted", "the membership test of the parent is inverted: members' children "
                                                                   "get parent 0, children of outsiders get a dangling parent id")
                return
            member = True
            continue
        nn = match(f"{t}.parent", a) or match(f"{t}.parent is not None", a) or match(f"{t}.parent != None", a)
        nz = match(f"{t}.parent is None", a) or match(f"{t}.parent == None", a)
        if nn or nz:
            if (pol if nn else not pol):
                continue
            o.refute(f, st, f"parent: {src(a)[:50]} inverted", "the None test of the parent is inverted")
            return
        o.undecided(f, st, a, f"unrecognised condition `{src(a)[:60]}` on the parent id")
        return
    if not member:
        o.refute(f, st, f"parent: {src(pv)[:60]}", f"`parent` is `{src(pv)[:80]}`: the parent's id is used without testing that the "
                                                   f"parent is one of self.{w}.tasks; a task whose parent is outside the rendered "
                                                   f"WBS points to a missing entry (expected `... in self.{w}.tasks else 0`)")
        return
    o.site(f, st, f"parent = {t}.parent.id if {t}.parent in self.{w}.tasks else 0")


_PROGRESS_OK = ("1 - max($e - $s, 0) / $e", "1 - max(0, $e - $s) / $e", "($e - max($e - $s, 0)) / $e", "($e - max(0, $e - $s)) / $e",
                "min($s, $e) / $e", "min($e, $s) / $e", "min($s / $e, 1)", "min(1, $s / $e)")
_PROGRESS_BAD = (("1 - ($e - $s) / $e", "exceeds 1 when spent > estimate"),
                 ("($e - $s) / $e", "is the remaining share and negative when spent > estimate"),
                 ("max($e - $s, 0) / $e", "is the remaining share, not the progress"),
                 ("max(0, $e - $s) / $e", "is the remaining share, not the progress"),
                 ("1 - max($e - $s, 0)", "is not divided by the estimate"),
                 ("1 - max($e - $s, 0) / $s", "divides by the spent work"),
                 ("1 - max($s - $e, 0) / $s", "divides by the spent work"),
                 ("$s.spent / $e.estimate", "exceeds 1 when spent > estimate"))


def check_progress(ctx, o, f: Func, st, pv: ast.AST, at, t: str):
    from .sched import sign_test
    fl = flow_of(f)
    cases = []          # (value expr, cfg node, def stmt)
    if isinstance(pv, ast.Name):
        ds = fl.reaching(pv.id, at)
        if not ds or any(d.kind != 'assign' or d.value is None for d in ds):
            o.undecided(f, st, pv, f"`progress` variable `{pv.id}` is not defined by plain assignments only")
            return
        cases = [(d.value, d.node, d.stmt) for d in ds]
    else:
        cases = [(pv, at, st)]
    good = True
    for val, node, dst in cases:
        flat = []

        def rec(e, conds):
            if isinstance(e, ast.IfExp):
                rec(e.body, conds + facts.split_conj(e.test, True))
                rec(e.orelse, conds + facts.split_conj(e.test, False))
            else:
                flat.append((e, conds))
        rec(deep(ctx, f, val, node), [])
        for e, extra in flat:
            while True:                       # rounding / float() keep a value inside 0..1 and an excess outside it
                mw = match("round($x, $n)", e) or match("float($x)", e)
                if not mw or (('n' in mw) and facts.const_num(mw['n']) is None):
                    break
                e = mw['x']
            k = facts.const_num(e)
            if k is not None:
                if 0 <= k <= 1:
                    o.site(f, dst, f"progress = {k}")
                else:
                    o.refute(f, dst, f"progress = {k}", f"progress constant {k} lies outside 0..1")
                    good = False
                continue
            m = next((mm for mm in (match(p_, e) for p_ in _PROGRESS_OK) if mm), None)
            if m is None:
                bad = next(((mm, why) for mm, why in ((match(p_, e), why) for p_, why in _PROGRESS_BAD) if mm), None)
                if bad:
                    o.refute(f, dst, f"progress = {src(e)[:50]}", f"progress `{src(e)[:60]}` {bad[1]} (expected 1 - max(estimate - "
                                                                   f"spent, 0) / estimate, within 0..1)")
                else:
                    o.undecided(f, dst, e, f"progress formula `{src(e)[:60]}` is not one the rule can bound")
                good = False
                continue
            if not (match(f"{t}.estimate", m['e']) and match(f"{t}.spent", m['s'])):
                o.refute(f, dst, f"progress = {src(e)[:50]}", f"progress is computed from `{src(m['e'])}` and `{src(m['s'])}`; expected "
                                                               f"the task's estimate (divisor) and spent")
                good = False
                continue
            conds = facts.node_conditions(ctx.prog, f, dst, ctx.typer) + extra
            pos = nn = False
            for a, pol in conds:
                stt = sign_test(a, pol)
                if stt and same(stt[0], m['e']) and stt[1] in ('>', '!='):
                    pos = True
                if same(a, m['e']) and pol:
                    pos = True
                b = a
                while isinstance(b, ast.UnaryOp) and isinstance(b.op, ast.Not):
                    b, pol = b.operand, not pol
                if (match("$x is not None", b) and same(match("$x is not None", b)['x'], m['s']) and pol) or \
                        (match("$x is None", b) and same(match("$x is None", b)['x'], m['s']) and not pol) or (same(b, m['s']) and pol):
                    nn = True
            if not pos:
                o.refute(f, dst, f"progress: no {src(m['e'])} > 0", f"progress divides by `{src(m['e'])}` without a dominating "
                                                                    f"`{src(m['e'])} > 0` test: zero estimates (milestones) crash / leave 0..1")
                good = False
            elif not nn:
                o.refute(f, dst, f"progress: {src(m['s'])} may be None", f"progress uses `{src(m['s'])}` without excluding None")
                good = False
            else:
                o.site(f, dst, f"progress = {src(e)} under {src(m['e'])} > 0 and {src(m['s'])} is not None: within 0..1 since spent >= 0")
    if good:
        # lower bound needs spent >= 0: the setter's guard
        sp = ctx.prog.func('task.Task.spent.setter')
        okg = False
        for g in facts.guards_of(ctx.prog, sp, ctx.typer):
            for a, pol in [x for c, p_ in g.conds for x in facts.split_conj(c, p_)]:
                stt = sign_test(a, pol)
                if stt and src(stt[0]) == sp.params[1] and stt[1] == '<':
                    okg = True
        if okg:
            o.site(sp, sp.node, "Task.spent setter rejects negative values (lower bound of progress)")
        else:
            o.undecided(sp, sp.node, 'spent >= 0', "Task.spent is no longer guarded against negative values: progress may exceed 1 - .. bounds")


# ------------------------------------------------------------------------------------------------------- entry point
def check(ctx):
    ctx.assume("Mermaid's grammar itself is not modelled: `}}`/`{{`, `#`, `;` or line breaks inside task names are not decided")
    ctx.assume("dhtmlxGantt 7.1 parses task dates with gantt.config.date_format, default '%d-%m-%Y %H:%i', unless the template sets it")
    ctx.assume("WBS.tasks, and WBS.roots with all_children + [root], both enumerate every task of the WBS exactly once (C01/C05)")
    ctx.assume("term expansion assumes no aliasing writes between a definition and its use inside one function")
    O = {
        'templates': ctx.ob('templates', 'R10', "placeholders ($name/${name}, $$ escapes) of each template == keyword names of its "
                                                 "Template(..).substitute call, and the rendering function feeds one of them", floor=6),
        'once': ctx.ob('once', 'R13', "Mermaid gantt: one task line per task on the sectioned and the unsectioned path, one header per "
                                      "section, section map = one append per task; network: one Start edge iff no predecessors else one "
                                      "edge per predecessor; DHTMLX: one data.append per task, one uniquely numbered link per predecessor",
                       floor=10),
        'formats': ctx.ob('formats', 'R10', "strftime formats carry day, month, year, hour, minute; Mermaid dateFormat == strftime format "
                                            "under DD/MM/YYYY/HH/mm <-> %d/%m/%Y/%H/%M; DHTMLX dates match its date_format; task line is "
                                            "`name : flags id, start, end`; `milestone,` flag iff task.milestone, tested first", floor=7),
        'json': ctx.ob('json', 'R8', "DHTMLX payload = json.dumps of python containers; entry id/text/start/end of the task itself; "
                                     "parent = parent.id if parent in self.wbs.tasks else 0; progress within 0..1", floor=9),
        'escape': ctx.ob('escape', 'R11', "the three _repr_html_ return the iframe with srcdoc=\"escape(self.to_html())\"", floor=3),
        'sinks': ctx.ob('sinks', 'R5', "a task name reaching the gantt line loses ':'; `</` is neutralised after json.dumps inside "
                                       "<script>; all name labels of network edges pass the same quote-removing sanitiser", floor=7),
    }
    for o_ in O.values():
        _dedupe(o_)
    _guard(ctx, O['templates'], lambda o: check_templates(ctx, o))
    _guard(ctx, O['escape'], lambda o: check_escape(ctx, o))
    _guard(ctx, O['once'], lambda o: gantt_once(ctx, o))
    _guard(ctx, O['formats'], lambda o: gantt_formats(ctx, o))
    _guard(ctx, O['sinks'], lambda o: gantt_sinks(ctx, o))

    def both(primary, others, fn):
        """one analysis feeding several obligations: an idiom it does not understand is undecided for all of them"""
        def body(o):
            try:
                fn()
            except Und as u:
                for x in [primary] + others:
                    x.undecided(u.func, u.node, u.construct, u.msg)
            except TooManyPaths:
                for x in [primary] + others:
                    x.undecided(None, None, 'paths', "too many control-flow paths to enumerate")
        ctx.guarded(primary, body)
    both(O['once'], [O['sinks']], lambda: check_network(ctx, O['once'], O['sinks']))
    both(O['once'], [O['json'], O['formats'], O['sinks']], lambda: check_dhtmlx(ctx, O))
