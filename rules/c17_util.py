"""Helpers of rules/c17.py (calendars, availability search).

* `Ev` / `run_block`: decide the tests of a small statement block over a *finite abstract domain* given by the caller
  (representative points: "no information / negative / zero / positive" for unit values, "before / at start / inside /
  at end / after" for a date against a validity interval, `-1 / +1` for a direction).  The rule then compares the
  outcome of the block (which expression is returned, which stores are executed, does it fall through) with the
  outcome the property text prescribes for that point.  Tests the domain cannot decide end as `Unknown`
  (-> UNDECIDED), comparisons that would raise at run time (`None < 0`) end as `WouldRaise`.
  Nothing of the analysed library is imported or executed: the evaluator walks ast nodes only.
* `cnf` / `path_clauses` / `guard_facts`: raises with their path condition in conjunctive normal form, helper
  validators instantiated at their call sites (parameters replaced by the expanded arguments).
* `dict_entries`: key/value terms stored by a dict-valued expression.
"""
from __future__ import annotations

import ast
import copy
from typing import Dict, List, Optional, Tuple

from sa import facts
from sa.cfg import cfg_of
from sa.flow import Expander, flow_of, subst
from sa.model import Func, unmangle, walk_no_nested, src
from sa.pat import match, same, names_in
from sa.effects import exc_name


# ---------------------------------------------------------------------------------------------------- evaluator
class Unknown(Exception):
    def __init__(self, node, why=''):
        self.node, self.why = node, why


class WouldRaise(Exception):
    def __init__(self, node, why=''):
        self.node, self.why = node, why


class Ev:
    """env: list of (pattern ast, sample value, mode); mode 'sign' = the sample stands for its whole sign class
    (only comparisons with the constant 0 / None are decided), 'exact' = the sample is the value itself."""

    def __init__(self, env):
        self.env = list(env)

    def lookup(self, e):
        for pat, val, mode in self.env:
            if same(pat, e):
                return val, mode
        return None

    def val(self, e) -> Tuple[object, str]:
        hit = self.lookup(e)
        if hit is not None:
            return hit
        if isinstance(e, ast.Constant):
            return e.value, 'const'
        if isinstance(e, ast.UnaryOp) and isinstance(e.op, ast.USub):
            c = facts.const_num(e)
            if c is not None:
                return c, 'const'
        if isinstance(e, ast.UnaryOp) and isinstance(e.op, ast.Not):
            return (not self.truth(e.operand)), 'exact'
        if isinstance(e, ast.BoolOp):
            last = None
            for v in e.values:
                last = self.val(v)
                t = bool(last[0])
                if isinstance(e.op, ast.And) and not t:
                    return last
                if isinstance(e.op, ast.Or) and t:
                    return last
            return last
        if isinstance(e, ast.IfExp):
            return self.val(e.body if self.truth(e.test) else e.orelse)
        if isinstance(e, ast.Compare):
            left = self.val(e.left)
            for op, comp in zip(e.ops, e.comparators):
                right = self.val(comp)
                if not self._cmp(left, op, right, e):
                    return False, 'exact'
                left = right
            return True, 'exact'
        raise Unknown(e, f"`{src(e)[:70]}` is outside the abstract domain")

    def truth(self, e) -> bool:
        return bool(self.val(e)[0])

    def _cmp(self, a, op, b, node) -> bool:
        (av, am), (bv, bm) = a, b
        if isinstance(op, (ast.Is, ast.IsNot)):
            if av is None or bv is None:
                r = (av is None and bv is None)
            else:
                raise Unknown(node, "identity test between values")
            return r if isinstance(op, ast.Is) else not r
        if isinstance(op, (ast.In, ast.NotIn)):
            raise Unknown(node, "membership test")
        # sign samples: only against the constant 0 (or None for ==/!=)
        for (xv, xm), (yv, ym) in (((av, am), (bv, bm)), ((bv, bm), (av, am))):
            if xm == 'sign' and xv is not None:
                if ym == 'const' and yv is not None and not (isinstance(yv, (int, float)) and yv == 0):
                    raise Unknown(node, "comparison of a unit value with a constant other than 0")
                if ym == 'sign' and yv is not None:
                    raise Unknown(node, "comparison between two unit values")
        if isinstance(op, (ast.Eq, ast.NotEq)):
            r = (av == bv)
            return r if isinstance(op, ast.Eq) else not r
        if av is None or bv is None:
            raise WouldRaise(node, f"`{src(node)[:60]}` compares None")
        try:
            if isinstance(op, ast.Lt):
                return av < bv
            if isinstance(op, ast.LtE):
                return av <= bv
            if isinstance(op, ast.Gt):
                return av > bv
            if isinstance(op, ast.GtE):
                return av >= bv
        except TypeError:
            raise WouldRaise(node, f"`{src(node)[:60]}` compares incomparable values")
        raise Unknown(node, "operator")

    def select(self, e):
        """the sub-expression of e whose value e takes (through IfExp / and / or)"""
        if self.lookup(e) is not None:
            return e
        if isinstance(e, ast.IfExp):
            return self.select(e.body if self.truth(e.test) else e.orelse)
        if isinstance(e, ast.BoolOp):
            last = None
            for v in e.values:
                last = v
                t = self.truth(v)
                if isinstance(e.op, ast.And) and not t:
                    break
                if isinstance(e.op, ast.Or) and t:
                    break
            return self.select(last)
        return e


class Outcome:
    local = None                    # symbolic values of the plain locals assigned on the executed path (set by run_block)

    def __init__(self, kind, stmt=None, value=None, executed=None, why=''):
        self.kind = kind            # return | raise | continue | break | fall | unknown | wouldraise
        self.stmt = stmt
        self.value = value          # expanded + selected return expression
        self.executed = executed or []
        self.why = why

    def __repr__(self):
        return f"<{self.kind} {src(self.value) if self.value is not None else ''}>"


_NONE = ast.Constant(value=None)


def run_block(stmts, ev: Ev, ex: Expander, executed=None, local=None) -> Outcome:
    local = {} if local is None else local
    out = _run_block(stmts, ev, ex, executed, local)
    out.local = local
    return out


def _run_block(stmts, ev: Ev, ex: Expander, executed=None, local=None) -> Outcome:
    """abstractly execute a loop-free statement list; simple statements are collected in `executed`.  Plain locals
    assigned on the executed path (`available = 0` in one arm of an if/elif/else, `return available` at the single
    exit) are remembered and substituted into later tests and the returned expression."""
    executed = [] if executed is None else executed
    local = {} if local is None else local

    def xp(e):
        v = ex.expand(e)
        return subst(v, local) if local else v
    try:
        for st in stmts:
            if isinstance(st, ast.If):
                t = ev.truth(xp(st.test))
                r = _run_block(st.body if t else st.orelse, ev, ex, executed, local)
                if r.kind != 'fall':
                    return r
            elif isinstance(st, ast.Return):
                v = xp(st.value) if st.value is not None else _NONE
                return Outcome('return', st, ev.select(v), executed)
            elif isinstance(st, ast.Raise):
                return Outcome('raise', st, None, executed)
            elif isinstance(st, ast.Continue):
                return Outcome('continue', st, None, executed)
            elif isinstance(st, ast.Break):
                return Outcome('break', st, None, executed)
            elif isinstance(st, (ast.Assign, ast.AugAssign, ast.AnnAssign, ast.Expr, ast.Pass)):
                executed.append(st)
                if isinstance(st, ast.Assign) and len(st.targets) == 1 and isinstance(st.targets[0], ast.Name):
                    local[st.targets[0].id] = xp(st.value)
                elif isinstance(st, ast.AnnAssign) and isinstance(st.target, ast.Name) and st.value is not None:
                    local[st.target.id] = xp(st.value)
                elif isinstance(st, ast.AugAssign) and isinstance(st.target, ast.Name):
                    # `x op= E`: x is now `<x before> op E` (x before = its tracked value, else its value on entry)
                    before = local.get(st.target.id, ast.Name(id=st.target.id, ctx=ast.Load()))
                    local[st.target.id] = ast.fix_missing_locations(ast.copy_location(
                        ast.BinOp(left=copy.deepcopy(before), op=st.op, right=xp(st.value)), st))
                else:
                    for t in (st.targets if isinstance(st, ast.Assign) else [getattr(st, 'target', None)]):
                        for n in (ast.walk(t) if t is not None else []):
                            if isinstance(n, ast.Name):
                                local.pop(n.id, None)
            else:
                return Outcome('unknown', st, None, executed, f"statement `{type(st).__name__}` inside the block")
    except Unknown as u:
        return Outcome('unknown', u.node, None, executed, u.why)
    except WouldRaise as w:
        return Outcome('wouldraise', w.node, None, executed, w.why)
    return Outcome('fall', None, None, executed)


# ---------------------------------------------------------------------------------------------------- CNF of conditions
Atom = Tuple[ast.AST, bool]


def cnf(t: ast.AST, pol: bool) -> List[List[Atom]]:
    """condition (t with polarity) as a conjunction of clauses, each clause a disjunction of atoms"""
    if isinstance(t, ast.UnaryOp) and isinstance(t.op, ast.Not):
        return cnf(t.operand, not pol)
    if isinstance(t, ast.BoolOp):
        conj = (isinstance(t.op, ast.And) and pol) or (isinstance(t.op, ast.Or) and not pol)
        parts = [cnf(v, pol) for v in t.values]
        if conj:
            return [c for p in parts for c in p]
        if all(len(p) == 1 for p in parts):
            return [[a for p in parts for a in p[0]]]
        # a disjunction of conjunctions is distributed: `A or (B and C)` = `(A or B) and (A or C)` (merged conditions
        # such as `not (days is not None and (type(u) is float or type(u) is int))`); bounded, else kept as one atom
        n = 1
        for p in parts:
            n *= len(p)
        if 0 < n <= 16:
            out = [[]]
            for p in parts:
                out = [acc + cl for acc in out for cl in p]
            return out
        return [[(t, pol)]]
    return [[(t, pol)]]


def live_conditions(cfg, cn, drop_raising: bool = False):
    """cfg.conditions(cn); with drop_raising the conditions that only say "an earlier guard did not fire" (the other
    branch of the test can never reach the normal exit) are left out"""
    out = []
    for t, pol in cfg.conditions(cn):
        if drop_raising:
            other = [b for b in cfg.nodes if b.kind == 'branch' and b.test is t and b.polarity == (not pol)]
            if other and all(cfg.exit.id not in cfg.reachable_after(b) for b in other):
                continue
        out.append((t, pol))
    return out


def path_clauses(prog, f: Func, node: ast.AST, typer, drop_raising: bool = False) -> List[List[Atom]]:
    """CNF of the path condition of the statement containing node (tests expanded)"""
    cfg = cfg_of(f)
    cn = cfg.node_containing(node) or cfg.node_of(node)
    if cn is None:
        return []
    ex = Expander(prog, f, typer)
    out = []
    for t, pol in live_conditions(cfg, cn, drop_raising):
        out += cnf(ex.expand(t, cfg.node_containing(t)), pol)
    return out


def clause_text(cl: List[Atom]) -> str:
    return ' or '.join(('' if p else 'not ') + src(a) for a, p in cl)


_NEG = {'>': '<=', '>=': '<', '<': '>=', '<=': '>', '==': '!=', '!=': '=='}
_FLIP = {'>': '<', '>=': '<=', '<': '>', '<=': '>=', '!=': '!=', '==': '=='}
_OPS = {ast.Gt: '>', ast.GtE: '>=', ast.Lt: '<', ast.LtE: '<=', ast.NotEq: '!=', ast.Eq: '=='}


def compare_atom(t: ast.AST, pol: bool) -> Optional[Tuple[ast.AST, str, ast.AST]]:
    """single binary comparison with polarity folded in: (left, op, right)"""
    while isinstance(t, ast.UnaryOp) and isinstance(t.op, ast.Not):
        t, pol = t.operand, not pol
    if isinstance(t, ast.Compare) and len(t.ops) == 1 and type(t.ops[0]) in _OPS:
        op = _OPS[type(t.ops[0])]
        return t.left, (op if pol else _NEG[op]), t.comparators[0]
    return None


def sign_atom(t: ast.AST, pol: bool) -> Optional[Tuple[ast.AST, str]]:
    """(x, op) with the atom equivalent to `x op 0`"""
    c = compare_atom(t, pol)
    if c is None:
        return None
    l, op, r = c
    rc, lc = facts.const_num(r), facts.const_num(l)
    if rc is not None and rc == 0 and lc is None:
        return l, op
    if lc is not None and lc == 0 and rc is None:
        return r, _FLIP[op]
    return None


def none_atom(t: ast.AST, pol: bool) -> Optional[Tuple[ast.AST, bool]]:
    """(x, is_none)"""
    while isinstance(t, ast.UnaryOp) and isinstance(t.op, ast.Not):
        t, pol = t.operand, not pol
    m = match("$x is None", t)
    if m:
        return m['x'], pol
    m = match("$x is not None", t)
    if m:
        return m['x'], not pol
    return None


def is_mode_atom(t: ast.AST, pol: bool, names=None) -> bool:
    """None tests and type tests: the documented mode splits of the constructors.  With `names`, only tests about
    expressions built from those names count."""
    while isinstance(t, ast.UnaryOp) and isinstance(t.op, ast.Not):
        t = t.operand
    subj = None
    na = none_atom(t, True)
    if na:
        subj = na[0]
    elif isinstance(t, ast.Compare) and len(t.ops) == 1 and isinstance(t.ops[0], (ast.In, ast.NotIn)) and \
            isinstance(t.left, ast.Constant) and t.left.value is None and isinstance(t.comparators[0], (ast.Tuple, ast.List)):
        subj = t.comparators[0]                 # `None not in (start, end)`
    else:
        for p in ("type($x) is $t", "type($x) is not $t", "type($x) == $t", "type($x) != $t", "type($x) in $t",
                  "type($x) not in $t", "isinstance($x, $t)"):
            m = match(p, t)
            if m:
                subj = m['x']
                break
    if subj is None:
        return False
    return names is None or (names_in(subj) - {'list', 'sorted', 'set', 'tuple', 'dict', 'iter'}) <= set(names)


def is_mode_clause(cl: List[Atom], names=None) -> bool:
    return all(is_mode_atom(a, p, names) for a, p in cl)


# ---------------------------------------------------------------------------------------------------- guards
class G:
    """a raise with its condition: clauses (CNF), universally bound loop variables, and where it is anchored in the
    function it was collected for (the raise itself, or the call of the helper that contains it)"""

    def __init__(self, exc, clauses, binders, func, raise_node, anchor, via=None):
        self.exc = exc
        self.clauses: List[List[Atom]] = clauses
        self.binders: List[Tuple[ast.AST, ast.AST]] = binders
        self.func = func                # function the raise is written in
        self.raise_node = raise_node
        self.anchor = anchor            # ast node inside the collecting function (raise stmt / helper call)
        self.via = via                  # helper call node or None
        self.dom = None                 # cfg node (of the collecting function) where the guard is evaluated

    def __repr__(self):
        b = ' '.join(f"for {src(t)} in {src(i)}" for t, i in self.binders)
        return f"<G {self.exc} {b} | " + ' AND '.join('(' + clause_text(c) + ')' for c in self.clauses) + '>'


def helper_of(prog, f: Func, call: ast.Call) -> Optional[Func]:
    """same-class helper called as K.__h(..) / self.__h(..) / cls.__h(..) / self.h(..)"""
    fn = call.func
    if isinstance(fn, ast.Name) and fn.id not in prog.classes:
        # module-level function of the same module, called by its bare name
        m = prog.module_func(f.module.name, fn.id)
        return m if m is not None and m.qual != f.qual and m.kind == 'function' else None
    if isinstance(fn, ast.Attribute) and isinstance(fn.value, ast.Call) and isinstance(fn.value.func, ast.Name) \
            and fn.value.func.id == 'super' and not fn.value.args and f.cls:
        for c in prog.mro(f.cls)[1:]:
            if unmangle(fn.attr) in c.methods:
                return c.methods[unmangle(fn.attr)]
        return None
    if not (isinstance(fn, ast.Attribute) and isinstance(fn.value, ast.Name) and f.cls):
        return None
    recv = fn.value.id
    if recv not in (f.cls, 'self', 'cls') and recv not in [c.name for c in prog.mro(f.cls)]:
        return None
    m = prog.find_method(f.cls, unmangle(fn.attr))
    if m is None or m.qual == f.qual:
        return None
    return m


def fors_around(f: Func, node: ast.AST) -> List[ast.For]:
    """For statements of f whose body (not the else part) contains node, outermost first.  (cfg.enclosing_fors needs
    a path back to the loop header, which a `raise` / `return` does not have.)"""
    out = []
    for n in walk_no_nested(f.node):
        if isinstance(n, ast.For) and any(x is node for st in n.body for x in ast.walk(st)):
            out.append(n)
    out.sort(key=lambda n: (n.lineno, n.col_offset))
    return out


def _guard_point(f: Func, cfg, raise_node):
    """cfg node at which the guard is evaluated as a whole: the header of the outermost loop around the raise, else
    the test of the innermost `if` around it, else the raise itself"""
    fors = fors_around(f, raise_node)
    if fors:
        return cfg.node_of(fors[0])
    best = None
    for n in walk_no_nested(f.node):
        if isinstance(n, ast.If) and any(x is raise_node for st in n.body + n.orelse for x in ast.walk(st)):
            if best is None or any(x is n for x in ast.walk(best)):
                best = n
    return cfg.node_of(best) if best is not None else cfg.node_of(raise_node)


def guard_facts(prog, typer, f: Func, depth: int = 0) -> List[G]:
    out: List[G] = []
    cfg0 = cfg_of(f)
    ex0 = Expander(prog, f, typer)
    for n in walk_no_nested(f.node):
        if not isinstance(n, ast.Raise):
            continue
        rn = cfg0.node_of(n)
        if rn is None or not cfg0.is_reachable(rn):
            continue
        clauses = []
        for t, pol in live_conditions(cfg0, rn, True):
            clauses += cnf(ex0.expand(t, cfg0.node_containing(t)), pol)
        binders = [(fo.target, ex0.expand(fo.iter, cfg0.node_of(fo))) for fo in fors_around(f, n)]
        g = G(exc_name(n), clauses, binders, f, n, n)
        g.dom = _guard_point(f, cfg0, n)
        out.append(g)
    if depth < 2:
        cfg = cfg_of(f)
        ex = Expander(prog, f, typer)
        for c in [n for n in walk_no_nested(f.node) if isinstance(n, ast.Call)]:
            h = helper_of(prog, f, c)
            if h is None:
                continue
            cn = cfg.node_containing(c)
            if cn is None or not cfg.is_reachable(cn):
                continue
            params = list(h.params)
            if h.kind == 'method':
                params = params[1:]
            if any(k.arg is None for k in c.keywords) or any(isinstance(a, ast.Starred) for a in c.args) or len(c.args) > len(params):
                continue
            sub = {p: ex.expand(a, cn) for p, a in zip(params, facts.bound_args(c, h, drop_self=(h.kind == 'method'))) if a is not None}
            outer = path_clauses(prog, f, c, typer, drop_raising=True)
            outer_b = [(fo.target, ex.expand(fo.iter, cfg.node_of(fo))) for fo in fors_around(f, c)]
            for hg in guard_facts(prog, typer, h, depth + 1):
                cl = [[(subst(a, sub), p) for a, p in clause] for clause in hg.clauses]
                bs = [(t, subst(i, sub)) for t, i in hg.binders]
                g = G(hg.exc, outer + cl, outer_b + bs, hg.func, hg.raise_node, c, via=c)
                g.dom = cn
                out.append(g)
    # any(.. for x in X) / len([x for x in X if ..]) > 0 as a universally bound raise; likewise `not all(P for x in X)`,
    # `min(X) < k` / `max(X) > k` and `set(X) - set(range(..))` (each says "some element of X ...")
    for g in out:
        if getattr(g, '_quantified', False):
            continue
        g._quantified = True
        new = []
        for cl in g.clauses:
            if len(cl) == 1 and cl[0][1]:
                efm = facts.exists_form(cl[0][0])
                if efm is not None:
                    tgt, it, conds = efm
                    g.binders.append((tgt, it))
                    for c in conds:
                        new += cnf(c, True)
                    continue
            if len(cl) == 1:
                a, pol = cl[0]
                while isinstance(a, ast.UnaryOp) and isinstance(a.op, ast.Not):
                    a, pol = a.operand, not pol
                m = match("all($c)", a)
                if m and not pol and isinstance(m['c'], (ast.GeneratorExp, ast.ListComp)) and len(m['c'].generators) == 1:
                    gen = m['c'].generators[0]
                    g.binders.append((gen.target, gen.iter))
                    for c in gen.ifs:
                        new += cnf(c, True)
                    new += cnf(m['c'].elt, False)
                    continue
            ex_atoms = [_some_element(a, pol, len(g.binders)) for a, pol in cl]
            if ex_atoms and all(x is not None for x in ex_atoms) and all(same(x[1], ex_atoms[0][1]) for x in ex_atoms):
                var = ex_atoms[0][0]
                g.binders.append((ast.Name(id=var, ctx=ast.Store()), ex_atoms[0][1]))
                new.append([(x[2], True) for x in ex_atoms])
                continue
            new.append(cl)
        # "the collection is not empty" next to a statement about one of its elements adds nothing
        def emptiness(cl):
            if len(cl) != 1 or not cl[0][1]:
                return False
            a = cl[0][0]
            m = match("len($x) > 0", a) or match("len($x) != 0", a) or match("len($x) >= 1", a)
            x = m['x'] if m else a
            for _, it in g.binders:
                cands = [it]
                for pat in ("$d.values()", "$d.keys()", "$d.items()", "list($d)", "set($d)", "sorted($d)", "list($d.keys())", "list($d.values())"):
                    mm = match(pat, it)
                    if mm:
                        cands.append(mm['d'])
                if any(same(x, c) for c in cands):
                    return True
            return False
        g.clauses = [cl for cl in new if not emptiness(cl)]
    return out


def _some_element(a: ast.AST, pol: bool, n: int):
    """atom that says "some element of X satisfies C":  min(X) < k, max(X) > k, set(X) - set(R) (truthy),
    not set(X) <= set(R), not set(X).issubset(R)   ->  (variable name, X, C over that variable)"""
    var = f"_el{n}"
    c = compare_atom(a, pol)
    if c is not None:
        l, op, r = c
        for (x, o, k) in ((l, op, r), (r, _FLIP[op], l)):
            m = match("min($X)", x)
            if m and o in ('<', '<=') and facts.const_num(k) is not None:
                return var, m['X'], ast.parse(f"{var} {o} {src(k)}", mode='eval').body
            m = match("max($X)", x)
            if m and o in ('>', '>=') and facts.const_num(k) is not None:
                return var, m['X'], ast.parse(f"{var} {o} {src(k)}", mode='eval').body
    t, p = a, pol
    while isinstance(t, ast.UnaryOp) and isinstance(t.op, ast.Not):
        t, p = t.operand, not p
    if p:
        m = match("set($X) - $R", t) or match("set($X).difference($R)", t)
    else:
        m = match("set($X) <= $R", t) or match("set($X).issubset($R)", t)
    if m:
        R = m['R']
        mr = match("set($r)", R) or match("frozenset($r)", R)
        R = mr['r'] if mr else R
        return var, m['X'], ast.parse(f"{var} not in {src(R)}", mode='eval').body
    return None


# ---------------------------------------------------------------------------------------------------- dict-valued terms
class Entry:
    """kind: comp (key, value, target, iter) | pair (key, value) | whole (expr: every item of this mapping) |
    state (the field itself) | empty"""

    ifs = ()

    def __init__(self, kind, key=None, value=None, target=None, it=None, expr=None, node=None):
        self.kind, self.key, self.value, self.target, self.it, self.expr, self.node = kind, key, value, target, it, expr, node


def dict_entries(e: ast.AST, field: str) -> Optional[List[Entry]]:
    """entries of a dict-valued (expanded) expression; None when the shape is not understood"""
    if isinstance(e, ast.Attribute) and e.attr == field:
        return [Entry('state', node=e)]
    if isinstance(e, ast.Dict):
        out = []
        for k, v in zip(e.keys, e.values):
            if k is None:
                sub = dict_entries(v, field)
                if sub is None:
                    return None
                out += sub
            else:
                out.append(Entry('pair', key=k, value=v, node=e))
        return out or [Entry('empty', node=e)]
    if isinstance(e, ast.DictComp):
        if len(e.generators) != 1:
            return None
        g = e.generators[0]
        en = Entry('comp', key=e.key, value=e.value, target=g.target, it=g.iter, node=e)
        en.ifs = list(g.ifs)            # a filter drops entries: the consumers decide whether that is legitimate
        return [en]
    if isinstance(e, ast.BinOp) and isinstance(e.op, ast.BitOr):
        a, b = dict_entries(e.left, field), dict_entries(e.right, field)
        if a is None or b is None:
            return None
        return a + b
    if isinstance(e, ast.IfExp):
        a, b = dict_entries(e.body, field), dict_entries(e.orelse, field)
        if a is None or b is None:
            return None
        return a + b
    m = match("dict($x)", e)
    if m:
        return dict_entries(m['x'], field)
    m = match("dict()", e)
    if m:
        return [Entry('empty', node=e)]
    m = match("$x.copy()", e)
    if m:
        return dict_entries(m['x'], field)
    if isinstance(e, (ast.Name, ast.Attribute, ast.Call, ast.Subscript)):
        return [Entry('whole', expr=e, node=e)]
    return None


def items_binding(target: ast.AST, it: ast.AST) -> Optional[Tuple[Optional[str], Optional[str], ast.AST]]:
    """`for k, v in D.items()` -> (k, v, D); `for v in D.values()` -> (None, v, D); `for k in D / D.keys()` -> (k, None, D)"""
    m = match("$d.items()", it)
    if m and isinstance(target, ast.Tuple) and len(target.elts) == 2 and all(isinstance(x, ast.Name) for x in target.elts):
        return target.elts[0].id, target.elts[1].id, m['d']
    m = match("$d.values()", it) or match("list($d.values())", it)
    if m and isinstance(target, ast.Name):
        return None, target.id, m['d']
    m = match("$d.keys()", it) or match("list($d.keys())", it) or match("list($d)", it) or match("sorted($d)", it) or \
        match("sorted($d.keys())", it) or match("set($d)", it) or match("set($d.keys())", it)
    if m and isinstance(target, ast.Name):
        return target.id, None, m['d']
    if isinstance(target, ast.Name) and isinstance(it, (ast.Name, ast.Attribute)):
        return target.id, None, it
    return None


def mentions(e: ast.AST, name: str) -> bool:
    return name in names_in(e)


def _walk(node):
    """ast.walk over one statement without descending into compound statement bodies"""
    if isinstance(node, (ast.If, ast.While)):
        node = node.test
    elif isinstance(node, ast.For):
        node = node.iter
    return ast.walk(node)


def midnight_arg(e: ast.AST) -> Optional[ast.AST]:
    """facts.is_midnight_of, plus the keyword spelling `datetime(year=d.year, month=d.month, day=d.day[, hour=0, ..])`
    (any mix of positional and keyword arguments)  ->  d"""
    d = facts.is_midnight_of(e)
    if d is not None:
        return d
    if isinstance(e, ast.Call) and isinstance(e.func, ast.Name) and e.func.id == 'datetime' and not any(isinstance(a, ast.Starred) for a in e.args):
        order = ['year', 'month', 'day', 'hour', 'minute', 'second', 'microsecond']
        got = dict(zip(order, e.args))
        for k in e.keywords:
            if k.arg is None or k.arg in got or k.arg not in order:
                return None
            got[k.arg] = k.value
        if len(e.args) > len(order) or not {'year', 'month', 'day'} <= set(got):
            return None
        base = None
        for part in ('year', 'month', 'day'):
            v = got[part]
            if not (isinstance(v, ast.Attribute) and v.attr == part):
                return None
            if base is None:
                base = v.value
            elif not same(base, v.value):
                return None
        if all(isinstance(got[p], ast.Constant) and got[p].value == 0 for p in order[3:] if p in got):
            return base
    return None


def wrong_day_key(e: ast.AST, name: str) -> bool:
    """e is recognisably NOT midnight(name): the date itself, `name.date()`, or a `name.replace(..)` / `datetime(name.year, ..)`
    that leaves a time field standing"""
    if isinstance(e, ast.Name) and e.id == name:
        return True
    if isinstance(e, ast.Call) and isinstance(e.func, ast.Attribute) and isinstance(e.func.value, ast.Name) and e.func.value.id == name \
            and e.func.attr in ('replace', 'date', 'timestamp', 'isoformat', 'toordinal'):
        return True
    if isinstance(e, ast.Call) and isinstance(e.func, ast.Name) and e.func.id == 'datetime' and \
            any(isinstance(n, ast.Attribute) and isinstance(n.value, ast.Name) and n.value.id == name for n in ast.walk(e)):
        return True
    return False


# ---------------------------------------------------------------------------------------------------- bounded evaluation
class SimUnknown(Exception):
    def __init__(self, node, why=''):
        self.node, self.why = node, why


class SDate:
    """a date as its offset in days from the start date of the search"""

    def __init__(self, off):
        self.off = off

    def __repr__(self):
        return f"start{self.off:+g}d"


class STd:
    def __init__(self, days):
        self.days = days


class SGen:
    """a generator expression, evaluated eagerly (the capacity oracle has no side effects) but consumed like one"""

    def __init__(self, items):
        self.items, self.pos = list(items), 0

    def rest(self):
        out = self.items[self.pos:]
        self.pos = len(self.items)
        return out


class _Sig(Exception):
    def __init__(self, kind, value=None, node=None):
        self.kind, self.value, self.node = kind, value, node


_SELF = object()
TOD = 0.375         # the search starts at 09:00 of day 0: SDate offsets are relative to that instant, days are floor(off + TOD)
_TD_SCALE = {'days': 1.0, 'seconds': 1 / 86400.0, 'microseconds': 1 / 86400e6, 'milliseconds': 1 / 86400e3,
             'minutes': 1 / 1440.0, 'hours': 1 / 24.0, 'weeks': 7.0}
_TD_ORDER = ['days', 'seconds', 'microseconds', 'milliseconds', 'minutes', 'hours', 'weeks']
_QUIET = ('logging', 'logger', 'log', '_log', '_logger', 'LOG', '_LOG', 'LOGGER', '_LOGGER', 'warnings')


class SearchSim:
    """Evaluates the ast of an availability search for ONE small input: start date = day 0, the given direction and
    horizon, and a capacity oracle (the set of day offsets with positive capacity).  Numbers, dates (as day offsets),
    timedeltas, booleans and None are the whole value domain; `self.get_available_units(date, ..)` asks the oracle;
    private helpers of the package are entered; anything else ends as SimUnknown.  Nothing is imported or run: this is
    a walk over ast nodes."""

    def __init__(self, prog, f: Func, avail, direction, max_days, budget=600):
        self.prog, self.f, self.avail = prog, f, avail
        self.direction, self.max_days, self.budget = direction, max_days, budget
        self.probes: List[float] = []

    # -- entry
    def run(self):
        """('return', value) | ('raise', exception name) | ('fall', None) | ('timeout', None)"""
        f = self.f
        env = {}
        a = f.node.args
        names = [x.arg for x in a.posonlyargs + a.args]
        defaults = dict(zip(names[len(names) - len(a.defaults):], a.defaults))
        for i, p in enumerate(names):
            if i == 0:
                env[p] = _SELF
            elif i == 1:
                env[p] = SDate(0.0)
            elif p == 'direction':
                env[p] = self.direction
            elif p == 'max_days':
                env[p] = self.max_days
            elif p in defaults:
                env[p] = self.ev(defaults[p], {}, f)
            else:
                raise SimUnknown(f.node, f"parameter {p} without a default")
        for k, d in zip(a.kwonlyargs, a.kw_defaults):
            if d is None:
                raise SimUnknown(f.node, f"parameter {k.arg} without a default")
            env[k.arg] = self.ev(d, {}, f)
        try:
            self.block(f.body, env, f, 0)
        except _Sig as s:
            if s.kind in ('return', 'raise', 'timeout'):
                return s.kind, s.value
            raise SimUnknown(s.node, f"`{s.kind}` outside a loop")
        return 'fall', None

    # -- statements
    def block(self, stmts, env, f, depth):
        for st in stmts:
            self.budget -= 1
            if self.budget < 0:
                raise _Sig('timeout')
            if isinstance(st, ast.Expr):
                v = st.value
                if isinstance(v, ast.Constant):
                    continue
                if isinstance(v, ast.Call):
                    root = v.func
                    while isinstance(root, ast.Attribute):
                        root = root.value
                    if isinstance(root, ast.Name) and (root.id in _QUIET or (root.id == 'print' and root is v.func)):
                        continue
                self.ev(v, env, f, depth)
            elif isinstance(st, ast.Assign):
                val = self.ev(st.value, env, f, depth)
                for t in st.targets:
                    self.store(t, val, env)
            elif isinstance(st, ast.AnnAssign):
                if st.value is not None:
                    self.store(st.target, self.ev(st.value, env, f, depth), env)
            elif isinstance(st, ast.AugAssign):
                if not isinstance(st.target, ast.Name):
                    raise SimUnknown(st, "augmented assignment to something else than a local")
                cur = self.ev(ast.Name(id=st.target.id, ctx=ast.Load()), env, f, depth)
                env[st.target.id] = self.binop(cur, st.op, self.ev(st.value, env, f, depth), st)
            elif isinstance(st, ast.If):
                self.block(st.body if self.truth(self.ev(st.test, env, f, depth)) else st.orelse, env, f, depth)
            elif isinstance(st, ast.While):
                broke = False
                while self.truth(self.ev(st.test, env, f, depth)):
                    self.budget -= 1
                    if self.budget < 0:
                        raise _Sig('timeout')
                    try:
                        self.block(st.body, env, f, depth)
                    except _Sig as s:
                        if s.kind == 'break':
                            broke = True
                            break
                        if s.kind != 'continue':
                            raise
                if not broke:
                    self.block(st.orelse, env, f, depth)
            elif isinstance(st, ast.For):
                it = self.iterate(self.ev(st.iter, env, f, depth), st.iter)
                broke = False
                for x in it:
                    self.budget -= 1
                    if self.budget < 0:
                        raise _Sig('timeout')
                    self.store(st.target, x, env)
                    try:
                        self.block(st.body, env, f, depth)
                    except _Sig as s:
                        if s.kind == 'break':
                            broke = True
                            break
                        if s.kind != 'continue':
                            raise
                if not broke:
                    self.block(st.orelse, env, f, depth)
            elif isinstance(st, ast.Return):
                raise _Sig('return', self.ev(st.value, env, f, depth) if st.value is not None else None, st)
            elif isinstance(st, ast.Raise):
                if st.exc is None:
                    raise SimUnknown(st, "bare raise")
                raise _Sig('raise', exc_name(st), st)
            elif isinstance(st, ast.Assert):
                if not self.truth(self.ev(st.test, env, f, depth)):
                    raise _Sig('raise', 'AssertionError', st)
            elif isinstance(st, ast.Break):
                raise _Sig('break', None, st)
            elif isinstance(st, ast.Continue):
                raise _Sig('continue', None, st)
            elif isinstance(st, ast.Pass):
                continue
            else:
                raise SimUnknown(st, f"statement `{type(st).__name__}`")

    def iterate(self, it, node):
        if isinstance(it, SGen):
            return it.rest()
        if isinstance(it, (range, list, tuple)):
            return list(it)
        raise SimUnknown(node, "iteration over something else than a range / a list of values")

    def comprehension(self, e, env, f, depth):
        out = []

        def rec(i, env2):
            if i == len(e.generators):
                out.append(self.ev(e.elt, env2, f, depth))
                return
            g = e.generators[i]
            if g.is_async:
                raise SimUnknown(e, "async comprehension")
            for x in self.iterate(self.ev(g.iter, env2, f, depth), g.iter):
                self.budget -= 1
                if self.budget < 0:
                    raise _Sig('timeout')
                env3 = dict(env2)
                self.store(g.target, x, env3)
                if all(self.truth(self.ev(c, env3, f, depth)) for c in g.ifs):
                    rec(i + 1, env3)
        rec(0, env)
        return out

    def store(self, t, val, env):
        if isinstance(t, ast.Name):
            env[t.id] = val
        elif isinstance(t, (ast.Tuple, ast.List)) and isinstance(val, (tuple, list)) and len(t.elts) == len(val):
            for x, v in zip(t.elts, val):
                self.store(x, v, env)
        else:
            raise SimUnknown(t, "store into something else than a local")

    # -- expressions
    @staticmethod
    def truth(v):
        if isinstance(v, SGen):
            return True
        if isinstance(v, (SDate, STd)) or v is _SELF:
            if isinstance(v, STd):
                return v.days != 0
            return True
        return bool(v)

    def binop(self, a, op, b, node):
        num = (int, float)
        isnum = lambda x: isinstance(x, num) and not isinstance(x, bool) or isinstance(x, bool)
        try:
            if isinstance(op, ast.Add):
                if isinstance(a, SDate) and isinstance(b, STd):
                    return SDate(a.off + b.days)
                if isinstance(a, STd) and isinstance(b, SDate):
                    return SDate(a.days + b.off)
                if isinstance(a, STd) and isinstance(b, STd):
                    return STd(a.days + b.days)
                if isnum(a) and isnum(b):
                    return a + b
            elif isinstance(op, ast.Sub):
                if isinstance(a, SDate) and isinstance(b, STd):
                    return SDate(a.off - b.days)
                if isinstance(a, SDate) and isinstance(b, SDate):
                    return STd(a.off - b.off)
                if isinstance(a, STd) and isinstance(b, STd):
                    return STd(a.days - b.days)
                if isnum(a) and isnum(b):
                    return a - b
            elif isinstance(op, ast.Mult):
                if isinstance(a, STd) and isnum(b):
                    return STd(a.days * b)
                if isnum(a) and isinstance(b, STd):
                    return STd(a * b.days)
                if isnum(a) and isnum(b):
                    return a * b
            elif isinstance(op, (ast.Div, ast.FloorDiv, ast.Mod)) and isnum(a) and isnum(b):
                if b == 0:
                    raise _Sig('raise', 'ZeroDivisionError', node)
                return a / b if isinstance(op, ast.Div) else (a // b if isinstance(op, ast.FloorDiv) else a % b)
            elif isinstance(op, ast.Div) and isinstance(a, STd) and isnum(b) and b != 0:
                return STd(a.days / b)
        except TypeError:
            pass
        raise SimUnknown(node, f"`{src(node)[:60]}`: operands outside the value domain")

    def cmp(self, a, op, b, node):
        if isinstance(op, ast.Is):
            if a is None or b is None or isinstance(a, bool) or isinstance(b, bool):
                return a is b
            raise SimUnknown(node, "identity test")
        if isinstance(op, ast.IsNot):
            return not self.cmp(a, ast.Is(), b, node)
        ka = a.off if isinstance(a, SDate) else (a.days if isinstance(a, STd) else a)
        kb = b.off if isinstance(b, SDate) else (b.days if isinstance(b, STd) else b)
        if type(a) in (SDate, STd) or type(b) in (SDate, STd):
            if type(a) is not type(b):
                if isinstance(op, ast.Eq):
                    return False
                if isinstance(op, ast.NotEq):
                    return True
                raise SimUnknown(node, "comparison between a date and a number")
        if isinstance(op, ast.Eq):
            return ka == kb
        if isinstance(op, ast.NotEq):
            return ka != kb
        if isinstance(op, (ast.In, ast.NotIn)):
            if isinstance(kb, (tuple, list, range)):
                return (ka in kb) == isinstance(op, ast.In)
            raise SimUnknown(node, "membership test")
        if ka is None or kb is None or ka is _SELF or kb is _SELF:
            raise SimUnknown(node, "ordering comparison with None")
        try:
            if isinstance(op, ast.Lt):
                return ka < kb
            if isinstance(op, ast.LtE):
                return ka <= kb
            if isinstance(op, ast.Gt):
                return ka > kb
            if isinstance(op, ast.GtE):
                return ka >= kb
        except TypeError:
            pass
        raise SimUnknown(node, "comparison outside the value domain")

    def ev(self, e, env, f, depth=0):
        if isinstance(e, ast.Constant):
            if isinstance(e.value, (int, float, bool)) or e.value is None:
                return e.value
            raise SimUnknown(e, "constant outside the value domain")
        if isinstance(e, ast.Name):
            if e.id in env:
                return env[e.id]
            raise SimUnknown(e, f"`{e.id}` is not a local of the search")
        if isinstance(e, ast.UnaryOp):
            v = self.ev(e.operand, env, f, depth)
            if isinstance(e.op, ast.Not):
                return not self.truth(v)
            if isinstance(e.op, ast.USub):
                if isinstance(v, STd):
                    return STd(-v.days)
                if isinstance(v, (int, float)):
                    return -v
            if isinstance(e.op, ast.UAdd) and isinstance(v, (int, float, STd)):
                return v
            raise SimUnknown(e, "unary operator")
        if isinstance(e, ast.BinOp):
            return self.binop(self.ev(e.left, env, f, depth), e.op, self.ev(e.right, env, f, depth), e)
        if isinstance(e, ast.BoolOp):
            v = None
            for x in e.values:
                v = self.ev(x, env, f, depth)
                if isinstance(e.op, ast.And) and not self.truth(v):
                    return v
                if isinstance(e.op, ast.Or) and self.truth(v):
                    return v
            return v
        if isinstance(e, ast.IfExp):
            return self.ev(e.body if self.truth(self.ev(e.test, env, f, depth)) else e.orelse, env, f, depth)
        if isinstance(e, ast.Compare):
            left = self.ev(e.left, env, f, depth)
            for op, c in zip(e.ops, e.comparators):
                right = self.ev(c, env, f, depth)
                if not self.cmp(left, op, right, e):
                    return False
                left = right
            return True
        if isinstance(e, (ast.Tuple, ast.List)):
            return tuple(self.ev(x, env, f, depth) for x in e.elts)
        if isinstance(e, ast.Subscript) and not isinstance(e.slice, ast.Slice):
            seq, i = self.ev(e.value, env, f, depth), self.ev(e.slice, env, f, depth)
            if isinstance(seq, (list, tuple, range)) and isinstance(i, int) and not isinstance(i, bool):
                if -len(seq) <= i < len(seq):
                    return seq[i]
                raise _Sig('raise', 'IndexError', e)
            raise SimUnknown(e, "subscript of something else than a list of values")
        if isinstance(e, ast.GeneratorExp):
            return SGen(self.comprehension(e, env, f, depth))
        if isinstance(e, ast.ListComp):
            return self.comprehension(e, env, f, depth)
        if isinstance(e, ast.Call):
            return self.call(e, env, f, depth)
        raise SimUnknown(e, f"`{src(e)[:60]}` is outside the value domain")

    def call(self, c, env, f, depth):
        fn = c.func
        md = midnight_arg(c)
        if md is not None:
            # datetime(d.year, d.month, d.day) / d.replace(hour=0, ..) / datetime.combine(d.date(), time.min): the date cut
            # to the start of its day.  The search starts at a time of day (TOD) after midnight.
            d = self.ev(md, env, f, depth)
            if isinstance(d, SDate):
                import math
                return SDate(math.floor(d.off + TOD + 1e-9) - TOD)
            raise SimUnknown(c, "midnight of something else than a date")
        if any(isinstance(a, ast.Starred) for a in c.args) or any(k.arg is None for k in c.keywords):
            raise SimUnknown(c, "star arguments")
        if isinstance(fn, ast.Name) and fn.id not in env:
            if fn.id == 'timedelta':
                days = 0.0
                vals = list(zip(_TD_ORDER, c.args)) + [(k.arg, k.value) for k in c.keywords]
                for name, a in vals:
                    v = self.ev(a, env, f, depth)
                    if name not in _TD_SCALE or not isinstance(v, (int, float)):
                        raise SimUnknown(c, "timedelta argument")
                    days += v * _TD_SCALE[name]
                return STd(days)
            if fn.id == 'next' and 1 <= len(c.args) <= 2 and not c.keywords:
                it = self.ev(c.args[0], env, f, depth)
                if isinstance(it, SGen):
                    if it.pos < len(it.items):
                        it.pos += 1
                        return it.items[it.pos - 1]
                    if len(c.args) == 2:
                        return self.ev(c.args[1], env, f, depth)
                    raise _Sig('raise', 'StopIteration', c)
                raise SimUnknown(c, "next() of something else than a generator expression")
            if fn.id in ('list', 'tuple', 'iter', 'any', 'all', 'len', 'enumerate', 'reversed') and len(c.args) == 1 and not c.keywords:
                v = self.ev(c.args[0], env, f, depth)
                if fn.id == 'iter':
                    return v if isinstance(v, SGen) else SGen(self.iterate(v, c))
                if fn.id == 'len' and isinstance(v, SGen):
                    raise _Sig('raise', 'TypeError', c)
                items = self.iterate(v, c)
                if fn.id in ('list', 'tuple'):
                    return items
                if fn.id == 'any':
                    return any(self.truth(x) for x in items)
                if fn.id == 'all':
                    return all(self.truth(x) for x in items)
                if fn.id == 'len':
                    return len(items)
                if fn.id == 'enumerate':
                    return [(i, x) for i, x in enumerate(items)]
                return list(reversed(items))
            if fn.id in ('range', 'abs', 'int', 'float', 'min', 'max', 'bool', 'round') and not c.keywords:
                args = [self.ev(a, env, f, depth) for a in c.args]
                if all(isinstance(a, (int, float)) for a in args):
                    try:
                        return {'range': range, 'abs': abs, 'int': int, 'float': float, 'min': min, 'max': max,
                                'bool': bool, 'round': round}[fn.id](*args)
                    except (TypeError, ValueError):
                        pass
                raise SimUnknown(c, f"{fn.id}() over values outside the domain")
            g = self.prog.module_func(f.module.name, fn.id)
            if g is None:
                q = self.prog.resolve_import(f.module, fn.id)
                g = self.prog.funcs.get(q) if q else None
            if g is not None and g.kind == 'function':
                return self.enter(g, c, None, env, f, depth)
            raise SimUnknown(c, f"call of `{fn.id}`")
        if isinstance(fn, ast.Attribute):
            if fn.attr == 'get_available_units':
                recv = self.ev(fn.value, env, f, depth)
                if recv is not _SELF or not c.args and not c.keywords:
                    raise SimUnknown(c, "capacity query on something else than the resource")
                a0 = c.args[0] if c.args else next((k.value for k in c.keywords if k.arg == 'date'), None)
                d = self.ev(a0, env, f, depth) if a0 is not None else None
                if not isinstance(d, SDate):
                    raise SimUnknown(c, "capacity query without a date")
                self.probes.append(d.off)
                import math
                return 0.25 if math.floor(d.off + TOD + 1e-9) in self.avail else 0.0    # a small positive capacity is positive
            if isinstance(fn.value, ast.Name) and (env.get(fn.value.id) is _SELF or fn.value.id in self.prog.classes) and f.cls:
                g = self.prog.find_method(f.cls, unmangle(fn.attr))
                if g is not None and g.kind in ('method', 'static') and fn.attr.startswith('_'):
                    return self.enter(g, c, _SELF if g.kind == 'method' else None, env, f, depth)
        raise SimUnknown(c, f"call `{src(c)[:60]}`")

    def enter(self, g, c, recv, env, f, depth):
        if depth >= 3:
            raise SimUnknown(c, "helper nesting")
        a = g.node.args
        if a.vararg or a.kwarg or a.kwonlyargs:
            raise SimUnknown(c, "helper with star parameters")
        names = [x.arg for x in a.posonlyargs + a.args]
        new = {}
        if recv is not None:
            new[names[0]] = recv
            names = names[1:]
        if len(c.args) > len(names):
            raise SimUnknown(c, "helper arguments")
        for p, x in zip(names, c.args):
            new[p] = self.ev(x, env, f, depth)
        for k in c.keywords:
            if k.arg not in names or k.arg in new:
                raise SimUnknown(c, "helper arguments")
            new[k.arg] = self.ev(k.value, env, f, depth)
        nd = len(a.defaults)
        allnames = [x.arg for x in a.posonlyargs + a.args]
        for p, d in zip(allnames[len(allnames) - nd:], a.defaults):
            if p not in new:
                new[p] = self.ev(d, {}, g, depth)
        if any(p not in new for p in names):
            raise SimUnknown(c, "helper arguments")
        try:
            self.block(g.body, new, g, depth + 1)
        except _Sig as s:
            if s.kind == 'return':
                return s.value
            raise
        return None


# ---------------------------------------------------------------------------------------------------- generator loops
def _own_nodes(fn):
    """nodes of a function body, nested defs / lambdas / classes not entered"""
    stack = list(fn.body)
    while stack:
        n = stack.pop()
        yield n
        for c in ast.iter_child_nodes(n):
            if not isinstance(c, (ast.FunctionDef, ast.AsyncFunctionDef, ast.Lambda, ast.ClassDef)):
                stack.append(c)


def _simple_stream_generator(g: ast.FunctionDef):
    """the `for` of a generator function of the shape `[docstring]; for V in IT: <statements with `yield E`>`: every
    yield is an expression statement inside that one loop, no other loop / try / with / return / break, no
    `yield from`.  None when g is anything else."""
    a = g.args
    if a.vararg or a.kwarg or a.kwonlyargs or a.defaults or g.decorator_list and any(
            getattr(d, 'id', '') != 'staticmethod' for d in g.decorator_list):
        return None
    body = [st for st in g.body if not (isinstance(st, ast.Expr) and isinstance(st.value, ast.Constant))]
    if len(body) != 1 or not isinstance(body[0], ast.For) or body[0].orelse:
        return None
    loop = body[0]
    ys = [n for n in _own_nodes(g) if isinstance(n, (ast.Yield, ast.YieldFrom, ast.Await))]
    if not ys or any(not isinstance(n, ast.Yield) or n.value is None for n in ys):
        return None
    if any(isinstance(n, (ast.For, ast.While, ast.Try, ast.With, ast.Return, ast.Break, ast.Global, ast.Nonlocal)) and n is not loop
           for n in _own_nodes(g)):
        return None
    # yields only as whole statements (the consumer's body takes the place of the statement)
    whole = [st.value for st in _own_nodes(g) if isinstance(st, ast.Expr) and isinstance(st.value, ast.Yield)]
    if len(whole) != len(ys):
        return None
    # private names would be mangled differently where the loop is inlined
    if any(isinstance(n, ast.Attribute) and n.attr.startswith('__') and not n.attr.endswith('__') for n in _own_nodes(g)):
        return None
    return loop


def inline_stream_generators(text: str) -> Optional[str]:
    """source text of a module in which every `for T in G(args): BODY` over a simple stream generator G of the same
    module (module function, or method of the same class called as self.G / K.G) is rewritten to G's own loop with
    `T = E; BODY` in place of every `yield E` (G's locals renamed, parameters replaced by the argument expressions).
    Valid because BODY runs exactly once per yielded value at the place of the yield; BODY must not `break` /
    `continue` the consumer loop (a return / raise leaves both spellings alike: G has no try / with).  None when nothing was rewritten."""
    try:
        tree = ast.parse(text)
    except SyntaxError:
        return None
    mod_funcs = {st.name: st for st in tree.body if isinstance(st, ast.FunctionDef)}
    count = [0]

    def loop_level(stmts):
        """statements that belong to the consumer loop itself (bodies of nested loops / defs not entered)"""
        for st in stmts:
            yield st
            if isinstance(st, (ast.For, ast.While, ast.FunctionDef, ast.AsyncFunctionDef, ast.ClassDef)):
                continue
            for fld in ('body', 'orelse', 'finalbody'):
                yield from loop_level(getattr(st, fld, None) or [])
            for h in getattr(st, 'handlers', None) or []:
                yield from loop_level(h.body)

    def rewrite(owner_cls, fn):
        class T(ast.NodeTransformer):
            def visit_FunctionDef(self, n):
                return n if n is not fn else self.generic_visit(n)

            def visit_Lambda(self, n):
                return n

            def visit_For(self, n):
                self.generic_visit(n)
                c = n.iter
                if n.orelse or not isinstance(c, ast.Call) or c.keywords or any(isinstance(x, ast.Starred) for x in c.args):
                    return n
                g, drop = None, 0
                if isinstance(c.func, ast.Name):
                    g = mod_funcs.get(c.func.id)
                elif isinstance(c.func, ast.Attribute) and isinstance(c.func.value, ast.Name) and owner_cls is not None and \
                        c.func.value.id in ('self', 'cls', owner_cls.name):
                    g = next((st for st in owner_cls.body if isinstance(st, ast.FunctionDef) and st.name == c.func.attr), None)
                    if g is not None and not any(getattr(d, 'id', '') == 'staticmethod' for d in g.decorator_list):
                        drop = 1
                if g is None or g is fn:
                    return n
                gl = _simple_stream_generator(g)
                params = [x.arg for x in g.args.posonlyargs + g.args.args]
                if gl is None or len(params) - drop != len(c.args):
                    return n
                if any(isinstance(st, (ast.Break, ast.Continue)) for st in loop_level(n.body)):
                    return n
                count[0] += 1
                tag = f"__g{count[0]}"
                stored = {x.id for x in ast.walk(g) if isinstance(x, ast.Name) and isinstance(x.ctx, ast.Store)}
                sub = {}
                pre = []
                args = ([c.func.value] if drop else []) + list(c.args)
                for p, a_ in zip(params, args):
                    if p not in stored and isinstance(a_, (ast.Name, ast.Attribute, ast.Constant)) and \
                            not any(isinstance(x, ast.Call) for x in ast.walk(a_)):
                        sub[p] = a_
                    else:
                        pre.append(ast.Assign(targets=[ast.Name(id=p + tag, ctx=ast.Store())], value=a_))
                        sub[p] = ast.Name(id=p + tag, ctx=ast.Load())
                for x in stored:
                    if x not in sub:
                        sub[x] = ast.Name(id=x + tag, ctx=ast.Load())

                class R(ast.NodeTransformer):
                    def visit_Name(self, x):
                        if x.id in sub:
                            r = copy.deepcopy(sub[x.id])
                            if isinstance(x.ctx, ast.Store):
                                if not isinstance(r, ast.Name):
                                    return x
                                r.ctx = ast.Store()
                            return r
                        return x

                    def visit_Expr(self, st):
                        if isinstance(st.value, ast.Yield):
                            val = self.visit(copy.deepcopy(st.value.value))
                            return [ast.Assign(targets=[copy.deepcopy(n.target)], value=val)] + copy.deepcopy(n.body)
                        return self.generic_visit(st)
                new = R().visit(copy.deepcopy(gl))
                out = pre + [new]
                for st in out:
                    ast.copy_location(st, n)
                    ast.fix_missing_locations(st)
                return out
        T().visit(fn)

    for st in tree.body:
        if isinstance(st, ast.FunctionDef):
            rewrite(None, st)
        elif isinstance(st, ast.ClassDef):
            for m in st.body:
                if isinstance(m, ast.FunctionDef):
                    rewrite(st, m)
    if not count[0]:
        return None
    try:
        return ast.unparse(ast.fix_missing_locations(tree))
    except Exception:
        return None
