"""Helpers of rules/c17.py (calendars, availability search).

* `Ev` / `run_block`: decide the tests of a small statement block over a *finite abstract domain* given by the caller
  (representative points: "no information / negative / zero / positive" for unit values, "before / at start / inside /
  at end / after" for a date against a validity interval, `-1 / +1` for a direction).  The rule then compares the
  outcome of the block (which expression is returned, which stores are executed, does it fall through) with the
  outcome the property text prescribes for that point.  Tests the domain cannot decide end as `Unknown`
  (-> UNDECIDED), comparisons that would raise at run time (`None < 0`) end as `WouldRaise`.
  Nothing of the analysed library is imported or executed: the evaluator walks ast nodes only.
* `cnf` / `path_clauses` / `guard_facts`: raises with their path condition in conjunctive normal form, helper
  validators instantiated at their call sites (parameters replaced by the expanded arguments).
* `dict_entries`: key/value terms stored by a dict-valued expression.
"""
from __future__ import annotations

import ast
import copy
from typing import Dict, List, Optional, Tuple

from sa import facts
from sa.cfg import cfg_of
from sa.flow import Expander, flow_of, subst
from sa.model import Func, unmangle, walk_no_nested, src
from sa.pat import match, same, names_in
from sa.effects import exc_name


# ---------------------------------------------------------------------------------------------------- evaluator
class Unknown(Exception):
    def __init__(self, node, why=''):
        self.node, self.why = node, why


class WouldRaise(Exception):
    def __init__(self, node, why=''):
        self.node, self.why = node, why


class Ev:
    """env: list of (pattern ast, sample value, mode); mode 'sign' = the sample stands for its whole sign class
    (only comparisons with the constant 0 / None are decided), 'exact' = the sample is the value itself."""

    def __init__(self, env):
        self.env = list(env)

    def lookup(self, e):
        for pat, val, mode in self.env:
            if same(pat, e):
                return val, mode
        return None

    def val(self, e) -> Tuple[object, str]:
        hit = self.lookup(e)
        if hit is not None:
            return hit
        if isinstance(e, ast.Constant):
            return e.value, 'const'
        if isinstance(e, ast.UnaryOp) and isinstance(e.op, ast.USub):
            c = facts.const_num(e)
            if c is not None:
                return c, 'const'
        if isinstance(e, ast.UnaryOp) and isinstance(e.op, ast.Not):
            return (not self.truth(e.operand)), 'exact'
        if isinstance(e, ast.BoolOp):
            last = None
            for v in e.values:
                last = self.val(v)
                t = bool(last[0])
                if isinstance(e.op, ast.And) and not t:
                    return last
                if isinstance(e.op, ast.Or) and t:
                    return last
            return last
        if isinstance(e, ast.IfExp):
            return self.val(e.body if self.truth(e.test) else e.orelse)
        if isinstance(e, ast.Compare):
            left = self.val(e.left)
            for op, comp in zip(e.ops, e.comparators):
                right = self.val(comp)
                if not self._cmp(left, op, right, e):
                    return False, 'exact'
                left = right
            return True, 'exact'
        raise Unknown(e, f"`{src(e)[:70]}` is outside the abstract domain")

    def truth(self, e) -> bool:
        return bool(self.val(e)[0])

    def _cmp(self, a, op, b, node) -> bool:
        (av, am), (bv, bm) = a, b
        if isinstance(op, (ast.Is, ast.IsNot)):
            if av is None or bv is None:
                r = (av is None and bv is None)
            else:
                raise Unknown(node, "identity test between values")
            return r if isinstance(op, ast.Is) else not r
        if isinstance(op, (ast.In, ast.NotIn)):
            raise Unknown(node, "membership test")
        # sign samples: only against the constant 0 (or None for ==/!=)
        for (xv, xm), (yv, ym) in (((av, am), (bv, bm)), ((bv, bm), (av, am))):
            if xm == 'sign' and xv is not None:
                if ym == 'const' and yv is not None and not (isinstance(yv, (int, float)) and yv == 0):
                    raise Unknown(node, "comparison of a unit value with a constant other than 0")
                if ym == 'sign' and yv is not None:
                    raise Unknown(node, "comparison between two unit values")
        if isinstance(op, (ast.Eq, ast.NotEq)):
            r = (av == bv)
            return r if isinstance(op, ast.Eq) else not r
        if av is None or bv is None:
            raise WouldRaise(node, f"`{src(node)[:60]}` compares None")
        try:
            if isinstance(op, ast.Lt):
                return av < bv
            if isinstance(op, ast.LtE):
                return av <= bv
            if isinstance(op, ast.Gt):
                return av > bv
            if isinstance(op, ast.GtE):
                return av >= bv
        except TypeError:
            raise WouldRaise(node, f"`{src(node)[:60]}` compares incomparable values")
        raise Unknown(node, "operator")

    def select(self, e):
        """the sub-expression of e whose value e takes (through IfExp / and / or)"""
        if self.lookup(e) is not None:
            return e
        if isinstance(e, ast.IfExp):
            return self.select(e.body if self.truth(e.test) else e.orelse)
        if isinstance(e, ast.BoolOp):
            last = None
            for v in e.values:
                last = v
                t = self.truth(v)
                if isinstance(e.op, ast.And) and not t:
                    break
                if isinstance(e.op, ast.Or) and t:
                    break
            return self.select(last)
        return e


class Outcome:
    def __init__(self, kind, stmt=None, value=None, executed=None, why=''):
        self.kind = kind            # return | raise | continue | break | fall | unknown | wouldraise
        self.stmt = stmt
        self.value = value          # expanded + selected return expression
        self.executed = executed or []
        self.why = why

    def __repr__(self):
        return f"<{self.kind} {src(self.value) if self.value is not None else ''}>"


_NONE = ast.Constant(value=None)


def run_block(stmts, ev: Ev, ex: Expander, executed=None) -> Outcome:
    """abstractly execute a loop-free statement list; simple statements are collected in `executed`"""
    executed = [] if executed is None else executed
    try:
        for st in stmts:
            if isinstance(st, ast.If):
                t = ev.truth(ex.expand(st.test))
                r = run_block(st.body if t else st.orelse, ev, ex, executed)
                if r.kind != 'fall':
                    return r
            elif isinstance(st, ast.Return):
                v = ex.expand(st.value) if st.value is not None else _NONE
                return Outcome('return', st, ev.select(v), executed)
            elif isinstance(st, ast.Raise):
                return Outcome('raise', st, None, executed)
            elif isinstance(st, ast.Continue):
                return Outcome('continue', st, None, executed)
            elif isinstance(st, ast.Break):
                return Outcome('break', st, None, executed)
            elif isinstance(st, (ast.Assign, ast.AugAssign, ast.AnnAssign, ast.Expr, ast.Pass)):
                executed.append(st)
            else:
                return Outcome('unknown', st, None, executed, f"statement `{type(st).__name__}` inside the block")
    except Unknown as u:
        return Outcome('unknown', u.node, None, executed, u.why)
    except WouldRaise as w:
        return Outcome('wouldraise', w.node, None, executed, w.why)
    return Outcome('fall', None, None, executed)


# ---------------------------------------------------------------------------------------------------- CNF of conditions
Atom = Tuple[ast.AST, bool]


def cnf(t: ast.AST, pol: bool) -> List[List[Atom]]:
    """condition (t with polarity) as a conjunction of clauses, each clause a disjunction of atoms"""
    if isinstance(t, ast.UnaryOp) and isinstance(t.op, ast.Not):
        return cnf(t.operand, not pol)
    if isinstance(t, ast.BoolOp):
        conj = (isinstance(t.op, ast.And) and pol) or (isinstance(t.op, ast.Or) and not pol)
        parts = [cnf(v, pol) for v in t.values]
        if conj:
            return [c for p in parts for c in p]
        if all(len(p) == 1 for p in parts):
            return [[a for p in parts for a in p[0]]]
        return [[(t, pol)]]
    return [[(t, pol)]]


def live_conditions(cfg, cn, drop_raising: bool = False):
    """cfg.conditions(cn); with drop_raising the conditions that only say "an earlier guard did not fire" (the other
    branch of the test can never reach the normal exit) are left out"""
    out = []
    for t, pol in cfg.conditions(cn):
        if drop_raising:
            other = [b for b in cfg.nodes if b.kind == 'branch' and b.test is t and b.polarity == (not pol)]
            if other and all(cfg.exit.id not in cfg.reachable_after(b) for b in other):
                continue
        out.append((t, pol))
    return out


def path_clauses(prog, f: Func, node: ast.AST, typer, drop_raising: bool = False) -> List[List[Atom]]:
    """CNF of the path condition of the statement containing node (tests expanded)"""
    cfg = cfg_of(f)
    cn = cfg.node_containing(node) or cfg.node_of(node)
    if cn is None:
        return []
    ex = Expander(prog, f, typer)
    out = []
    for t, pol in live_conditions(cfg, cn, drop_raising):
        out += cnf(ex.expand(t, cfg.node_containing(t)), pol)
    return out


def clause_text(cl: List[Atom]) -> str:
    return ' or '.join(('' if p else 'not ') + src(a) for a, p in cl)


_NEG = {'>': '<=', '>=': '<', '<': '>=', '<=': '>', '==': '!=', '!=': '=='}
_FLIP = {'>': '<', '>=': '<=', '<': '>', '<=': '>=', '!=': '!=', '==': '=='}
_OPS = {ast.Gt: '>', ast.GtE: '>=', ast.Lt: '<', ast.LtE: '<=', ast.NotEq: '!=', ast.Eq: '=='}


def compare_atom(t: ast.AST, pol: bool) -> Optional[Tuple[ast.AST, str, ast.AST]]:
    """single binary comparison with polarity folded in: (left, op, right)"""
    while isinstance(t, ast.UnaryOp) and isinstance(t.op, ast.Not):
        t, pol = t.operand, not pol
    if isinstance(t, ast.Compare) and len(t.ops) == 1 and type(t.ops[0]) in _OPS:
        op = _OPS[type(t.ops[0])]
        return t.left, (op if pol else _NEG[op]), t.comparators[0]
    return None


def sign_atom(t: ast.AST, pol: bool) -> Optional[Tuple[ast.AST, str]]:
    """(x, op) with the atom equivalent to `x op 0`"""
    c = compare_atom(t, pol)
    if c is None:
        return None
    l, op, r = c
    rc, lc = facts.const_num(r), facts.const_num(l)
    if rc is not None and rc == 0 and lc is None:
        return l, op
    if lc is not None and lc == 0 and rc is None:
        return r, _FLIP[op]
    return None


def none_atom(t: ast.AST, pol: bool) -> Optional[Tuple[ast.AST, bool]]:
    """(x, is_none)"""
    while isinstance(t, ast.UnaryOp) and isinstance(t.op, ast.Not):
        t, pol = t.operand, not pol
    m = match("$x is None", t)
    if m:
        return m['x'], pol
    m = match("$x is not None", t)
    if m:
        return m['x'], not pol
    return None


def is_mode_atom(t: ast.AST, pol: bool, names=None) -> bool:
    """None tests and type tests: the documented mode splits of the constructors.  With `names`, only tests about
    expressions built from those names count."""
    while isinstance(t, ast.UnaryOp) and isinstance(t.op, ast.Not):
        t = t.operand
    subj = None
    na = none_atom(t, True)
    if na:
        subj = na[0]
    else:
        for p in ("type($x) is $t", "type($x) is not $t", "type($x) == $t", "type($x) != $t", "type($x) in $t",
                  "type($x) not in $t", "isinstance($x, $t)"):
            m = match(p, t)
            if m:
                subj = m['x']
                break
    if subj is None:
        return False
    return names is None or (names_in(subj) - {'list', 'sorted', 'set', 'tuple', 'dict', 'iter'}) <= set(names)


def is_mode_clause(cl: List[Atom], names=None) -> bool:
    return all(is_mode_atom(a, p, names) for a, p in cl)


# ---------------------------------------------------------------------------------------------------- guards
class G:
    """a raise with its condition: clauses (CNF), universally bound loop variables, and where it is anchored in the
    function it was collected for (the raise itself, or the call of the helper that contains it)"""

    def __init__(self, exc, clauses, binders, func, raise_node, anchor, via=None):
        self.exc = exc
        self.clauses: List[List[Atom]] = clauses
        self.binders: List[Tuple[ast.AST, ast.AST]] = binders
        self.func = func                # function the raise is written in
        self.raise_node = raise_node
        self.anchor = anchor            # ast node inside the collecting function (raise stmt / helper call)
        self.via = via                  # helper call node or None
        self.dom = None                 # cfg node (of the collecting function) where the guard is evaluated

    def __repr__(self):
        b = ' '.join(f"for {src(t)} in {src(i)}" for t, i in self.binders)
        return f"<G {self.exc} {b} | " + ' AND '.join('(' + clause_text(c) + ')' for c in self.clauses) + '>'


def helper_of(prog, f: Func, call: ast.Call) -> Optional[Func]:
    """same-class helper called as K.__h(..) / self.__h(..) / cls.__h(..) / self.h(..)"""
    fn = call.func
    if not (isinstance(fn, ast.Attribute) and isinstance(fn.value, ast.Name) and f.cls):
        return None
    recv = fn.value.id
    if recv not in (f.cls, 'self', 'cls') and recv not in [c.name for c in prog.mro(f.cls)]:
        return None
    m = prog.find_method(f.cls, unmangle(fn.attr))
    if m is None or m.qual == f.qual:
        return None
    return m


def fors_around(f: Func, node: ast.AST) -> List[ast.For]:
    """For statements of f whose body (not the else part) contains node, outermost first.  (cfg.enclosing_fors needs
    a path back to the loop header, which a `raise` / `return` does not have.)"""
    out = []
    for n in walk_no_nested(f.node):
        if isinstance(n, ast.For) and any(x is node for st in n.body for x in ast.walk(st)):
            out.append(n)
    out.sort(key=lambda n: (n.lineno, n.col_offset))
    return out


def _guard_point(f: Func, cfg, raise_node):
    """cfg node at which the guard is evaluated as a whole: the header of the outermost loop around the raise, else
    the test of the innermost `if` around it, else the raise itself"""
    fors = fors_around(f, raise_node)
    if fors:
        return cfg.node_of(fors[0])
    best = None
    for n in walk_no_nested(f.node):
        if isinstance(n, ast.If) and any(x is raise_node for st in n.body + n.orelse for x in ast.walk(st)):
            if best is None or any(x is n for x in ast.walk(best)):
                best = n
    return cfg.node_of(best) if best is not None else cfg.node_of(raise_node)


def guard_facts(prog, typer, f: Func, depth: int = 0) -> List[G]:
    out: List[G] = []
    cfg0 = cfg_of(f)
    ex0 = Expander(prog, f, typer)
    for n in walk_no_nested(f.node):
        if not isinstance(n, ast.Raise):
            continue
        rn = cfg0.node_of(n)
        if rn is None or not cfg0.is_reachable(rn):
            continue
        clauses = []
        for t, pol in live_conditions(cfg0, rn, True):
            clauses += cnf(ex0.expand(t, cfg0.node_containing(t)), pol)
        binders = [(fo.target, ex0.expand(fo.iter, cfg0.node_of(fo))) for fo in fors_around(f, n)]
        g = G(exc_name(n), clauses, binders, f, n, n)
        g.dom = _guard_point(f, cfg0, n)
        out.append(g)
    if depth < 2:
        cfg = cfg_of(f)
        ex = Expander(prog, f, typer)
        for c in [n for n in walk_no_nested(f.node) if isinstance(n, ast.Call)]:
            h = helper_of(prog, f, c)
            if h is None:
                continue
            cn = cfg.node_containing(c)
            if cn is None or not cfg.is_reachable(cn):
                continue
            params = list(h.params)
            if h.kind == 'method':
                params = params[1:]
            if c.keywords or any(isinstance(a, ast.Starred) for a in c.args) or len(c.args) > len(params):
                continue
            sub = {p: ex.expand(a, cn) for p, a in zip(params, c.args)}
            outer = path_clauses(prog, f, c, typer, drop_raising=True)
            outer_b = [(fo.target, ex.expand(fo.iter, cfg.node_of(fo))) for fo in fors_around(f, c)]
            for hg in guard_facts(prog, typer, h, depth + 1):
                cl = [[(subst(a, sub), p) for a, p in clause] for clause in hg.clauses]
                bs = [(t, subst(i, sub)) for t, i in hg.binders]
                g = G(hg.exc, outer + cl, outer_b + bs, hg.func, hg.raise_node, c, via=c)
                g.dom = cn
                out.append(g)
    # any(.. for x in X) / len([x for x in X if ..]) > 0 as a universally bound raise
    for g in out:
        new = []
        for cl in g.clauses:
            if len(cl) == 1 and cl[0][1]:
                efm = facts.exists_form(cl[0][0])
                if efm is not None:
                    tgt, it, conds = efm
                    g.binders.append((tgt, it))
                    for c in conds:
                        new += cnf(c, True)
                    continue
            new.append(cl)
        g.clauses = new
    return out


# ---------------------------------------------------------------------------------------------------- dict-valued terms
class Entry:
    """kind: comp (key, value, target, iter) | pair (key, value) | whole (expr: every item of this mapping) |
    state (the field itself) | empty"""

    def __init__(self, kind, key=None, value=None, target=None, it=None, expr=None, node=None):
        self.kind, self.key, self.value, self.target, self.it, self.expr, self.node = kind, key, value, target, it, expr, node


def dict_entries(e: ast.AST, field: str) -> Optional[List[Entry]]:
    """entries of a dict-valued (expanded) expression; None when the shape is not understood"""
    if isinstance(e, ast.Attribute) and e.attr == field:
        return [Entry('state', node=e)]
    if isinstance(e, ast.Dict):
        out = []
        for k, v in zip(e.keys, e.values):
            if k is None:
                sub = dict_entries(v, field)
                if sub is None:
                    return None
                out += sub
            else:
                out.append(Entry('pair', key=k, value=v, node=e))
        return out or [Entry('empty', node=e)]
    if isinstance(e, ast.DictComp):
        if len(e.generators) != 1 or e.generators[0].ifs:
            return None
        g = e.generators[0]
        return [Entry('comp', key=e.key, value=e.value, target=g.target, it=g.iter, node=e)]
    if isinstance(e, ast.BinOp) and isinstance(e.op, ast.BitOr):
        a, b = dict_entries(e.left, field), dict_entries(e.right, field)
        if a is None or b is None:
            return None
        return a + b
    if isinstance(e, ast.IfExp):
        a, b = dict_entries(e.body, field), dict_entries(e.orelse, field)
        if a is None or b is None:
            return None
        return a + b
    m = match("dict($x)", e)
    if m:
        return dict_entries(m['x'], field)
    m = match("dict()", e)
    if m:
        return [Entry('empty', node=e)]
    m = match("$x.copy()", e)
    if m:
        return dict_entries(m['x'], field)
    if isinstance(e, (ast.Name, ast.Attribute, ast.Call, ast.Subscript)):
        return [Entry('whole', expr=e, node=e)]
    return None


def items_binding(target: ast.AST, it: ast.AST) -> Optional[Tuple[Optional[str], Optional[str], ast.AST]]:
    """`for k, v in D.items()` -> (k, v, D); `for v in D.values()` -> (None, v, D); `for k in D / D.keys()` -> (k, None, D)"""
    m = match("$d.items()", it)
    if m and isinstance(target, ast.Tuple) and len(target.elts) == 2 and all(isinstance(x, ast.Name) for x in target.elts):
        return target.elts[0].id, target.elts[1].id, m['d']
    m = match("$d.values()", it) or match("list($d.values())", it)
    if m and isinstance(target, ast.Name):
        return None, target.id, m['d']
    m = match("$d.keys()", it) or match("list($d.keys())", it) or match("list($d)", it) or match("sorted($d)", it) or \
        match("sorted($d.keys())", it) or match("set($d)", it) or match("set($d.keys())", it)
    if m and isinstance(target, ast.Name):
        return target.id, None, m['d']
    if isinstance(target, ast.Name) and isinstance(it, (ast.Name, ast.Attribute)):
        return target.id, None, it
    return None


def mentions(e: ast.AST, name: str) -> bool:
    return name in names_in(e)


def _walk(node):
    """ast.walk over one statement without descending into compound statement bodies"""
    if isinstance(node, (ast.If, ast.While)):
        node = node.test
    elif isinstance(node, ast.For):
        node = node.iter
    return ast.walk(node)
