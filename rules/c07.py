"""C07 - every scheduled task has start <= end and summary tasks roll up their children.   (DESIGN.md section 5, C07)

Decided: the four roll-up terms of the summary region of both passes (formula equality against the property's terms),
evaluated after the children were scheduled; clearing of user values on every summary of the clone before the pass;
WBS.start / WBS.end shape; the forward leaf end derives from a fill started at >= task.start.
Round 4: the side of the date on which the fill books (backward: first examined day is the day before midnight(end'), also
on conditional pre-loop steps of the day cursor); running totals (`total += child.estimate` in the children loop, or totals
fed by the values the recursive call returns - then every return of the pass must hand back the task's field).
Round 5: a backward leaf start is the fill's start or min(user start, that) on every path (a user start kept as it is can lie
after the end); a roll-up passed through round()/int() is not the sum; min/max(.., default=..) is the plain extremum; a visited
flag kept on the task objects instead of a per-call memo (sched.PassShape.memo_on_task) makes a later calc skip tasks.
Round 6: each task is scheduled once (sched_fill.scheduled_once, shared with C04); DirectCalendar looks its per-day table up
with the day start (a raw moment gives two capacities for one day: start fraction vs end fraction).
Round 7: a None handed to the Task.estimate / Task.spent setters is stored on every path (otherwise the reset is a no-op); a
reset written as a walk over `.children` of the node it is given never resets the nodes it starts from.
Round 8: the start a forward leaf finally gets is the search result itself (no post-processing); every path of a backward
leaf takes its start from the fill / the task's end (diamond and overwrite cases of a local are split); keyword spelling of
the day start in DirectCalendar.
Round 10: a milestone's final start and end are the same term; a store that also runs for summaries after the roll-up
overwrites it; roll-up cases guarded by a test that is constant after helper inlining (`None is not None`) are dead.
Round 11: a reset written as a work-list walk (`while q: t = q.pop(); ..`) whose growth step REPLACES the list by `t.children` drops the
waiting sibling branches (refuted; a correct work-list walk is still undecided, not proved).
Not decided: start <= end of a leaf from the numeric interaction of day fractions.
"""
from __future__ import annotations

import ast

from sa import facts
from sa.cfg import cfg_of
from sa.flow import Expander, flow_of
from sa.model import src, walk_no_nested, unmangle
from sa.pat import match, same
from . import sched
from .sched import BOTH, FWD, BWD, PassShape

FIELDS = ('start', 'end', 'estimate', 'spent')


def check(ctx):
    ctx.assume("term expansion assumes no aliasing writes between a definition and its use inside one function")
    prog = ctx.prog
    for S in BOTH:
        ps = PassShape(ctx, S)
        n = S['name']
        o = ctx.ob(f'{n}_summaries_cleared', 'R5',
                   f"{n}: start/end/estimate/spent of every task with children are reset to None on the clone, for all tasks of the "
                   f"clone, before any task is scheduled", floor=2)
        ctx.guarded(o, lambda o, S=S: cleared(ctx, o, S))
        o = ctx.ob(f'{n}_rollup', 'R8',
                   f"{n}: summary start = min(children starts), end = max(children ends), estimate = sum(children estimates), "
                   f"spent = sum(children spent), over all children, after the children were scheduled", floor=4)
        ctx.guarded(o, lambda o, ps=ps: rollup(ctx, o, ps))

    from . import sched_fill
    for S in BOTH:
        o = ctx.ob(f"{S['name']}_leaf_fractions_consistent", 'R11',
                   f"{S['name']}: the day fractions of a leaf's start and end are both computed with the balancing selector (a start "
                   f"fraction over all bookings and an end fraction over the task's own bookings puts the end before the start)", floor=3)
        ctx.guarded(o, lambda o, S=S: sched_fill.selectors(ctx, o, S))

    for S in BOTH:
        o = ctx.ob(f"{S['name']}_leaf_dates_share_one_encoding", 'R8',
                   f"{S['name']}: the start and the end of a leaf are both `day boundary +/- 1 day * booked share of that day` over "
                   f"the same resource/day/selector; a start taken from anything else (the requested moment, the raw capacity) can "
                   f"pass the end of a short task", floor=2)
        ctx.guarded(o, lambda o, S=S: sched_fill.encoding(ctx, o, PassShape(ctx, S)))

    for S in BOTH:
        o = ctx.ob(f"{S['name']}_every_call_schedules_every_task", 'R9',
                   f"{S['name']}: the memo that makes the pass skip scheduled tasks is allocated per calc call (a memo that survives "
                   f"on the scheduler makes a repeated calc skip tasks: no dates, no roll-ups)")
        ctx.guarded(o, lambda o, S=S: sched.memo_is_local(ctx, o, S))

    for S in BOTH:
        fwd = S['dir'] == 1
        o = ctx.ob(f"{S['name']}_fill_books_on_the_right_side_of_the_date", 'R8',
                   ("forward: the first day the fill examines is midnight(start'), so every booked day - and the end, that day plus "
                    "its booked share - is not before the day of the start") if fwd else
                   ("backward: the first day the fill examines is the day before midnight(end'), so every booked day lies wholly "
                    "before the end and start = day + 1 day - booked share <= midnight(end') <= end"), floor=1)
        ctx.guarded(o, lambda o, S=S: fill_side(ctx, o, S))

    for S in BOTH:
        o = ctx.ob(f"{S['name']}_each_task_scheduled_once", 'R9',
                   f"{S['name']}: a task is scheduled at most once per calc (memo test at the entry of the pass, or `x.id not in memo` at "
                   f"every call): a task scheduled again after its summary was rolled up gets other dates than the ones its summary covers "
                   f"- shared rule with C04", floor=1)

        def once(o, S=S):
            from . import sched_fill
            sched_fill.scheduled_once(ctx, o, PassShape(ctx, S))
        ctx.guarded(o, once)

    o = ctx.ob('day_capacity_ignores_time_of_day', 'R8',
               "DirectCalendar answers per calendar day: every lookup of its per-day table uses the date normalised to the start of the "
               "day. The forward scheduler asks the capacity of the start day with the requested moment and of the end day with "
               "midnight; a table that is keyed by day but looked up with the raw moment gives two capacities for one day and the "
               "start fraction can pass the end", floor=1)
    ctx.guarded(o, lambda o: per_day_lookup(ctx, o))

    o = ctx.ob('reset_reaches_the_work_fields', 'R5',
               "clearing a summary writes None through the Task.estimate / Task.spent setters: a None handed to the setter is stored "
               "on every path (a setter that drops None turns the reset before scheduling into a no-op and the summary keeps the "
               "user's value instead of the children's sum)", floor=2)
    ctx.guarded(o, lambda o: setters_store_none(ctx, o))

    o = ctx.ob('wbs_start_end', 'R8', "WBS.start = min(root starts), WBS.end = max(root ends), over all roots, None filter only", floor=2)
    ctx.guarded(o, lambda o: wbs_bounds(ctx, o))

    o = ctx.ob('backward_leaf_start_not_after_fill', 'R8',
               "backward: on every path a leaf's start is the start computed by the fill from its end, or min(user start, that): a user-"
               "entered start that is kept as it is can lie after the end", floor=1)
    ctx.guarded(o, lambda o: backward_leaf_start(ctx, o, PassShape(ctx, BWD)))

    o = ctx.ob('forward_leaf_start_is_the_search_result', 'R8',
               "forward: the start a leaf finally gets is the moment returned by the availability search (start of the day plus the "
               "share of it that is already booked); a start post-processed afterwards (max with another bound, a shift) leaves that "
               "encoding while the end is still `last day + booked share`, so it can lie after the end", floor=1)
    ctx.guarded(o, lambda o: forward_leaf_start(ctx, o, PassShape(ctx, FWD)))

    o = ctx.ob('milestone_start_equals_end', 'R8',
               "a milestone has no duration: in the milestone region of both passes the start and the end that are finally stored are "
               "the same term (a start moved afterwards leaves the end behind: start > end)", floor=2)
    ctx.guarded(o, lambda o: milestone_point(ctx, o))

    o = ctx.ob('forward_leaf_end_after_start', 'R8',
               "forward: a computed leaf end is max(fill(.., start', ..), now()) with start' >= task.start, and the fill returns start' "
               "or a day >= midnight(start') plus a non-negative fraction", floor=1)
    ctx.guarded(o, lambda o: leaf_order(ctx, o, PassShape(ctx, FWD)))


def fill_side(ctx, o, S):
    from .c02 import first_day_offset
    fill = ctx.prog.func(S['fill'])
    fwd = S['dir'] == 1
    want = 0 if fwd else -1
    first = first_day_offset(ctx, fill, S)
    what = 'start' if fwd else 'end'
    if first is None:
        o.undecided(fill, fill.node, 'first day', "cannot determine the first day of the fill loop")
    elif first[0] == 'not-midnight':
        o.undecided(fill, first[1], first[1], "the day cursor of the fill does not start at a midnight")
    elif first[0] != want:
        if fwd:
            msg = (f"the first day examined by the fill can be midnight(start) {first[0]:+g} day(s): "
                   + ("work booked there puts the end before the start" if first[0] < 0 else "the day of the start itself is skipped"))
        else:
            msg = (f"the first day examined by the backward fill can be midnight(end) {first[0]:+g} day(s); expected the day before "
                   f"midnight(end): " + ("hours are booked on the day of the end itself (or later) and `day + 1 day - booked share` can "
                                         "lie after the end: start > end" if first[0] > -1 else "the day before the end is skipped"))
        if (fwd and first[0] < 0) or (not fwd and first[0] > -1):
            o.refute(fill, first[1], first[1], msg)
        else:
            o.site(fill, first[1], f"first day midnight({what}) {first[0]:+g}: on the safe side for start <= end")
    else:
        o.site(fill, first[1], f"first day = midnight({what}) {want:+d} day(s)")


def _stores_elementwise(f):
    """facts.attr_stores plus: `a.x, a.y = u, v` split element-wise, and `for n in ('x', 'y'): setattr(a, n, v)` /
    `setattr(a, 'x', v)` read as the stores a.x = v, a.y = v"""
    out = []
    for st, tgt, val in facts.attr_stores(f):
        if isinstance(st, ast.Assign):
            for t in st.targets:
                if isinstance(t, (ast.Tuple, ast.List)) and any(e is tgt for e in t.elts):
                    if isinstance(val, (ast.Tuple, ast.List)) and len(val.elts) == len(t.elts):
                        val = val.elts[[i for i, e in enumerate(t.elts) if e is tgt][0]]
        out.append((st, tgt, val))
    for n in walk_no_nested(f.node):
        if isinstance(n, ast.Expr) and isinstance(n.value, ast.Call) and isinstance(n.value.func, ast.Name) and n.value.func.id == 'setattr' \
                and len(n.value.args) == 3 and isinstance(n.value.args[0], ast.Name):
            obj, nm, val = n.value.args
            names = []
            if isinstance(nm, ast.Constant) and isinstance(nm.value, str):
                names = [nm.value]
            elif isinstance(nm, ast.Name):
                for lp in walk_no_nested(f.node):
                    if isinstance(lp, ast.For) and isinstance(lp.target, ast.Name) and lp.target.id == nm.id and \
                            any(x is n for x in ast.walk(lp)) and isinstance(lp.iter, (ast.Tuple, ast.List)) and \
                            all(isinstance(e, ast.Constant) and isinstance(e.value, str) for e in lp.iter.elts):
                        names = [e.value for e in lp.iter.elts]
            for name in names:
                out.append((n, ast.copy_location(ast.Attribute(value=obj, attr=name, ctx=ast.Store()), n), val))
    return out


def _clearing_loops(f):
    """For loops `for t in <w>.tasks:` of f that store None into a date/work field of t"""
    out = []
    for lp in [n for n in walk_no_nested(f.node) if isinstance(n, ast.For)]:
        tv = lp.target.id if isinstance(lp.target, ast.Name) else None
        if tv is None:
            continue
        sts = [(st, tgt, val) for st, tgt, val in _stores_elementwise(f) if any(x is st for x in ast.walk(lp)) and
               isinstance(tgt.value, ast.Name) and tgt.value.id == tv and tgt.attr in FIELDS and
               isinstance(val, ast.Constant) and val.value is None]
        if sts:
            out.append((lp, tv, sts))
    return out


def _worklist_replaced(h, none_stores):
    """(work list name, assignment) when the None stores sit in `while <q>: t = <q>.pop(); ..` and the loop body rebinds <q> to a
    value built from `t.children` that does not contain <q> itself (and not under a test of <q>): a positively wrong work-list step"""
    for wl in [n for n in walk_no_nested(h.node) if isinstance(n, ast.While)]:
        inside = {id(x) for x in ast.walk(wl)}
        if not any(id(st) in inside for st in none_stores):
            continue
        tn = wl.test
        m = match("len($q) > 0", tn) or match("len($q) != 0", tn) or match("len($q)", tn) or match("len($q) >= 1", tn) or match("$q != []", tn) or \
            match("0 < len($q)", tn)
        q = m['q'] if m else tn
        if not isinstance(q, ast.Name):
            continue
        q = q.id
        popped = None
        for st in wl.body:
            if isinstance(st, ast.Assign) and len(st.targets) == 1 and isinstance(st.targets[0], ast.Name) and isinstance(st.value, ast.Call) and \
                    isinstance(st.value.func, ast.Attribute) and st.value.func.attr in ('pop', 'popleft') and \
                    isinstance(st.value.func.value, ast.Name) and st.value.func.value.id == q:
                popped = st.targets[0].id
        if popped is None:
            continue
        stored_on = {tgt.value.id for st in none_stores if id(st) in inside for tgt in
                     ([t_ for t_ in ast.walk(st) if isinstance(t_, ast.Attribute) and isinstance(t_.ctx, ast.Store) and isinstance(t_.value, ast.Name)])}
        if popped not in stored_on:
            continue
        hcfg = cfg_of(h)
        for asg in [n for n in ast.walk(wl) if isinstance(n, ast.Assign) and len(n.targets) == 1 and isinstance(n.targets[0], ast.Name)
                    and n.targets[0].id == q]:
            names = {x.id for x in ast.walk(asg.value) if isinstance(x, ast.Name)}
            from_children = any(isinstance(x, ast.Attribute) and x.attr in ('children', 'all_children') and isinstance(x.value, ast.Name) and
                                x.value.id == popped for x in ast.walk(asg.value))
            an = hcfg.node_of(asg)
            q_tested = an is None or any(isinstance(x, ast.Name) and x.id == q for t, p in hcfg.conditions(an) if t is not wl.test for x in ast.walk(t))
            if q not in names and from_children and not q_tested and not any(isinstance(x, ast.Attribute) and x.attr == 'all_children' for x in ast.walk(asg.value)):
                return q, asg
    return None


def cleared(ctx, o, S, fields=FIELDS):
    """the clearing loop lives in a helper called from calc (today: __prepare_tasks) or in calc itself"""
    prog = ctx.prog
    calc = prog.func(S['calc'])
    cfg = cfg_of(calc)
    ex = Expander(prog, calc, ctx.typer, inline=False)
    inp = calc.params[1]
    pcalls = facts.calls_named(calc, prog.func(S['pass_']).name)
    # (function holding the loop, loop, loop var, stores, wbs expression in calc's terms, calc node, name of the wbs inside the holder)
    sites = []
    for lp, tv, sts in _clearing_loops(calc):
        m = match("$w.tasks", lp.iter)
        w = ex.expand(m['w'], cfg.node_of(lp)) if m else None
        sites.append((calc, lp, tv, sts, w, cfg.node_of(lp), src(m['w']) if m else None, lp))
    helpers = []
    nested_walks = []
    for c in [n for n in walk_no_nested(calc.node) if isinstance(n, ast.Call)]:
        g = ex._single_target(c)
        if g is None or g is calc or g.qual == S['pass_']:
            continue
        gl = _clearing_loops(g)
        if not gl:
            # the clearing written as a walk in a nested procedure of the helper (`def reset(parent): for t in parent.children: ..`)
            for h in prog.all_funcs():
                if h.qual.startswith(g.qual + '.') and not isinstance(h.node, ast.Lambda):
                    for lp, tv, sts in _clearing_loops(h):
                        p0 = [x for x in g.params if x != g.self_name]
                        nested_walks.append((h, lp, tv, sts, ex.expand(c.args[0]) if c.args else None, cfg.node_containing(c), None, c))
            continue
        helpers.append(g)
        p0 = [x for x in g.params if x != g.self_name]
        for lp, tv, sts in gl:
            arg = None
            if p0 and c.args:
                arg = ex.expand(c.args[0])
            sites.append((g, lp, tv, sts, arg, cfg.node_containing(c), p0[0] if p0 else None, c))
    if not sites and nested_walks:
        h, lp, tv, sts, w, cn, wname, where = nested_walks[0]
        if isinstance(lp.iter, ast.Attribute) and lp.iter.attr in ('children', 'all_children') and isinstance(lp.iter.value, ast.Name) and \
                lp.iter.value.id in h.params:
            o.refute(h, lp, lp.iter, f"summary fields are cleared by a walk that resets `{src(lp.iter)}` of the node it is given: the nodes the walk "
                                     f"is started from (the root tasks) are never reset themselves; expected every task of the WBS (<wbs>.tasks)")
        else:
            o.undecided(h, lp, lp.iter, "summary fields are cleared by a nested procedure the rule does not follow")
        return
    if not sites:
        # some function reachable from calc (helper or a nested procedure of it) resets the fields in a form the rule does not follow
        cands = [calc] + [h for h in prog.all_funcs() if not isinstance(h.node, ast.Lambda) and h.module.name == 'schedule' and
                          (h.qual.startswith(calc.qual.rsplit('.', 1)[0] + '.') or '.' not in h.qual.split('.', 1)[1])]
        for h in cands:
            if h.qual == S['pass_']:
                continue
            other = [st for st, tgt, val in _stores_elementwise(h) if tgt.attr in FIELDS and isinstance(val, ast.Constant) and val.value is None]
            if other and (h is calc or facts.calls_named(calc, h.name) or any(facts.calls_named(p_, h.name) for p_ in cands if p_ is not h)):
                bad = _worklist_replaced(h, other)
                if bad is not None:
                    q_, asg = bad
                    o.refute(h, asg, asg, f"the reset walks the tree with the work list `{q_}` (one task popped per round), but `{src(asg)}` REPLACES "
                                          f"the list by the children of the popped task instead of adding them: the tasks still waiting in it "
                                          f"(sibling branches) are dropped and the summaries among them keep the user's start/end/estimate/spent; "
                                          f"expected every task of the WBS to be visited (<wbs>.tasks, or `{q_}.extend(<task>.children)`)")
                    return
                o.undecided(h, other[0], other[0], "summary fields are reset in a form the rule does not follow (not a loop over <wbs>.tasks)")
                return
        o.refute(calc, calc.node, 'clearing of summary fields', "user values on summary tasks are never cleared before scheduling")
        return
    if len(sites) > 1:
        o.undecided(calc, calc.node, 'clearing of summary fields', "several clearing loops")
        return
    holder, lp, tv, sts, w, cn, wname, where = sites[0]
    if w is not None and match(f"{inp}.clone()", w):
        if all(cfg.dominates(cn, cfg.node_containing(pc)) for pc in pcalls):
            o.site(calc, where, "summary fields of the clone are cleared before the pass")
        else:
            o.refute(calc, where, where, "summary fields are not cleared on every path before the pass runs")
    elif isinstance(w, ast.Name) and w.id == inp:
        o.refute(calc, where, where, "summary fields are cleared on the INPUT WBS instead of the clone: the caller's tasks lose their values "
                                     "and the clone keeps the user's summary dates")
    else:
        o.refute(calc, where, where, f"summary fields are cleared on `{src(w) if w is not None else '?'}`, not on the clone being scheduled")
    prep = holder
    if wname is None or not match(f"{wname}.tasks", lp.iter):
        o.refute(prep, lp, lp.iter, f"summary fields are cleared for `{src(lp.iter)}` only; expected every task of the WBS (<wbs>.tasks): "
                                    f"nested summaries would keep the user's values")
        return
    cleared_fields = {}
    hcfg = cfg_of(prep)
    outer = hcfg.conditions(hcfg.node_of(lp))
    for st, tgt, val in sts:
        conds = facts.node_conditions(prog, prep, st, ctx.typer)
        conds = conds[len(facts.node_conditions(prog, prep, lp, ctx.typer)):] if prep is calc else conds
        okc = [1 for t, p in conds if (match(f"len({tv}.children) > 0", t) and p) or (match(f"len({tv}.children) == 0", t) and not p)
               or (match(f"len({tv}.children) != 0", t) and p) or (match(f"{tv}.children", t) and p) or
               (match(f"len({tv}.children)", t) and p)]
        if len(okc) == len(conds) and okc:
            cleared_fields[tgt.attr] = st
        else:
            o.refute(prep, st, st, f"{tgt.attr} is cleared under {facts.cond_texts(conds)}; expected exactly `task has children`")
    missing = [f for f in fields if f not in cleared_fields]
    if missing:
        o.refute(prep, lp, 'cleared fields', "summary fields not cleared: " + ', '.join(missing))
    else:
        o.site(prep, lp, "for t in tasks: if children: start = end = estimate = spent = None")


def _accumulated_comp(ps, name):
    """the comprehension equivalent to the single accumulate loop that fills local list `name` (only .append in one loop, no
    other mutation); None when the list is grown in any other way"""
    import copy
    cs = [c for c in facts.collects(ps.f) if c.kind == 'loop' and c.acc == name]
    muts = [n for n in walk_no_nested(ps.f.node) if isinstance(n, ast.Call) and isinstance(n.func, ast.Attribute) and
            isinstance(n.func.value, ast.Name) and n.func.value.id == name and
            n.func.attr in ('append', 'extend', 'insert', 'remove', 'pop', 'clear', 'sort', 'reverse', 'add')]
    augs = [d for d in ps.fl.defs_of(name) if d.kind == 'aug']
    if len(cs) != 1 or len(muts) + len(augs) != 1:
        return None
    c = cs[0]
    ifs = [copy.deepcopy(t) if p else ast.UnaryOp(op=ast.Not(), operand=copy.deepcopy(t)) for t, p in c.conds]
    comp = ast.ListComp(elt=copy.deepcopy(c.elt), generators=[ast.comprehension(target=copy.deepcopy(c.target), iter=copy.deepcopy(c.iter),
                                                                                 ifs=ifs, is_async=0)])
    ast.copy_location(comp, c.node)
    return ast.fix_missing_locations(comp)


def _children_comp(ps, e, attr, at, allow_filter=True):
    """is e (expanded) a sequence of <child>.<attr> over ALL task.children (optional `is not None` filter)?
    returns 'ok' | ('bad', msg) | None (not recognised)"""
    if isinstance(e, ast.Name):
        defs = ps.fl.reaching(e.id, at)
        verdicts = []
        for d in defs:
            if d.kind == 'assign' and d.value is not None:
                conds = facts.node_conditions(ps.ctx.prog, ps.f, d.stmt, ps.ctx.typer, expand=False)
                empty_guard = False
                for t, p in conds:
                    em = sched.is_emptiness(t, p)
                    if em and em[1] and isinstance(em[0], ast.Name) and em[0].id == e.id:
                        empty_guard = True
                if empty_guard:
                    continue        # fallback for an empty list
                if isinstance(d.value, ast.List) and not d.value.elts:
                    # `xs = []` filled by one accumulate loop `for v in X: [if C:] xs.append(E)`  ==  [E for v in X if C]
                    comp = _accumulated_comp(ps, e.id)
                    verdicts.append(_children_comp(ps, comp, attr, d.node, allow_filter) if comp is not None else None)
                    continue
                verdicts.append(_children_comp(ps, d.value, attr, d.node, allow_filter))
            else:
                verdicts.append(None)
        if not verdicts or any(v is None for v in verdicts):
            return None
        bad = [v for v in verdicts if v != 'ok']
        return bad[0] if bad else 'ok'
    parts = facts.comp_parts(e)
    if not parts:
        return None
    elt, tgt, it, ifs = parts
    if not isinstance(tgt, ast.Name):
        return None
    elt = _plain_attrs(elt)
    ifs = [_plain_attrs(c) for c in ifs]
    it_x = ps.ex.expand(it, at)
    cov = _covers_children(ps, it_x)
    if cov is None:
        return None
    if cov is not True:
        return ('bad', f"rolled up over `{src(it_x)[:90]}` instead of all children ({cov})")
    if not match(f"{tgt.id}.{attr}", elt):
        return ('bad', f"rolls up `{src(elt)}` instead of the children's {attr}")
    for c in ifs:
        if not (allow_filter and match(f"{tgt.id}.{attr} is not None", c)):
            return ('bad', f"children are filtered by `{src(c)}`")
    return 'ok'


def _covers_children(ps, e, depth=0):
    """does sequence expression e range over ALL children of the task?  True | reason it is a proper part | None (not understood)"""
    if depth > 5:
        return None
    m = match("list($x)", e) or match("tuple($x)", e) or match("reversed($x)", e) or match("sorted($x)", e) or match("iter($x)", e)
    if m is None and isinstance(e, ast.Call) and isinstance(e.func, ast.Name) and e.func.id == 'sorted' and len(e.args) == 1:
        m = {'x': e.args[0]}
    if m:
        return _covers_children(ps, m['x'], depth + 1)
    if match(f"{ps.task}.children", e):
        return True
    m = match(f"{ps.task}.$a", e)
    if m and isinstance(m['a'], str) and m['a'] in ('all_children', 'predecessors', 'successors', 'all_parents', 'all_predecessors',
                                                    'all_successors'):
        return (f"`{src(e)}`" + (": all descendants, so the work of nested summaries is counted once per level" if m['a'] == 'all_children'
                                 else ": not the children of the task"))
    parts = facts.comp_parts(e)
    if parts:
        elt, tgt, it, ifs = parts
        if not (isinstance(elt, ast.Name) and isinstance(tgt, ast.Name) and elt.id == tgt.id):
            return None
        inner = _covers_children(ps, it, depth + 1)
        if inner is True and ifs:
            return "children filtered by `" + ' and '.join(src(c) for c in ifs)[:60] + "`"
        return inner
    if isinstance(e, ast.BoolOp) and isinstance(e.op, ast.Or):
        rs = [_covers_children(ps, v, depth + 1) for v in e.values]
        if any(r is None for r in rs):
            return None
        bad = [r for r in rs if r is not True]
        return bad[0] if bad else True
    if isinstance(e, ast.Subscript) and isinstance(e.slice, ast.Slice):
        inner = _covers_children(ps, e.value, depth + 1)
        if e.slice.lower is None and e.slice.upper is None:
            return inner          # x[:] / x[::-1]: every element
        return "a slice of the children" if inner is True else inner
    return None


def _accumulated_sum(ps, name, attr, children_loop_node):
    """local `name` is a running total: set to 0 and increased inside the loop that schedules the children.
    'ok' when every step adds <child>.<attr> unconditionally; ('bad', node, msg) when a step adds something that is recognisably
    not the child's field; None when the shape is not understood"""
    ds = ps.fl.defs_of(name)
    inits = [d for d in ds if d.kind == 'assign']
    steps = [d for d in ds if d.kind == 'aug']
    if not inits or not steps or len(inits) + len(steps) != len(ds):
        return None
    if not all(isinstance(d.value, ast.Constant) and d.value.value == 0 for d in inits):
        return None
    for d in steps:
        if not isinstance(d.stmt.op, ast.Add):
            return None
        fors = ps.cfg.enclosing_fors(d.node)
        if not fors:
            return None
        fo = fors[-1] if len(fors) == 1 else next((x for x in fors if any(y is d.stmt for y in x.body)), fors[-1])
        it = ps.ex.expand(fo.iter, ps.cfg.node_of(fo))
        if _covers_children(ps, it) is not True:
            cov = _covers_children(ps, it)
            if cov is None:
                return None
            return ('bad', d.stmt, f"the running total is fed from {cov}")
        lv = fo.target.id if isinstance(fo.target, ast.Name) else None
        extra = len(ps.cfg.conditions(d.node)) - len(ps.cfg.conditions(ps.cfg.node_of(fo)))
        v = d.stmt.value
        if lv and match(f"{lv}.{attr}", _plain_attrs(v)):
            if extra > 0:
                return ('bad', d.stmt, f"`{src(d.stmt)}` is conditional: some children are left out of the total")
            continue
        if lv and match(f"{lv}.$a", _plain_attrs(v)):
            return ('bad', d.stmt, f"`{src(d.stmt)}` adds another field than the child's {attr}")
        # the value returned by the recursive call on the child (tuple-unpacked): every return of the pass must hand back task.<attr>
        if isinstance(v, ast.Name):
            for ud in ps.fl.reaching(v.id, d.node):
                if ud.kind in ('assign', 'unpack') and isinstance(ud.stmt, ast.Assign) and isinstance(ud.stmt.value, ast.Call) and \
                        ud.stmt.value in ps.pass_calls():
                    tg = ud.stmt.targets[0]
                    idx = None
                    if isinstance(tg, (ast.Tuple, ast.List)):
                        idx = next((i for i, e in enumerate(tg.elts) if isinstance(e, ast.Name) and e.id == v.id), None)
                    for r in [x for x in walk_no_nested(ps.f.node) if isinstance(x, ast.Return)]:
                        rv = r.value
                        if idx is not None:
                            rv = rv.elts[idx] if isinstance(rv, (ast.Tuple, ast.List)) and len(rv.elts) > idx else None
                        if rv is None or not match(f"{ps.task}.{attr}", rv):
                            return ('bad', r, f"the total adds what the recursive call returns, and `{src(r)[:50]}` does not return the "
                                              f"task's {attr}: a child scheduled earlier (through a dependency link) is not counted")
                    break
            else:
                return None
            continue
        return None
    return 'ok'


def _helper_total(ctx, ps, call, attr):
    """`h(task[, '<attr>'])` with h = `total = 0; for c in <p>.children: total = total + c.<attr> | getattr(c, <field>); return total`
    (a helper the normaliser does not fold: loop + return).  'ok' | ('bad', msg) | None (not that shape)"""
    prog = ctx.prog
    h = Expander(prog, ps.f, ctx.typer, inline=False)._single_target(call)
    if h is None or isinstance(h.node, ast.Lambda) or not call.args or not (isinstance(call.args[0], ast.Name) and call.args[0].id == ps.task):
        return None
    params = [p_ for p_ in h.params if p_ != h.self_name] if h.kind in ('method', 'getter', 'setter') else list(h.params)
    if not params or len(call.args) > len(params) or call.keywords:
        return None
    field_of = {}
    for p_, a_ in zip(params[1:], call.args[1:]):
        if isinstance(a_, ast.Constant) and isinstance(a_.value, str):
            field_of[p_] = a_.value
    body = [s_ for s_ in h.node.body if not (isinstance(s_, ast.Expr) and isinstance(s_.value, ast.Constant))]
    if len(body) != 3 or not isinstance(body[0], ast.Assign) or not isinstance(body[1], ast.For) or not isinstance(body[2], ast.Return):
        return None
    acc = body[0].targets[0].id if len(body[0].targets) == 1 and isinstance(body[0].targets[0], ast.Name) else None
    if acc is None or facts.const_num(body[0].value) != 0 or not (isinstance(body[2].value, ast.Name) and body[2].value.id == acc):
        return None
    lp = body[1]
    if not isinstance(lp.target, ast.Name) or lp.orelse:
        return None
    it = sched.whole_seq(lp.iter)
    if not (isinstance(it, ast.Attribute) and isinstance(it.value, ast.Name) and it.value.id == params[0]):
        return None
    if it.attr != 'children':
        return ('bad', f"{h.name} adds up `{src(lp.iter)}` instead of the children")
    if len(lp.body) != 1:
        return ('bad', f"{h.name} does not add every child unconditionally") if any(isinstance(x, (ast.If, ast.Continue, ast.Break)) for st_ in lp.body
                                                                                   for x in ast.walk(st_)) else None
    st_ = lp.body[0]
    term = None
    if isinstance(st_, ast.AugAssign) and isinstance(st_.op, ast.Add) and isinstance(st_.target, ast.Name) and st_.target.id == acc:
        term = st_.value
    elif isinstance(st_, ast.Assign) and len(st_.targets) == 1 and isinstance(st_.targets[0], ast.Name) and st_.targets[0].id == acc and \
            isinstance(st_.value, ast.BinOp) and isinstance(st_.value.op, ast.Add):
        l_, r_ = st_.value.left, st_.value.right
        term = r_ if isinstance(l_, ast.Name) and l_.id == acc else (l_ if isinstance(r_, ast.Name) and r_.id == acc else None)
    elif isinstance(st_, ast.If):
        return ('bad', f"{h.name} adds a child only when `{src(st_.test)[:50]}`")
    if term is None:
        return None
    got = None
    m = match(f"{lp.target.id}.$a", term)
    if m and isinstance(m['a'], str):
        got = m['a']
    else:
        m = match(f"getattr({lp.target.id}, $f)", term)
        if m and isinstance(m['f'], ast.Name) and m['f'].id in field_of:
            got = field_of[m['f'].id]
        elif m and isinstance(m['f'], ast.Constant):
            got = m['f'].value
    if got is None:
        return None
    return 'ok' if got == attr else ('bad', f"{h.name} adds up the children's `{got}`, not their {attr}")


def _own_none_truth(t, p, value):
    """truth of condition (t, p) when it is `X is None` / `X is not None` with X a literal None, a literal / constructor call that
    cannot be None, or the very value being stored (the fallback guarding its own None-ness: True is the only case that stores
    it); None when the condition is not of that kind"""
    a, q = facts.norm_cond(t, p)
    m = match("$x is None", a)
    if not m:
        return None
    x = m['x']
    if isinstance(x, ast.Constant):
        is_none = x.value is None
    elif isinstance(x, ast.Call) and isinstance(x.func, ast.Name) and x.func.id in ('datetime', 'timedelta', 'date'):
        is_none = False
    elif value is not None and same(x, value):
        return True if not q else None        # `value is not None` on the path that stores the value
    else:
        return None
    return is_none == q


def rollup(ctx, o, ps: PassShape, attrs=None):
    S = ps.S
    want = {'start': 'min', 'end': 'max', 'estimate': 'sum', 'spent': 'sum'}
    if attrs is not None:
        want = {a: want[a] for a in attrs}
    # children recursion loop
    ch_loops = []
    unknown_calls = []
    for c in ps.pass_calls():
        ci = ps.call_iter(c)
        if ci is not None:
            fo, itc = ci
            it = sched.whole_seq(ps.ex.expand(itc, ps.cfg.node_of(fo)))
            cov = _covers_children(ps, it)
            if match(f"{ps.task}.children", it) or cov is True or (isinstance(cov, str) and cov.startswith('children filtered')):
                ch_loops.append(fo)       # (a filtered recursion still marks where the children are scheduled; the roll-up terms are checked below)
            elif not (isinstance(it, ast.Name) or match(f"{ps.task}.{ps.rel}", it)):
                unknown_calls.append(c)       # a loop over something that is neither the children nor a plain local collection
        else:
            unknown_calls.append(c)
    if not ch_loops:
        if unknown_calls:
            o.undecided(ps.f, unknown_calls[0], unknown_calls[0], "recursive call of the pass outside a loop over a collection: cannot tell "
                                                                  "whether the children are scheduled before the roll-up")
            return
        o.refute(ps.f, ps.f.node, 'children recursion', "the pass never schedules the children")
        return
    chn = ps.cfg.node_of(ch_loops[0])
    for attr, op in want.items():
        sts = [x for x in ps.stores(attr) if x[3]['milestone'] is False and x[3]['leaf'] is False]
        if not sts:
            vague = [x for x in ps.stores(attr) if x[3]['milestone'] is not True and x[3]['leaf'] is not True and
                     (x[3]['leaf'] is None or x[3]['milestone'] is None)]
            if vague:
                o.undecided(ps.f, vague[0][0], vague[0][0], f"task.{attr} is stored under conditions the rule cannot classify as leaf / summary")
                continue
            o.refute(ps.f, ps.f.node, f'summary {attr}', f"summary {attr} is never computed from the children")
            continue
        # a store that also runs for summaries (its path condition does not say leaf) and can follow the roll-up overwrites it
        for st_u, tgt_u, val_u, reg_u in ps.stores(attr):
            if reg_u['milestone'] is not False or reg_u['leaf'] is not None:
                continue
            un = ps.cfg.node_of(st_u)
            if un is None or not any(ps.cfg.node_of(x[0]) is not None and ps.cfg.node_of(x[0]) is not un and ps.cfg.can_reach(ps.cfg.node_of(x[0]), un)
                                     for x in sts):
                continue
            vu = ps.ex.expand(val_u, un)
            if isinstance(vu, ast.Call) and isinstance(vu.func, ast.Name) and vu.func.id == op and len(vu.args) == 1 and \
                    _children_comp(ps, vu.args[0], attr, un) == 'ok':
                continue
            o.refute(ps.f, st_u, st_u, f"summary {attr}: after the roll-up `{src(st_u)[:70]}` runs for summary tasks too and replaces the {op} over "
                                       f"the children (the value it writes depends on the path the task was reached by)")
        for st, tgt, val, reg in sts:
            stn = ps.cfg.node_of(st)
            if not ps.cfg.dominates(chn, stn):
                o.refute(ps.f, st, st, f"summary {attr} is computed before the children were scheduled")
                continue
            extra = [(t, p) for t, p in reg['other']]
            # tests decided by their own text (`None is not None`, `datetime(1970, 1, 1) is not None` - an optional default bound to a
            # constant by helper inlining): a false one makes this case of the stored value dead, a true one says nothing
            truths = [_own_none_truth(t, p, val) for t, p in extra]
            if any(tv is False for tv in truths):
                continue
            extra = [c_ for c_, tv in zip(extra, truths) if tv is None]
            # fallback for childless-values: allowed only under an emptiness test of the collected list
            emp = [sched.is_emptiness(t, p) for t, p in extra]
            if extra and all(e is not None and e[1] for e in emp):
                o.site(ps.f, st, f"summary {attr}: fallback when no child has a {attr}")
                continue
            v = val
            if isinstance(v, ast.Call) and isinstance(v.func, ast.Name) and v.func.id in ('min', 'max') and len(v.args) == 1 and \
                    len(v.keywords) == 1 and v.keywords[0].arg == 'default':
                # min(xs, default=d): d only answers for an empty xs (no child has the date), otherwise the plain extremum
                v = val = ast.copy_location(ast.Call(func=v.func, args=v.args, keywords=[]), v)
            call = v if isinstance(v, ast.Call) and isinstance(v.func, ast.Name) else None
            if call is None or call.func.id != op:
                vx = ps.ex.expand(val, stn)
                if isinstance(vx, ast.Call) and isinstance(vx.func, ast.Name) and vx.func.id == op:
                    call = val if isinstance(val, ast.Call) else vx
                    v = vx
                else:
                    inner = facts.flatten_lattice(vx, 'max') or facts.flatten_lattice(vx, 'min')
                    if inner and len(inner) > 1:
                        o.refute(ps.f, st, st, f"summary {attr} is `{src(vx)[:90]}`: clamped/combined with other terms instead of the plain "
                                               f"{op} over the children (a child outside the bound makes start > end)")
                    elif isinstance(vx, ast.Name) and op == 'sum' and _accumulated_sum(ps, vx.id, attr, chn) is not None:
                        r = _accumulated_sum(ps, vx.id, attr, chn)
                        if r == 'ok':
                            o.site(ps.f, st, f"summary {attr} = running total of child.{attr} over all children")
                        else:
                            o.refute(ps.f, r[1], r[1], f"summary {attr}: {r[2]}")
                    elif isinstance(vx, ast.Call) and isinstance(vx.func, (ast.Name, ast.Attribute)) and \
                            (vx.func.id if isinstance(vx.func, ast.Name) else vx.func.attr) in ('round', 'int', 'abs', 'ceil', 'floor', 'trunc') and vx.args \
                            and isinstance(vx.args[0], ast.Call) and isinstance(vx.args[0].func, ast.Name) and vx.args[0].func.id == op:
                        wname = vx.func.id if isinstance(vx.func, ast.Name) else vx.func.attr
                        o.refute(ps.f, st, st, f"summary {attr} is `{src(vx)[:80]}`: the {op} over the children is passed through {wname}(), so the "
                                               f"summary no longer carries exactly the {op} of its children's {attr}")
                    elif op == 'sum' and isinstance(vx, ast.Call) and _helper_total(ctx, ps, vx, attr) is not None:
                        r = _helper_total(ctx, ps, vx, attr)
                        if r == 'ok':
                            o.site(ps.f, st, f"summary {attr} = helper that adds child.{attr} over all children")
                        else:
                            o.refute(ps.f, st, st, f"summary {attr}: {r[1]}")
                    elif isinstance(vx, ast.Name) or (isinstance(vx, ast.Call) and not (isinstance(vx.func, ast.Name) and
                                                                                         vx.func.id in ('min', 'max', 'sum', 'len', 'datetime'))):
                        o.undecided(ps.f, st, st, f"summary {attr} is `{src(vx)[:60]}`, which could not be resolved to {op}(children {attr}s)")
                    else:
                        o.refute(ps.f, st, st, f"summary {attr} is `{src(vx)[:90]}`; expected {op}(children {attr}s)")
                    continue
            args = list(call.args)
            if op in ('min', 'max'):
                flat = facts.flatten_lattice(call, op) or []
                if len(call.args) != 1 or len(flat) != 1:
                    o.refute(ps.f, st, st, f"summary {attr} is `{src(call)[:90]}`: combined with other terms instead of the plain {op} over the children")
                    continue
                seq = call.args[0]
            else:
                if not args or len(args) > 2 or (len(args) == 2 and not (isinstance(args[1], ast.Constant) and args[1].value == 0)):
                    o.refute(ps.f, st, st, f"summary {attr} is `{src(call)[:90]}`; expected sum(children {attr}s)")
                    continue
                seq = args[0]
            r = _children_comp(ps, seq, attr, stn, allow_filter=op != 'sum' or True)
            if r == 'ok':
                o.site(ps.f, st, f"summary {attr} = {op}(child.{attr} for all children)")
            elif r is None:
                o.undecided(ps.f, st, st, f"summary {attr}: source sequence `{src(seq)[:60]}` not recognised")
            else:
                o.refute(ps.f, st, st, f"summary {attr}: {r[1]}")


def _plain_attrs(tree):
    """getattr(x, '<name>') with a constant name (two arguments) is the attribute access x.<name>"""
    import copy

    class T(ast.NodeTransformer):
        def visit_Call(self, n):
            self.generic_visit(n)
            if isinstance(n.func, ast.Name) and n.func.id == 'getattr' and len(n.args) == 2 and not n.keywords and \
                    isinstance(n.args[1], ast.Constant) and isinstance(n.args[1].value, str) and n.args[1].value.isidentifier():
                return ast.copy_location(ast.Attribute(value=n.args[0], attr=n.args[1].value, ctx=ast.Load()), n)
            return n
    return ast.fix_missing_locations(T().visit(copy.deepcopy(tree)))


def wbs_bounds(ctx, o):
    prog = ctx.prog
    for attr, op in (('start', 'min'), ('end', 'max')):
        f = prog.func(f'wbs.WBS.{attr}')
        ex = Expander(prog, f, ctx.typer)
        rets = [n for n in walk_no_nested(f.node) if isinstance(n, ast.Return)]
        good = False
        cases = []
        for r in rets:
            if r.value is None or (isinstance(r.value, ast.Constant) and r.value.value is None):
                continue
            for conds, cv in sched.expr_cases(ex.expand(r.value)):
                if isinstance(cv, ast.Constant) and cv.value is None:
                    continue          # the None answer for an empty WBS
                cases.append((r, cv))
        for r, v in cases:
            v = _plain_attrs(v)
            if isinstance(v, ast.Call) and len(v.keywords) == 1 and v.keywords[0].arg == 'default' and \
                    isinstance(v.keywords[0].value, ast.Constant) and v.keywords[0].value.value is None:
                # min(xs, default=None): the None answer for a WBS without dates, otherwise the plain extremum
                v = ast.copy_location(ast.Call(func=v.func, args=v.args, keywords=[]), v)
            if not (isinstance(v, ast.Call) and isinstance(v.func, ast.Name) and v.func.id == op and len(v.args) == 1 and not v.keywords):
                o.refute(f, r, r, f"WBS.{attr} returns `{src(v)[:80]}`; expected {op}(root {attr}s)")
                good = None
                continue
            parts = facts.comp_parts(v.args[0])
            if not parts:
                o.undecided(f, r, r, "not a comprehension over the roots")
                good = None
                continue
            elt, tgt, it, ifs = parts
            it_ok = match("self.roots", it) or match("self._WBS__root.children", it)
            if it_ok and match(f"{tgt.id}.{attr}", elt) and all(match(f"{tgt.id}.{attr} is not None", c) for c in ifs):
                good = True
                o.site(f, r, src(v)[:90])
            else:
                o.refute(f, r, r, f"WBS.{attr} is `{src(v)[:90]}`; expected {op} of {attr} over all roots with a None filter only")
                good = None
        if good is False:
            o.refute(f, f.node, f'WBS.{attr}', f"WBS.{attr} never returns the {op} over the roots")


def setters_store_none(ctx, o):
    prog = ctx.prog
    for attr in ('estimate', 'spent'):
        f = prog.func(f'task.Task.{attr}.setter')
        vp = f.params[1]
        cfg = cfg_of(f)
        stores = {cfg.node_of(st).id for st, tgt, val in facts.attr_stores(f) if isinstance(tgt.value, ast.Name) and tgt.value.id == f.params[0]
                  and unmangle(tgt.attr).lstrip('_') == attr and cfg.node_of(st) is not None and
                  (isinstance(val, ast.Name) and val.id == vp or not isinstance(val, ast.Constant) or val.value is None)}
        if not stores:
            o.undecided(f, f.node, f'{attr} store', f"no store to the private {attr} field found in the setter")
            continue
        # is the normal exit reachable for value None without passing a store?  branches that say `value is not None` are not taken
        dead = set()
        for b in cfg.nodes:
            if b.kind == 'branch' and b.test is not None and not isinstance(b.test, (ast.For, ast.AsyncFor)):
                for a, q in facts.split_conj(b.test, b.polarity):
                    if facts.cond_is(a, q, f"{vp} is None", want=False) or facts.cond_is(a, q, vp, want=True):
                        dead.add(b.id)
        seen, todo, leak = set(), [cfg.entry], None
        while todo:
            x = todo.pop()
            if x.id in seen or x.id in stores or x.id in dead or isinstance(x.ast, ast.Raise):
                continue
            seen.add(x.id)
            if x is cfg.exit:
                leak = True
                break
            todo.extend(x.succ)
        if leak:
            rets = [n for n in walk_no_nested(f.node) if isinstance(n, ast.Return)]
            o.refute(f, rets[0] if rets else f.node, f'{attr} = None dropped',
                     f"Task.{attr} setter can return for `{vp} is None` without storing it: `task.{attr} = None` (the reset of summary values "
                     f"before scheduling) is a no-op, the summary keeps the user's {attr} instead of the sum of its children")
        else:
            o.site(f, f.node, f"Task.{attr} = None is stored")


def _midnight_of(e):
    """facts.is_midnight_of plus the keyword spelling datetime(year=d.year, month=d.month, day=d.day[, hour=0, ..])"""
    m = facts.is_midnight_of(e)
    if m is not None:
        return m
    if isinstance(e, ast.Call) and isinstance(e.func, ast.Name) and e.func.id == 'datetime':
        parts = dict(zip(('year', 'month', 'day', 'hour', 'minute', 'second', 'microsecond'), e.args))
        for k in e.keywords:
            if k.arg is None or k.arg in parts:
                return None
            parts[k.arg] = k.value
        if not {'year', 'month', 'day'} <= set(parts) or set(parts) - {'year', 'month', 'day', 'hour', 'minute', 'second', 'microsecond'}:
            return None
        base = None
        for nm in ('year', 'month', 'day'):
            v = parts[nm]
            if not (isinstance(v, ast.Attribute) and v.attr == nm):
                return None
            if base is not None and not same(base, v.value):
                return None
            base = v.value
        if all(isinstance(parts[k], ast.Constant) and parts[k].value == 0 for k in parts if k not in ('year', 'month', 'day')):
            return base
    return None


def per_day_lookup(ctx, o):
    prog = ctx.prog
    f = prog.func('calendar.DirectCalendar.get_available_units')
    date_p = f.params[1]
    ex = Expander(prog, f, ctx.typer)
    cfg = cfg_of(f)
    table = '_DirectCalendar__units'
    keys = []
    for n in walk_no_nested(f.node):
        if isinstance(n, ast.Subscript) and isinstance(n.ctx, ast.Load) and match(f"self.{table}", n.value):
            keys.append((n, n.slice))
        elif isinstance(n, ast.Call) and isinstance(n.func, ast.Attribute) and n.func.attr in ('get', 'pop', 'setdefault') and \
                match(f"self.{table}", n.func.value) and n.args:
            keys.append((n, n.args[0]))
        elif isinstance(n, ast.Compare) and len(n.ops) == 1 and isinstance(n.ops[0], (ast.In, ast.NotIn)) and \
                match(f"self.{table}", n.comparators[0]):
            keys.append((n, n.left))
    if not keys:
        o.undecided(f, f.node, 'table lookup', "no lookup of the per-day table recognised in DirectCalendar.get_available_units")
        return
    for n, k in keys:
        at = cfg.node_containing(n)
        kx = ex.expand(k, at) if at is not None else k
        mid = _midnight_of(kx)
        if mid is None and isinstance(kx, ast.Call) and isinstance(kx.func, ast.Name) and kx.func.id == '_day_start' and len(kx.args) == 1:
            mid = kx.args[0]
        if mid is not None and isinstance(mid, ast.Name) and mid.id == date_p:
            o.site(f, n, f"{src(n)[:50]}: key is the start of the day of `{date_p}`")
        elif isinstance(kx, ast.Name) and kx.id == date_p:
            o.refute(f, n, n, f"`{src(n)[:60]}` looks the per-day table up with the raw `{date_p}` (the table is keyed by day starts): a moment "
                              f"with a time of day misses the entry, so the start day's capacity (asked with the requested moment) and the end "
                              f"day's capacity (asked with midnight) differ for one and the same day and the start can pass the end")
        else:
            o.undecided(f, n, n, f"lookup key `{src(kx)[:50]}` is neither the start of the day of `{date_p}` nor `{date_p}` itself")


def milestone_point(ctx, o):
    for S in BOTH:
        ps = PassShape(ctx, S)
        final = {}
        for attr in ('start', 'end'):
            sts = [x for x in ps.stores(attr) if x[3]['milestone'] is True]
            last = [x for x in sts if not any(y is not x and ps.cfg.node_of(y[0]) is not None and ps.cfg.node_of(x[0]) is not None and
                                              ps.cfg.node_of(y[0]) is not ps.cfg.node_of(x[0]) and
                                              ps.cfg.can_reach(ps.cfg.node_of(x[0]), ps.cfg.node_of(y[0])) for y in sts)]
            final[attr] = last
        if not final['start'] or not final['end']:
            o.undecided(ps.f, ps.f.node, 'milestone dates', "no store to start / end recognised in the milestone region")
            continue
        if len(final['start']) != 1 or len(final['end']) != 1:
            o.undecided(ps.f, final['start'][0][0], 'milestone dates', "several final stores of a milestone date: not compared")
            continue
        (ss, _, sv, sreg), (es, _, ev, ereg) = final['start'][0], final['end'][0]
        if ss is es:
            o.site(ps.f, ss, "milestone start = end (one chained assignment)")
            continue
        sx, exx = ps.ex.expand(sv, ps.cfg.node_of(ss)), ps.ex.expand(ev, ps.cfg.node_of(es))
        if same(sx, exx) and not (sreg['other'] or ereg['other'] or sreg['is_none'] or ereg['is_none']):
            o.site(ps.f, ss, "milestone start and end are the same term")
        elif any(match(f"{ps.task}.end", x) or same(x, exx) for x in ast.walk(sx)) and not same(sx, exx):
            o.refute(ps.f, ss, ss, f"the start of a milestone is finally `{src(sx)[:70]}` while its end stays `{src(exx)[:50]}`: the start can "
                                   f"lie after the end")
        elif any(match(f"{ps.task}.start", x) or same(x, sx) for x in ast.walk(exx)) and not same(sx, exx):
            o.refute(ps.f, es, es, f"the end of a milestone is finally `{src(exx)[:70]}` while its start stays `{src(sx)[:50]}`")
        elif same(sx, exx):
            o.refute(ps.f, ss, ss, f"one of the milestone dates is stored only under `{facts.cond_texts(sreg['other'] or ereg['other'])}`: on the "
                                   f"other path start and end differ") if (sreg['other'] or ereg['other']) else o.site(ps.f, ss, "milestone start = end")
        else:
            o.undecided(ps.f, ss, ss, f"milestone start `{src(sx)[:50]}` and end `{src(exx)[:50]}` are different terms the rule cannot relate")


def forward_leaf_start(ctx, o, ps: PassShape):
    search = ctx.prog.func(ps.S['search'])
    sts = [x for x in ps.stores('start') if x[3]['milestone'] is False and x[3]['leaf'] is True and x[3]['is_none'].get('start') is True]
    if not sts:
        o.undecided(ps.f, ps.f.node, 'leaf start', "no store to task.start recognised in the region [not milestone, leaf, start is None]")
        return
    # the store(s) no other store of the region follows
    last = [x for x in sts if not any(y is not x and ps.cfg.node_of(y[0]) is not None and ps.cfg.node_of(x[0]) is not None and
                                      ps.cfg.node_of(y[0]) is not ps.cfg.node_of(x[0]) and ps.cfg.can_reach(ps.cfg.node_of(x[0]), ps.cfg.node_of(y[0]))
                                      for y in sts)]

    def is_search(e):
        return isinstance(e, ast.Call) and isinstance(e.func, ast.Attribute) and unmangle(e.func.attr) == search.name
    for st, tgt, val, reg in last:
        v = ps.ex.expand(val, ps.cfg.node_of(st))
        if is_search(v):
            o.site(ps.f, st, "leaf start = search(..)")
        elif any(is_search(x) for x in ast.walk(v)):
            o.refute(ps.f, st, st, f"the leaf start is `{src(v)[:90]}`: the search result is post-processed, so the start is no longer `day start + "
                                   f"booked share of the day` while the end still is - a start pushed later this way can pass the end of a short task")
        else:
            o.undecided(ps.f, st, st, f"the final leaf start `{src(v)[:80]}` is not the result of the availability search")


def backward_leaf_start(ctx, o, ps: PassShape):
    fill = ctx.prog.func(ps.S['fill'])
    sts = [x for x in ps.stores('start') if x[3]['milestone'] is False and x[3]['leaf'] is True]
    if not sts:
        vague = [x for x in ps.stores('start') if x[3]['milestone'] is not True and x[3]['leaf'] is not False and
                 (x[3]['leaf'] is None or x[3]['milestone'] is None)]
        if vague:
            o.undecided(ps.f, vague[0][0], vague[0][0], "task.start is stored under conditions the rule cannot classify as leaf / summary")
        else:
            o.refute(ps.f, ps.f.node, 'leaf start', "backward: the start of a leaf is never computed")
        return

    def from_fill(e):
        args = facts.flatten_lattice(e, 'min') or [e]
        return any(isinstance(a, ast.Call) and isinstance(a.func, ast.Attribute) and unmangle(a.func.attr) == fill.name for a in args)
    pt0 = ps.prereq_term()

    def end_or_earlier(e):
        """task.end, or a min() that contains it: never after the end"""
        args = facts.flatten_lattice(e, 'min') or [e]
        return any(match(f"{ps.task}.end", a) for a in args)

    def local_cases(e, at, depth=0):
        """an unresolved local split into the values of its reaching definitions (if / else branches, conditional overwrite)"""
        if isinstance(e, ast.Name) and e.id not in ps.f.params and depth < 4 and at is not None:
            out = []
            for d in ps.fl.reaching(e.id, at):
                if d.kind != 'assign' or d.value is None or d.node is None:
                    return [([], e)]
                dconds = [c_ for c_ in ps.conds(d.stmt) if not any(c_[0] is b_[0] for b_ in ps.conds(sts[0][0]))]
                for cc, c in sched.expr_cases(ps.ex.expand(d.value, d.node, stop={e.id} | ({pt0['name']} if pt0 else set()))):
                    if any(isinstance(x, ast.Name) and x.id == e.id for x in ast.walk(c)):
                        # `start = min(task.start, start)`: the overwritten value appears inside: substitute its own cases
                        for cc2, inner in local_cases(e, d.node, depth + 1):
                            from sa.flow import subst
                            out.append((dconds + cc + cc2, subst(c, {e.id: inner})))
                    else:
                        out.append((dconds + cc, c))
            return out or [([], e)]
        return [([], e)]

    covered_user_start = False
    for st, tgt, val, reg in sts:
        v = ps.ex.expand(val, ps.cfg.node_of(st))
        cases = []
        for cc, c in sched.expr_cases(v):
            for cc2, c2 in local_cases(c, ps.cfg.node_of(st)):
                cases.append((cc + cc2, c2))

        def kept_because_earlier(cc, c):
            """the case keeps the user's start under a test that says it is not later than the computed one"""
            if not match(f"{ps.task}.start", c):
                return False
            for t, p in cc:
                for a, q in facts.split_conj(t, p):
                    if isinstance(a, ast.Compare) and len(a.ops) == 1:
                        l, op, r = a.left, a.ops[0], a.comparators[0]
                        user_left, user_right = bool(match(f"{ps.task}.start", l)), bool(match(f"{ps.task}.start", r))
                        lt, gt = isinstance(op, (ast.Lt, ast.LtE)), isinstance(op, (ast.Gt, ast.GtE))
                        if (user_left and ((lt and q) or (gt and not q)) and from_fill(r)) or \
                                (user_right and ((gt and q) or (lt and not q)) and from_fill(l)):
                            return True
            return False
        bad = [c for cc, c in cases if not from_fill(c) and not kept_because_earlier(cc, c) and not end_or_earlier(c)]
        pt_ = ps.prereq_term()
        known_wrong = [b for b in bad if isinstance(b, ast.Name) and (b.id == ps.bound or (pt_ is not None and b.id == pt_['name']))]
        if known_wrong:
            o.refute(ps.f, st, st, f"backward: on one path the leaf start is `{src(known_wrong[0])}` (the bound taken from the successors / the "
                                   f"project end), not the start computed by the fill from the task's end: the end was already moved back to a "
                                   f"free day of the resource, so this start can lie after the end")
            return
        if bad:
            if any(isinstance(x, ast.Name) and x.id not in ps.f.params for b in bad for x in ast.walk(b) if isinstance(x, ast.Name) and x.id != ps.task
                   and ps.fl.defs_of(x.id)):
                o.undecided(ps.f, st, st, f"leaf start `{src(v)[:80]}` contains a local the rule could not resolve")
            else:
                o.refute(ps.f, st, st, f"backward: leaf start `{src(bad[0])[:80]}` is not the start computed by the fill (nor a min() with it)")
            return
        if reg['is_none'].get('start') is not True:
            covered_user_start = True
    if covered_user_start:
        o.site(ps.f, sts[-1][0], "leaf start = fill(..) or min(user start, fill(..)) whether or not the user entered a start")
    else:
        st = sts[0][0]
        o.refute(ps.f, st, st, "backward: the computed start is stored only when the leaf has no start (`start is None`): a start entered by "
                               "the user is kept as it is and can lie after the end the pass gives the task (start > end)")


def leaf_order(ctx, o, ps: PassShape):
    S = ps.S
    fill = ctx.prog.func(S['fill'])
    sts = [x for x in ps.stores('end') if x[3]['milestone'] is False and x[3]['leaf'] is True]
    if not sts:
        o.refute(ps.f, ps.f.node, 'leaf end', "leaf end is never computed")
        return
    for st, tgt, val, reg in sts:
        v = ps.ex.expand(val, ps.cfg.node_of(st))
        args = facts.flatten_lattice(v, 'max') or [v]
        fc = [a for a in args if isinstance(a, ast.Call) and isinstance(a.func, ast.Attribute) and unmangle(a.func.attr) == fill.name]
        if len(fc) != 1:
            if not fc and any(isinstance(a, ast.Name) and a.id not in ps.f.params for a in args):
                o.undecided(ps.f, st, st, f"leaf end `{src(v)[:80]}` contains a local the rule could not resolve")
                continue
            o.refute(ps.f, st, st, f"leaf end `{src(v)[:80]}` does not come from the fill loop")
            continue
        sa = facts.flatten_lattice(fc[0].args[2], 'max') or [fc[0].args[2]]
        if any(match(f"{ps.task}.start", a) for a in sa):
            o.site(ps.f, st, "end = max(fill(start' >= task.start), ..)")
        else:
            o.refute(ps.f, st, st, f"the fill that produces the end starts at `{src(fc[0].args[2])[:60]}`, which is not bounded below by task.start")
