"""Shared recognisers for the scheduler code (schedule.py): capacity / ledger terms, fill loops, searches, passes."""
from __future__ import annotations

import ast
from typing import Dict, List, Optional, Tuple

from sa.cfg import cfg_of
from sa.flow import flow_of, Expander
from sa.model import Func, unmangle, walk_no_nested, src
from sa.pat import match, same
from sa.types import base
from sa import facts

FWD = dict(name='forward', cls='ForwardScheduler',
           pass_='schedule.ForwardScheduler.__forward_pass',
           search='schedule.ForwardScheduler.__get_resource_nearest_available_date',
           fill='schedule.ForwardScheduler.__shift_by_resource_usage_and_calendar',
           calc='schedule.ForwardScheduler.calc', prepare='schedule.ForwardScheduler.__prepare_tasks',
           init='schedule.ForwardScheduler.__init__',
           balance='_ForwardScheduler__balance_resources', resources='_ForwardScheduler__resources',
           default_estimate='_ForwardScheduler__default_estimate', bound='_ForwardScheduler__start',
           dir=1, rel='predecessors', date_lo='start', date_hi='end', lat='max')
BWD = dict(name='backward', cls='BackwardScheduler',
           pass_='schedule.BackwardScheduler.__backward_pass',
           search='schedule.BackwardScheduler.__get_resource_nearest_available_date',
           fill='schedule.BackwardScheduler.__shift_by_resource_usage_and_calendar',
           calc='schedule.BackwardScheduler.calc', prepare='schedule.BackwardScheduler.__prepare_tasks',
           init='schedule.BackwardScheduler.__init__',
           balance='_BackwardScheduler__balance_resources', resources='_BackwardScheduler__resources',
           default_estimate='_BackwardScheduler__default_estimate', bound='_BackwardScheduler__end',
           dir=-1, rel='successors', date_lo='end', date_hi='start', lat='min')
BOTH = (FWD, BWD)


def parse_cap(e: ast.AST) -> Optional[dict]:
    m = match("$r.get_available_units($d, $t)", e) or match("$r.get_available_units($d)", e)
    if m:
        return {'r': m['r'], 'd': m['d'], 't': m.get('t'), 'node': e}
    return None


def _resv_call(e: ast.AST) -> Optional[dict]:
    m = match("$u.reserved($r, $d, $t)", e)
    if m:
        return dict(m, kind='task')
    m = match("$u.reserved($r, $d)", e)
    if m:
        return dict(m, kind='all')
    return None


def parse_resv(e: ast.AST, balance_attr: str) -> Optional[dict]:
    """ledger sum term.  kinds: sel (all tasks when balancing, own task otherwise) | all | task | sel-inverted | sel-other"""
    if isinstance(e, ast.IfExp):
        a, b = _resv_call(e.body), _resv_call(e.orelse)
        if a and b and same(a['u'], b['u']) and same(a['r'], b['r']) and same(a['d'], b['d']):
            t = e.test
            neg = False
            while isinstance(t, ast.UnaryOp) and isinstance(t.op, ast.Not):
                t, neg = t.operand, not neg
            is_bal = isinstance(t, ast.Attribute) and t.attr == balance_attr
            if is_bal:
                when_bal, when_not = (b, a) if neg else (a, b)
                if when_bal['kind'] == 'all' and when_not['kind'] == 'task':
                    kind = 'sel'
                elif when_bal['kind'] == 'task' and when_not['kind'] == 'all':
                    kind = 'sel-inverted'
                elif when_bal['kind'] == when_not['kind']:
                    kind = when_bal['kind']
                else:
                    kind = 'sel-other'
                return {'u': a['u'], 'r': a['r'], 'd': a['d'], 't': when_not.get('t') or when_bal.get('t'), 'kind': kind,
                        'node': e}
            return {'u': a['u'], 'r': a['r'], 'd': a['d'], 't': a.get('t') or b.get('t'), 'kind': 'sel-other', 'node': e}
        return None
    c = _resv_call(e)
    if c:
        c['node'] = e
        return c
    return None


def parse_free(e: ast.AST, balance_attr: str) -> Optional[dict]:
    """CAP(r, d, t) - RESV(u, r, d, sel)"""
    if isinstance(e, ast.BinOp) and isinstance(e.op, ast.Sub):
        cap, resv = parse_cap(e.left), parse_resv(e.right, balance_attr)
        if cap and resv:
            return {'cap': cap, 'resv': resv, 'node': e}
    return None


def reserve_calls(ctx, f: Func) -> List[ast.Call]:
    """calls of _ResourceUsage.reserve (receiver typed through annotations) in f"""
    out = []
    for c in facts.calls_named(f, 'reserve'):
        if isinstance(c.func, ast.Attribute):
            rt = base(ctx.typer.expr_type(c.func.value, f))
            if rt == '_ResourceUsage':
                out.append(c)
    return out


def all_reserve_sites(ctx) -> List[Tuple[Func, ast.Call]]:
    out = []
    for f in ctx.prog.all_funcs():
        if f.module.name != 'schedule':
            continue
        for c in reserve_calls(ctx, f):
            out.append((f, c))
    return out


def while_loop_of(f: Func, node: ast.AST) -> Optional[ast.While]:
    """innermost while statement of f whose body contains node"""
    best = None
    for n in walk_no_nested(f.node):
        if isinstance(n, ast.While):
            if any(x is node for st in n.body for x in ast.walk(st)):
                best = n
    return best


def for_loop_of(f: Func, node: ast.AST):
    best = None
    for n in walk_no_nested(f.node):
        if isinstance(n, ast.For):
            if any(x is node for st in n.body for x in ast.walk(st)):
                best = n
    return best


def positive_test(test: ast.AST) -> Optional[Tuple[ast.AST, str]]:
    """`x > 0` / `0 < x` -> (x, '>'), `x >= 0` -> (x, '>='), `x > c` ..."""
    if isinstance(test, ast.Compare) and len(test.ops) == 1:
        l, op, r = test.left, test.ops[0], test.comparators[0]
        table = {ast.Gt: '>', ast.GtE: '>=', ast.Lt: '<', ast.LtE: '<=', ast.NotEq: '!=', ast.Eq: '=='}
        o = table.get(type(op))
        if o is None:
            return None
        rc, lc = facts.const_num(r), facts.const_num(l)
        if rc is not None and rc == 0:
            return l, o
        if lc is not None and lc == 0:
            flip = {'>': '<', '>=': '<=', '<': '>', '<=': '>=', '!=': '!=', '==': '=='}
            return r, flip[o]
    return None


def pass_call_sites(ctx, S) -> List[ast.Call]:
    """recursive / initial calls of the scheduler pass inside the pass and calc"""
    out = []
    pname = ctx.prog.func(S['pass_']).name
    for q in (S['pass_'], S['calc']):
        f = ctx.prog.func(q)
        for c in facts.calls_named(f, pname):
            out.append((f, c))
    return out


_NEG = {'>': '<=', '>=': '<', '<': '>=', '<=': '>', '==': '!=', '!=': '=='}


def sign_test(test: ast.AST, polarity: bool = True) -> Optional[Tuple[ast.AST, str]]:
    """(x, op) such that the condition (test with polarity) is `x op 0`; `not (x <= 0)` is reported as (x, '>')"""
    while isinstance(test, ast.UnaryOp) and isinstance(test.op, ast.Not):
        test, polarity = test.operand, not polarity
    pt = positive_test(test)
    if pt is None:
        return None
    return (pt[0], pt[1] if polarity else _NEG[pt[1]])
