"""Shared recognisers for the scheduler code (schedule.py): capacity / ledger terms, fill loops, searches, passes."""
from __future__ import annotations

import ast
from typing import Dict, List, Optional, Tuple

from sa.cfg import cfg_of
from sa.flow import flow_of, Expander
from sa.model import Func, unmangle, walk_no_nested, src
from sa.pat import match, same, attr_path
from sa.types import base
from sa import facts

FWD = dict(name='forward', cls='ForwardScheduler',
           pass_='schedule.ForwardScheduler.__forward_pass',
           search='schedule.ForwardScheduler.__get_resource_nearest_available_date',
           fill='schedule.ForwardScheduler.__shift_by_resource_usage_and_calendar',
           calc='schedule.ForwardScheduler.calc', prepare='schedule.ForwardScheduler.__prepare_tasks',
           init='schedule.ForwardScheduler.__init__',
           balance='_ForwardScheduler__balance_resources', resources='_ForwardScheduler__resources',
           default_estimate='_ForwardScheduler__default_estimate', bound='_ForwardScheduler__start',
           dir=1, rel='predecessors', date_lo='start', date_hi='end', lat='max')
BWD = dict(name='backward', cls='BackwardScheduler',
           pass_='schedule.BackwardScheduler.__backward_pass',
           search='schedule.BackwardScheduler.__get_resource_nearest_available_date',
           fill='schedule.BackwardScheduler.__shift_by_resource_usage_and_calendar',
           calc='schedule.BackwardScheduler.calc', prepare='schedule.BackwardScheduler.__prepare_tasks',
           init='schedule.BackwardScheduler.__init__',
           balance='_BackwardScheduler__balance_resources', resources='_BackwardScheduler__resources',
           default_estimate='_BackwardScheduler__default_estimate', bound='_BackwardScheduler__end',
           dir=-1, rel='successors', date_lo='end', date_hi='start', lat='min')
BOTH = (FWD, BWD)


def parse_cap(e: ast.AST) -> Optional[dict]:
    m = match("$r.get_available_units($d, $t)", e) or match("$r.get_available_units($d)", e)
    if m:
        return {'r': m['r'], 'd': m['d'], 't': m.get('t'), 'node': e}
    return None


def _resv_call(e: ast.AST) -> Optional[dict]:
    m = match("$u.reserved($r, $d, $t)", e)
    if m:
        if isinstance(m['t'], ast.Constant) and m['t'].value is None:
            # reserved(r, d, None) is the all-tasks query (task=None is the parameter's default)
            return {'u': m['u'], 'r': m['r'], 'd': m['d'], 'kind': 'all'}
        return dict(m, kind='task')
    m = match("$u.reserved($r, $d)", e)
    if m:
        return dict(m, kind='all')
    return None


def parse_resv(e: ast.AST, balance_attr: str) -> Optional[dict]:
    """ledger sum term.  kinds: sel (all tasks when balancing, own task otherwise) | all | task | sel-inverted | sel-other"""
    if isinstance(e, ast.IfExp):
        a, b = _resv_call(e.body), _resv_call(e.orelse)
        if a and b and same(a['u'], b['u']) and same(a['r'], b['r']) and same(a['d'], b['d']):
            t = e.test
            neg = False
            while isinstance(t, ast.UnaryOp) and isinstance(t.op, ast.Not):
                t, neg = t.operand, not neg
            is_bal = isinstance(t, ast.Attribute) and t.attr == balance_attr
            if is_bal:
                when_bal, when_not = (b, a) if neg else (a, b)
                if when_bal['kind'] == 'all' and when_not['kind'] == 'task':
                    kind = 'sel'
                elif when_bal['kind'] == 'task' and when_not['kind'] == 'all':
                    kind = 'sel-inverted'
                elif when_bal['kind'] == when_not['kind']:
                    kind = when_bal['kind']
                else:
                    kind = 'sel-other'
                return {'u': a['u'], 'r': a['r'], 'd': a['d'], 't': when_not.get('t') or when_bal.get('t'), 'kind': kind,
                        'node': e}
            return {'u': a['u'], 'r': a['r'], 'd': a['d'], 't': a.get('t') or b.get('t'), 'kind': 'sel-other', 'node': e}
        return None
    c = _resv_call(e)
    if c and isinstance(c.get('t'), ast.IfExp):
        # the selector spelled inside the argument: reserved(r, d, None if balance else task)
        #   ==  reserved(r, d, None) if balance else reserved(r, d, task)
        t = c['t']

        def _call(arg):
            n = ast.Call(func=e.func, args=[c['r'], c['d'], arg], keywords=[])
            return ast.copy_location(n, e)
        syn = ast.copy_location(ast.IfExp(test=t.test, body=_call(t.body), orelse=_call(t.orelse)), e)
        r = parse_resv(syn, balance_attr)
        if r:
            r['node'] = e
            r['as_ifexp'] = syn
            return r
    if c:
        c['node'] = e
        return c
    return None


def parse_free(e: ast.AST, balance_attr: str) -> Optional[dict]:
    """CAP(r, d, t) - RESV(u, r, d, sel)"""
    if isinstance(e, ast.BinOp) and isinstance(e.op, ast.Sub):
        cap, resv = parse_cap(e.left), parse_resv(e.right, balance_attr)
        if cap and resv:
            return {'cap': cap, 'resv': resv, 'node': e}
    return None


def reserve_calls(ctx, f: Func) -> List[ast.Call]:
    """calls of _ResourceUsage.reserve (receiver typed through annotations) in f"""
    out = []
    for c in facts.calls_named(f, 'reserve'):
        if isinstance(c.func, ast.Attribute):
            rt = base(ctx.typer.expr_type(c.func.value, f))
            if rt == '_ResourceUsage':
                out.append(c)
    return out


def all_reserve_sites(ctx) -> List[Tuple[Func, ast.Call]]:
    out = []
    for f in ctx.prog.all_funcs():
        if f.module.name != 'schedule':
            continue
        for c in reserve_calls(ctx, f):
            out.append((f, c))
    return out


def while_loop_of(f: Func, node: ast.AST) -> Optional[ast.While]:
    """innermost while statement of f whose body contains node"""
    best = None
    for n in walk_no_nested(f.node):
        if isinstance(n, ast.While):
            if any(x is node for st in n.body for x in ast.walk(st)):
                best = n
    return best


def for_loop_of(f: Func, node: ast.AST):
    best = None
    for n in walk_no_nested(f.node):
        if isinstance(n, ast.For):
            if any(x is node for st in n.body for x in ast.walk(st)):
                best = n
    return best


def positive_test(test: ast.AST) -> Optional[Tuple[ast.AST, str]]:
    """`x > 0` / `0 < x` -> (x, '>'), `x >= 0` -> (x, '>='), `x > c` ..."""
    if isinstance(test, ast.Compare) and len(test.ops) == 1:
        l, op, r = test.left, test.ops[0], test.comparators[0]
        table = {ast.Gt: '>', ast.GtE: '>=', ast.Lt: '<', ast.LtE: '<=', ast.NotEq: '!=', ast.Eq: '=='}
        o = table.get(type(op))
        if o is None:
            return None
        rc, lc = facts.const_num(r), facts.const_num(l)
        if rc is not None and rc == 0:
            return l, o
        if lc is not None and lc == 0:
            flip = {'>': '<', '>=': '<=', '<': '>', '<=': '>=', '!=': '!=', '==': '=='}
            return r, flip[o]
    return None


def pass_call_sites(ctx, S) -> List[ast.Call]:
    """recursive / initial calls of the scheduler pass inside the pass and calc"""
    out = []
    pname = ctx.prog.func(S['pass_']).name
    for q in (S['pass_'], S['calc']):
        f = ctx.prog.func(q)
        for c in facts.calls_named(f, pname):
            out.append((f, c))
    return out


_NEG = {'>': '<=', '>=': '<', '<': '>=', '<=': '>', '==': '!=', '!=': '=='}


def sign_test(test: ast.AST, polarity: bool = True) -> Optional[Tuple[ast.AST, str]]:
    """(x, op) such that the condition (test with polarity) is `x op 0`; `not (x <= 0)` is reported as (x, '>')"""
    while isinstance(test, ast.UnaryOp) and isinstance(test.op, ast.Not):
        test, polarity = test.operand, not polarity
    pt = positive_test(test)
    if pt is None:
        return None
    return (pt[0], pt[1] if polarity else _NEG[pt[1]])


# =====================================================================================================================
# structure of the recursive passes (shared by C02, C04, C07, C08, C09, C14)

class PassShape:
    """facts about one scheduler pass, extracted once; `problems` are (node, message) pairs found while extracting"""

    def __init__(self, ctx, S):
        from sa.flow import Expander, flow_of
        self.ctx, self.S = ctx, S
        prog = ctx.prog
        self.f = f = prog.func(S['pass_'])
        p = f.params
        if len(p) < 4:
            from sa.model import AnalysisError
            raise AnalysisError(f"{f.qual}: expected parameters (self, task, bound, ledger[, memo])")
        self.task, self.bound, self.usage = p[1], p[2], p[3]
        # the memo: `if task.id in <memo>: return` opens the pass; <memo> is the 5th parameter or (wrongly) scheduler state
        self.memo = p[4] if len(p) > 4 else None
        self.memo_on_self = None
        body_ = [s_ for s_ in f.body if not (isinstance(s_, ast.Expr) and isinstance(s_.value, ast.Constant))]
        # plain aliases in front of the memo test (`calculated = self.__calculated`) are looked through
        aliases = {}
        k_ = 0
        while k_ < len(body_) and isinstance(body_[k_], ast.Assign) and len(body_[k_].targets) == 1 and isinstance(body_[k_].targets[0], ast.Name) \
                and isinstance(body_[k_].value, ast.Attribute) and isinstance(body_[k_].value.value, ast.Name) and body_[k_].value.value.id == p[0]:
            aliases[body_[k_].targets[0].id] = body_[k_].value
            k_ += 1
        first = body_[k_:k_ + 1] if aliases and k_ < len(body_) and isinstance(body_[k_], ast.If) else body_[:1]
        if first and isinstance(first[0], ast.If):
            m = match(f"{self.task}.id in $m", first[0].test)
            if m:
                mt = src(m['m'])
                if isinstance(m['m'], ast.Attribute) and isinstance(m['m'].value, ast.Name) and m['m'].value.id == p[0]:
                    self.memo_on_self = m['m'].attr
                    self.memo = mt
                elif isinstance(m['m'], ast.Name) and m['m'].id in aliases:
                    self.memo_on_self = aliases[m['m'].id].attr
                    self.memo = mt
                elif self.memo is None:
                    self.memo = mt
        self.memo_on_task = None
        if self.memo is None and first and isinstance(first[0], ast.If) and first[0].body and isinstance(first[0].body[-1], ast.Return):
            # (wrongly) a visited flag kept on the task object itself: `if getattr(task, 'done', False): return` / `if task.done: return`
            m = match(f"getattr({self.task}, $n, $d)", first[0].test) or match(f"getattr({self.task}, $n)", first[0].test)
            if m and isinstance(m['n'], ast.Constant) and isinstance(m['n'].value, str):
                self.memo_on_task = m['n'].value
            else:
                m = match(f"{self.task}.$a", first[0].test)
                if m and isinstance(m['a'], str) and m['a'] not in ('milestone',):
                    self.memo_on_task = m['a']
            if self.memo_on_task:
                self.memo = f"{self.task}.{self.memo_on_task}"
        if self.memo is None:
            from sa.model import AnalysisError
            raise AnalysisError(f"{f.qual}: no memo (`if task.id in <memo>: return`) found")
        self.ex = Expander(prog, f, ctx.typer)
        self.fl = flow_of(f)
        self.cfg = cfg_of(f)
        self.rel = S['rel']                       # predecessors / successors
        self.end_attr = 'end' if S['dir'] == 1 else 'start'      # field of a prerequisite that bounds the task
        self.lat = S['lat']
        self.pname = f.name
        self._mangled_pname = '_' + S['cls'].lstrip('_') + f.name if f.name.startswith('__') else f.name

    # ---- regions
    def conds(self, node, expand=True):
        return facts.node_conditions(self.ctx.prog, self.f, node, self.ctx.typer, expand=expand)

    def region(self, node, extra_conds=None) -> Dict[str, object]:
        """classify the path condition of a statement: milestone True/False, leaf True/False, none_of = {field: bool}"""
        r = {'milestone': None, 'leaf': None, 'is_none': {}, 'other': []}
        allc = list(self.conds(node))
        for t, pol in (extra_conds or []):
            tx = self.ex.expand(t, self.cfg.node_containing(t) or self.cfg.node_of(node) or self.cfg.node_containing(node))
            allc += facts.split_conj(tx, pol)
        for t, pol in allc:
            if match(f"{self.task}.milestone", t):
                r['milestone'] = pol
                continue
            lf = self._leaf_test(t)
            if lf is not None:
                r['leaf'] = pol if lf else not pol
                continue
            m = match(f"{self.task}.$a is None", t)
            if m:
                r['is_none'][m['a']] = pol
                continue
            m = match(f"{self.task}.$a is not None", t)
            if m:
                r['is_none'][m['a']] = not pol
                continue
            if (match(f"{self.task}.id in {self.memo}", t) and not pol) or (match(f"{self.task}.id not in {self.memo}", t) and pol):
                continue
            if self.memo_on_self and ((match(f"{self.task}.id in {self.f.params[0]}.{self.memo_on_self}", t) and not pol) or
                                      (match(f"{self.task}.id not in {self.f.params[0]}.{self.memo_on_self}", t) and pol)):
                continue
            if getattr(self, 'memo_on_task', None) and not pol and (match(f"getattr({self.task}, '{self.memo_on_task}', $d)", t) or
                                                                   match(f"{self.task}.{self.memo_on_task}", t)):
                continue
            r['other'].append((t, pol))
        # unit propagation over negated conjunctions: not (A and B) with A known true gives not B
        changed = True
        rounds = 0
        while changed and rounds < 4:
            changed = False
            rounds += 1
            for t, pol in list(r['other']):
                core, p2 = t, pol
                while isinstance(core, ast.UnaryOp) and isinstance(core.op, ast.Not):
                    core, p2 = core.operand, not p2
                if isinstance(core, ast.BoolOp) and ((isinstance(core.op, ast.And) and not p2) or (isinstance(core.op, ast.Or) and p2)):
                    want = isinstance(core.op, ast.And)       # conjunct values that would make the compound decided the other way
                    unknown = []
                    for v in core.values:
                        val = self._known(r, v)
                        if val is None:
                            unknown.append(v)
                        elif val != want:
                            unknown = None
                            break
                    if unknown is not None and len(unknown) == 1:
                        r['other'].remove((t, pol))
                        sub = self.region_of_conds([(unknown[0], not want)])
                        for k in ('milestone', 'leaf'):
                            if sub[k] is not None:
                                r[k] = sub[k]
                        r['is_none'].update(sub['is_none'])
                        r['other'] += sub['other']
                        changed = True
        return r

    def _leaf_test(self, t):
        """True when test t says `the task has no children`, False when it says `the task has children`, None otherwise.
        A copy of the children (`list(task.children)`, `tuple(..)`) counts as the children."""
        em = is_emptiness(t, True)
        if em is None:
            core, pol = t, True
            while isinstance(core, ast.UnaryOp) and isinstance(core.op, ast.Not):
                core, pol = core.operand, not pol
            em = (core, not pol)          # bare truthiness of a sequence expression
        if isinstance(em[0], (ast.ListComp, ast.List)):
            return None
        seq = strip_seq_copy(em[0])
        if match(f"{self.task}.children", seq):
            return bool(em[1])
        return None

    def _known(self, r, v):
        """truth value of atom v under region r, or None"""
        sub = self.region_of_conds([(v, True)])
        if sub['milestone'] is not None and r['milestone'] is not None:
            return sub['milestone'] == r['milestone']
        if sub['leaf'] is not None and r['leaf'] is not None:
            return sub['leaf'] == r['leaf']
        for a, val in sub['is_none'].items():
            if a in r['is_none']:
                return val == r['is_none'][a]
        return None

    def region_of_conds(self, conds):
        r = {'milestone': None, 'leaf': None, 'is_none': {}, 'other': []}
        for t, pol in conds:
            tx = t
            if isinstance(t, ast.Name):
                tx = self.ex.expand(t, self.cfg.node_containing(t)) if self.cfg.node_containing(t) is not None else t
            for a, p in facts.split_conj(tx, pol):
                if match(f"{self.task}.milestone", a):
                    r['milestone'] = p
                elif self._leaf_test(a) is not None:
                    r['leaf'] = p if self._leaf_test(a) else not p
                elif match(f"{self.task}.$a is None", a):
                    r['is_none'][match(f"{self.task}.$a is None", a)['a']] = p
                elif match(f"{self.task}.$a is not None", a):
                    r['is_none'][match(f"{self.task}.$a is not None", a)['a']] = not p
                else:
                    r['other'].append((a, p))
        return r

    def stores(self, attr):
        """[(stmt, target, value, region)] of stores to task.<attr> (property setters estimate/spent included).
        A conditional expression on the right-hand side is split into one entry per case, its tests joining the region."""
        out = []
        for st, tgt, val in facts.attr_stores(self.f):
            if tgt.attr == attr and isinstance(tgt.value, ast.Name) and tgt.value.id == self.task:
                if isinstance(st, ast.AugAssign):
                    out.append((st, tgt, val, self.region(st)))
                    continue
                for conds, v in expr_cases(val):
                    # `x = <new> if x is None else x` keeps the old value in one case: not a store
                    if isinstance(v, ast.Attribute) and same(v, tgt):
                        continue
                    out.append((st, tgt, v, self.region(st, conds)))
        return out

    # ---- memo shortcut
    def memo_shortcut(self):
        """the statement that makes the pass skip a task already in the memo, looked for at the top of the body behind
        side-effect free assignments (`done = task.id in memo`).  Returns
          ('return', if_stmt, return_stmt)   `if task.id in memo: return`
          ('wrap', if_stmt, None)            `if task.id not in memo: <the whole pass>` as the only statement
          ('late', stmt, None)               a memo test exists but statements with effects run before it
          None                               no memo test found"""
        body = [s_ for s_ in self.f.body if not (isinstance(s_, ast.Expr) and isinstance(s_.value, ast.Constant))]

        def pure(e):
            return not any(isinstance(x, (ast.Call, ast.Await, ast.Yield, ast.YieldFrom, ast.NamedExpr)) for x in ast.walk(e))

        def says_in_memo(test):
            for tx in (test, self.ex.expand(test, self.cfg.node_containing(test))):
                t, pol = facts.norm_cond(tx, True)
                if match(f"{self.task}.id in {self.memo}", t):
                    return pol
                if match(f"{self.task}.id not in {self.memo}", t):
                    return not pol
            return None
        for i, st in enumerate(body):
            if isinstance(st, (ast.Assign, ast.AnnAssign)) and st.value is not None and pure(st.value) and \
                    all(isinstance(t, ast.Name) for t in (st.targets if isinstance(st, ast.Assign) else [st.target])):
                continue
            if isinstance(st, ast.If):
                pol = says_in_memo(st.test)
                if pol is True and st.body and isinstance(st.body[-1], ast.Return) and \
                        all(isinstance(b_, ast.Expr) and isinstance(b_.value, (ast.Call, ast.Constant)) for b_ in st.body[:-1]):
                    return ('return', st, st.body[-1])       # (log / trace calls in front of the return change nothing)
                if pol is False and not st.orelse and i == len(body) - 1:
                    return ('wrap', st, None)
                if pol is False and st.orelse and len(st.orelse) == 1 and isinstance(st.orelse[0], ast.Return) and i == len(body) - 1:
                    return ('return', st, st.orelse[0])
            break
        for n in walk_no_nested(self.f.node):
            if isinstance(n, ast.Compare) and len(n.ops) == 1 and isinstance(n.ops[0], (ast.In, ast.NotIn)) and \
                    match(f"{self.task}.id", n.left) and src(n.comparators[0]) == self.memo:
                return ('late', n, None)
        return None

    def memo_skip_nodes(self):
        """cfg nodes through which the pass leaves without scheduling because the task is in the memo"""
        sc = self.memo_shortcut()
        if sc is None or sc[0] == 'late':
            return None
        if sc[0] == 'return':
            n = self.cfg.node_of(sc[2])
            return {n.id} if n is not None else None
        out = set()
        for b in self.cfg.nodes:
            if b.kind == 'branch' and b.test is sc[1].test and b.polarity is False:
                out.add(b.id)
        return out or None

    # ---- recursive calls
    def call_iter(self, c):
        """(for statement, expression of the collection) whose elements are the task argument of pass call c:
        `for x in X: pass(x)`, `for i, x in enumerate(X): pass(x)`, `for i in range(len(X)) / reversed(range(len(X))) /
        range(len(X) - 1, -1, -1): pass(X[i])`; None when the call is not made once per element of a collection"""
        fo = for_loop_of(self.f, c)
        if fo is None or not c.args:
            return None
        a = c.args[0]
        if isinstance(fo.target, ast.Name) and isinstance(a, ast.Name) and a.id == fo.target.id:
            return fo, fo.iter
        if isinstance(fo.target, ast.Tuple) and len(fo.target.elts) == 2 and isinstance(a, ast.Name) and \
                isinstance(fo.target.elts[1], ast.Name) and fo.target.elts[1].id == a.id:
            m = match("enumerate($x)", fo.iter)
            if m:
                return fo, m['x']
        if isinstance(a, ast.Subscript) and isinstance(a.slice, ast.Name) and isinstance(fo.target, ast.Name) and a.slice.id == fo.target.id:
            it = fo.iter
            m = match("reversed($r)", it)
            if m:
                it = m['r']
            m = match("range(len($x))", it) or match("range(0, len($x))", it) or match("range(len($x) - 1, -1, -1)", it)
            if m and same(m['x'], a.value):
                return fo, a.value
        return None

    def pass_calls(self):
        out = []
        for c in facts.calls_named(self.f, self.pname):
            if isinstance(c.func, ast.Attribute) and isinstance(c.func.value, ast.Name) and c.func.value.id == self.f.params[0]:
                out.append(c)
        return out

    def call_loop(self, c):
        """(for statement, iterable expression) of the loop whose variable is the task argument of pass call c"""
        fo = for_loop_of(self.f, c)
        if fo is None or not c.args:
            return None
        if isinstance(fo.target, ast.Name) and isinstance(c.args[0], ast.Name) and c.args[0].id == fo.target.id:
            return fo
        return None

    # ---- prerequisites
    def prereq_term(self):
        """(lattice call node in expanded form, comprehension argument over the prerequisite collection, other args)
        taken from the value handed to the children recursion / used for milestones: the PE / SS term"""
        # the statement that defines it: an assignment whose value is max/min over a comprehension of <x>.<end_attr>
        for n in walk_no_nested(self.f.node):
            if isinstance(n, ast.Assign) and len(n.targets) == 1 and isinstance(n.targets[0], ast.Name):
                value = n.value
                # max(acc) where acc is a list literal grown by one accumulate loop == max(<literal> + [comprehension])
                if isinstance(value, ast.Call) and isinstance(value.func, ast.Name) and value.func.id in ('max', 'min') and \
                        len(value.args) == 1 and isinstance(value.args[0], ast.Name):
                    syn = facts.accumulated_list(self.f, value.args[0].id)
                    if syn is not None:
                        value = ast.Call(func=value.func, args=[syn], keywords=[])
                        ast.copy_location(value, n.value)
                        ast.fix_missing_locations(value)
                args = facts.flatten_lattice(value, self.lat)
                other_lat = facts.flatten_lattice(value, 'min' if self.lat == 'max' else 'max')
                at = self.cfg.node_of(n)
                for kind, a in (('ok', args), ('flipped', other_lat)):
                    if not a:
                        continue
                    # a hoisted sequence (`ends = [x.end for x in deps if ..]; max(ends + [bound])`) stands for its comprehension
                    a = [self._hoisted_seq(x, at) for x in a]
                    for x in a:
                        parts = facts.comp_parts(x)
                        if parts and match(f"$t.{self.end_attr}", parts[0]) and isinstance(parts[1], ast.Name) and \
                                match("$t." + self.end_attr, parts[0])['t'].id == parts[1].id:
                            return {'stmt': n, 'name': n.targets[0].id, 'args': a, 'comp': x, 'parts': parts, 'kind': kind, 'value': value}
        return None

    def _mutated_in_place(self, name):
        for n in walk_no_nested(self.f.node):
            if isinstance(n, ast.Call) and isinstance(n.func, ast.Attribute) and isinstance(n.func.value, ast.Name) and \
                    n.func.value.id == name and n.func.attr in ('extend', 'append', 'update', 'add', 'insert', 'remove', 'pop', 'clear',
                                                                'sort', 'reverse'):
                return True
        return any(d.kind == 'aug' for d in self.fl.defs_of(name))

    def _hoisted_seq(self, x, at):
        """a local name whose unique definition is a comprehension (never mutated afterwards) -> that comprehension"""
        if isinstance(x, ast.Name) and at is not None and x.id not in self.f.params:
            d = self.fl.unique_def(x.id, at)
            if d is not None and d.kind == 'assign' and d.value is not None and facts.comp_parts(d.value) and \
                    len(self.fl.defs_of(x.id)) == 1 and not self._mutated_in_place(x.id):
                return d.value
        return x

    def _beta(self, e, at):
        """`f(a)` where local f is bound once to `lambda p: body` -> body[p := a] (left behind by helper inlining)"""
        if isinstance(e, ast.Call) and isinstance(e.func, ast.Name) and not e.keywords and at is not None:
            ds = self.fl.defs_of(e.func.id)
            if len(ds) == 1 and ds[0].kind == 'assign' and isinstance(ds[0].value, ast.Lambda):
                lam = ds[0].value
                ps_ = [a.arg for a in lam.args.args]
                if len(ps_) == len(e.args) and not lam.args.vararg and not lam.args.kwarg and not lam.args.kwonlyargs:
                    from sa.flow import subst
                    return subst(lam.body, dict(zip(ps_, e.args)))
        return e

    def owners_of(self, e, at, depth=0):
        """which link owners a sequence expression ranges over: subset of {'own', 'all', 'direct'} (the task itself, all its
        ancestors, its direct parent only) or None when the expression is not understood"""
        task = self.task
        if depth > 6:
            return None
        if isinstance(e, ast.Call) and isinstance(e.func, ast.Name) and e.func.id in ('list', 'tuple', 'iter', 'reversed') and len(e.args) == 1:
            return self.owners_of(e.args[0], at, depth + 1)
        if isinstance(e, ast.Call) and (match("itertools.chain($*a)", e) or match("chain($*a)", e)):
            out = set()
            for a in e.args:
                r = self.owners_of(a, at, depth + 1)
                if r is None:
                    return None
                out |= r
            return out
        if match(f"{task}.all_parents", e):
            return {'all'}
        parts = facts.comp_parts(e)
        if parts and isinstance(e, (ast.ListComp, ast.GeneratorExp)):
            elt, tgt, it, ifs = parts
            if isinstance(elt, ast.Name) and isinstance(tgt, ast.Name) and elt.id == tgt.id:
                r = self.owners_of(it, at, depth + 1)
                if r is not None and ifs and 'all' in r:
                    return (r - {'all'}) | {'partial'}       # a filtered part of the ancestors
                return r if not ifs else None
            return None
        if isinstance(e, ast.Subscript) and isinstance(e.slice, ast.Slice):
            r = self.owners_of(e.value, at, depth + 1)
            if e.slice.lower is None and e.slice.upper is None:
                return r                                     # x[:] / x[::-1]: every element
            if r is not None and 'all' in r:
                return (r - {'all'}) | {'partial'}           # a slice of the ancestors
            return None
        if isinstance(e, (ast.List, ast.Tuple)):
            out = set()
            for el in e.elts:
                if isinstance(el, ast.Starred):
                    r = self.owners_of(el.value, at, depth + 1)
                    if r is None:
                        return None
                    out |= r
                elif isinstance(el, ast.Name) and el.id == task:
                    out.add('own')
                elif match(f"{task}.parent", el):
                    out.add('direct')
                else:
                    return None
            return out
        if isinstance(e, ast.BinOp) and isinstance(e.op, ast.Add):
            a, b = self.owners_of(e.left, at, depth + 1), self.owners_of(e.right, at, depth + 1)
            return None if a is None or b is None else a | b
        if isinstance(e, ast.Name) and at is not None and e.id not in self.f.params:
            d = self.fl.unique_def(e.id, at)
            if d is not None and d.kind == 'assign' and d.value is not None and len(self.fl.defs_of(e.id)) == 1 and \
                    not self._mutated_in_place(e.id):
                return self.owners_of(d.value, d.node, depth + 1)
        return None

    def _owner_tag(self, owners, it):
        if owners is None:
            return 'unknown:' + src(it)
        return frozenset(owners)

    def collection_sources(self, iter_expr, at_node):
        """which tasks the prerequisite collection ranges over.  Returns dict(own=bool, ancestors=bool, var=name or None,
        defs=[...], filtered=[...], unknown=[...])"""
        task, rel = self.task, self.rel
        res = {'own': False, 'ancestors': False, 'var': None, 'defs': [], 'filtered': [], 'unknown': [], 'setlike': []}

        def via_owner(tag, e0):
            """`<v>.<rel>` where v ranges over the link owners described by tag"""
            if not isinstance(tag, frozenset):
                res['unknown'].append(e0)
                return
            if 'own' in tag:
                res['own'] = True
            if 'all' in tag:
                res['ancestors'] = 'all'
            elif 'partial' in tag:
                if res['ancestors'] != 'all':
                    res['ancestors'] = 'only a filtered or sliced part of the ancestors'
            elif 'direct' in tag:
                if res['ancestors'] != 'all':
                    res['ancestors'] = 'direct-parent-only'

        def classify_seq(e, ctxvars, at):
            """e is an expression yielding tasks: classify as own / ancestors(parent var) / unknown"""
            e0 = e
            e = self._beta(e, at)
            if isinstance(e, ast.Call) and isinstance(e.func, ast.Name) and e.func.id in ('list', 'tuple') and len(e.args) == 1:
                e = self._beta(e.args[0], at)
            if isinstance(e, ast.Call) and isinstance(e.func, ast.Name) and e.func.id in ('set', 'frozenset'):
                res['setlike'].append(e0)
                e = e.args[0] if e.args else e
            # [d for owner in OWNERS for d in owner.<rel>]
            if isinstance(e, (ast.ListComp, ast.GeneratorExp)) and len(e.generators) == 2:
                g0, g1 = e.generators
                if isinstance(g0.target, ast.Name) and isinstance(g1.target, ast.Name) and isinstance(e.elt, ast.Name) and \
                        e.elt.id == g1.target.id:
                    if g0.ifs or g1.ifs:
                        res['filtered'].append(e0)
                    tag = self._owner_tag(self.owners_of(g0.iter, at), g0.iter)
                    classify_seq(g1.iter, dict(ctxvars, **{g0.target.id: tag}), at)
                    return
                res['unknown'].append(e0)
                return
            parts = facts.comp_parts(e)
            if isinstance(e, ast.SetComp):
                res['setlike'].append(e0)
            if parts:
                elt, tgt, it, ifs = parts
                if not (isinstance(elt, ast.Name) and isinstance(tgt, ast.Name) and elt.id == tgt.id):
                    res['unknown'].append(e0)
                    return
                if ifs:
                    res['filtered'].append(e0)
                e = self._beta(it, at)
            if match(f"{task}.{rel}", e):
                res['own'] = True
            elif isinstance(e, ast.Attribute) and e.attr == rel and isinstance(e.value, ast.Name) and e.value.id in ctxvars:
                via_owner(ctxvars[e.value.id], e0)
            elif isinstance(e, (ast.List, ast.Tuple)) and not e.elts:
                pass
            elif isinstance(e, ast.BinOp) and isinstance(e.op, ast.Add):
                classify_seq(e.left, ctxvars, at)
                classify_seq(e.right, ctxvars, at)
            elif isinstance(e, ast.Name) and at is not None and e.id not in self.f.params and len(self.fl.defs_of(e.id)) == 1 and \
                    self.fl.unique_def(e.id, at) is not None and self.fl.unique_def(e.id, at).kind == 'assign' and \
                    self.fl.unique_def(e.id, at).value is not None and not self._mutated_in_place(e.id):
                d = self.fl.unique_def(e.id, at)
                classify_seq(d.value, ctxvars, d.node)
            else:
                res['unknown'].append(e0)

        def loop_ctxvars(cn, stmt=None):
            ctxvars = {}
            fors = self.cfg.enclosing_fors(cn) if cn is not None else []
            for fo in fors:
                if isinstance(fo.target, ast.Name):
                    owners = self.owners_of(fo.iter, self.cfg.node_of(fo))
                    # a `break` in the loop over the owners cuts the chain of ancestors short
                    brk = [b for st_ in fo.body for b in ast.walk(st_) if isinstance(b, ast.Break)
                           and not any(isinstance(l_, (ast.For, ast.While)) and l_ is not fo and any(y is b for y in ast.walk(l_))
                                       for st2 in fo.body for l_ in ast.walk(st2))]
                    if owners is not None and brk and 'all' in owners:
                        owners = (set(owners) - {'all'}) | {'partial'}
                    ctxvars[fo.target.id] = self._owner_tag(owners, fo.iter)
            # conditions on the growth statement inside the loop: only `the added collection is not empty` is harmless
            if fors and cn is not None and stmt is not None:
                outer = self.cfg.node_of(fors[0])
                outer_c = self.cfg.conditions(outer) if outer is not None else []
                for t, p in [c_ for c_ in self.cfg.conditions(cn) if not any(c_[0] is oc[0] for oc in outer_c)]:
                    em = is_emptiness(t, p)
                    if em is None:
                        core, pol_ = t, p
                        while isinstance(core, ast.UnaryOp) and isinstance(core.op, ast.Not):
                            core, pol_ = core.operand, not pol_
                        em = (core, not pol_)      # bare truthiness of a sequence expression
                    harmless = em is not None and not em[1] and isinstance(em[0], ast.Attribute) and em[0].attr == rel and \
                        isinstance(em[0].value, ast.Name) and em[0].value.id in ctxvars
                    if not harmless and not (isinstance(t, (ast.For, ast.AsyncFor))):
                        res['filtered'].append(stmt)
                        break
            return ctxvars

        if not isinstance(iter_expr, ast.Name):
            classify_seq(iter_expr, {}, at_node)
            return res
        var = iter_expr.id
        res['var'] = var
        defs = self.fl.reaching(var, at_node)
        # follow plain aliases (`successors = collected`), e.g. left behind by helper inlining
        for _ in range(4):
            if len(defs) == 1 and defs[0].kind == 'assign' and isinstance(defs[0].value, ast.Name) and defs[0].node is not None:
                nxt = self.fl.reaching(defs[0].value.id, defs[0].node)
                if nxt:
                    var = defs[0].value.id
                    defs = nxt
                    continue
            break
        res['alias_of'] = var
        res['defs'] = list(defs)
        for d in defs:
            if d.kind == 'assign' and d.value is not None:
                classify_seq(d.value, {}, d.node)
            elif d.kind == 'aug':
                if not isinstance(d.stmt.op, ast.Add):
                    res['unknown'].append(d.stmt)
                    continue
                # enclosing loop over the link owners (the ancestors of the task, possibly with the task itself)
                classify_seq(d.stmt.value, loop_ctxvars(d.node, d.stmt), d.node)
            elif d.kind == 'param':
                res['unknown'].append(ast.Name(id=var))
            else:
                res['unknown'].append(d.stmt)
        # in-place growth: var.extend(...) / var.append(...) / var.update / var.add
        for n in walk_no_nested(self.f.node):
            if isinstance(n, ast.Call) and isinstance(n.func, ast.Attribute) and isinstance(n.func.value, ast.Name) and \
                    n.func.value.id == var and n.func.attr in ('extend', 'append', 'update', 'add', 'insert') and n.args:
                cn = self.cfg.node_containing(n)
                if n.func.attr in ('update', 'add'):
                    res['setlike'].append(n)
                a = n.args[-1]
                if n.func.attr in ('append', 'add', 'insert'):
                    res['unknown'].append(n)      # single element insertion: not a recognised collection idiom
                else:
                    classify_seq(a, loop_ctxvars(cn, n), cn)
                res['defs'].append(n)
        return res


def ctor_field_value(prog, call: ast.AST, attr: str):
    """value given for field `attr` in a constructor call of a package class written as a dataclass / plain annotated class
    (keyword, or positional by the order of the annotated fields); None when the call is not such a constructor call"""
    if not (isinstance(call, ast.Call) and isinstance(call.func, ast.Name)):
        return None
    ci = prog.classes.get(call.func.id)
    if ci is None:
        return None
    for k in call.keywords:
        if k.arg == attr:
            return k.value
    fields_ = [st.target.id for st in ci.node.body if isinstance(st, ast.AnnAssign) and isinstance(st.target, ast.Name)]
    init = ci.methods.get('__init__')
    if init is not None:
        fields_ = [p_ for p_ in init.params[1:]]
    if attr in fields_ and fields_.index(attr) < len(call.args):
        return call.args[fields_.index(attr)]
    return None


def pass_state_arg(prog, ps, call: ast.Call, ex, path: str):
    """the expression calc hands to the pass for the state named by `path`: a parameter of the pass (`calculated`) or a field of a
    per-call parameter object (`run.scheduled_ids`, the object built in calc by a constructor call); None when not resolvable"""
    params = ps.f.params
    if path in params:
        i = params.index(path) - 1
        return ex.expand(call.args[i]) if len(call.args) > i else None
    if '.' in path:
        base, attr = path.split('.', 1)
        if base in params and '.' not in attr:
            i = params.index(base) - 1
            if len(call.args) > i:
                obj = ex.expand(call.args[i])
                v = ctor_field_value(prog, obj, attr)
                return ex.expand(v) if v is not None and isinstance(v, ast.Name) else v
    return None


def memo_is_local(ctx, o, S):
    """the memo of the recursive pass is a container allocated by calc for this call, handed down as an argument"""
    ps = PassShape(ctx, S)
    calc = ctx.prog.func(S['calc'])
    if getattr(ps, 'memo_on_task', None):
        o.refute(ps.f, ps.f.body[0], f"memo task.{ps.memo_on_task}",
                 f"the pass skips a task when its attribute `{ps.memo_on_task}` is set and sets it after scheduling: the marker lives on the task "
                 f"objects of the result (and is copied by clone()), not in a per-call memo - a later calc() on that WBS or a clone of it skips "
                 f"every marked task: no dates, no roll-ups")
        return
    if ps.memo_on_self:
        o.refute(ps.f, ps.f.body[0], f"memo self.{unmangle(ps.memo_on_self)}",
                 f"the memo of scheduled task ids lives on the scheduler object (self.{unmangle(ps.memo_on_self)}): a second calc() on the same "
                 f"scheduler skips every task id it has seen - those tasks and their summaries get no dates and no roll-ups")
        return
    ex = Expander(ctx.prog, calc, ctx.typer, inline=False)
    calls = [c for c in facts.calls_named(calc, ps.pname)]
    if not calls or all(pass_state_arg(ctx.prog, ps, c, ex, ps.memo) is None for c in calls):
        o.undecided(calc, calc.node, 'memo', "memo argument not found at the call of the pass")
        return
    for c in calls:
        a = pass_state_arg(ctx.prog, ps, c, ex, ps.memo)
        if a is not None and (match("[]", a) or match("list()", a) or match("set()", a)):
            o.site(calc, c, "memo allocated by this calc call")
        elif isinstance(a, (ast.ListComp, ast.SetComp)) or (isinstance(a, (ast.List, ast.Set)) and a.elts):
            o.refute(calc, c, c, f"the memo handed to the pass starts non-empty (`{src(a)[:70]}`): every task whose id equals a pre-marked id "
                                 f"is skipped by the pass - no dates, no roll-up (ids are unique only inside one WBS)")
        else:
            o.refute(calc, c, c, f"the memo handed to the pass is `{src(a) if a is not None else '?'}`, not a container allocated by this call")


def expr_cases(e: ast.AST, depth: int = 0):
    """[(conditions, value)] - a (nested) conditional expression split into its cases"""
    if isinstance(e, ast.IfExp) and depth < 4:
        out = []
        for c, v in expr_cases(e.body, depth + 1):
            out.append(([(e.test, True)] + c, v))
        for c, v in expr_cases(e.orelse, depth + 1):
            out.append(([(e.test, False)] + c, v))
        return out
    return [([], e)]


def strip_seq_copy(e: ast.AST) -> ast.AST:
    """list(x) / tuple(x) -> x (an order preserving copy of a sequence)"""
    while isinstance(e, ast.Call) and isinstance(e.func, ast.Name) and e.func.id in ('list', 'tuple') and len(e.args) == 1 and not e.keywords:
        e = e.args[0]
    return e


def whole_seq(e: ast.AST) -> ast.AST:
    """the sequence all of whose elements e ranges over: list(x), tuple(x), reversed(x), sorted(x[, key]), x[:], x[::-1] -> x"""
    for _ in range(6):
        if isinstance(e, ast.Call) and isinstance(e.func, ast.Name) and e.func.id in ('list', 'tuple', 'reversed', 'sorted', 'iter') and \
                len(e.args) == 1:
            e = e.args[0]
        elif isinstance(e, ast.Subscript) and isinstance(e.slice, ast.Slice) and e.slice.lower is None and e.slice.upper is None:
            e = e.value
        else:
            break
    return e


def is_emptiness(test: ast.AST, pol: bool):
    """(sequence expression, True if the condition says EMPTY) for `len(x) == 0`, `not x`, `x`, `len(x) > 0`, `len(x)` ..."""
    while isinstance(test, ast.UnaryOp) and isinstance(test.op, ast.Not):
        test, pol = test.operand, not pol
    m = match("len($x) == 0", test) or match("0 == len($x)", test) or match("len($x) < 1", test)
    if m:
        return m['x'], pol
    m = match("len($x) > 0", test) or match("len($x) != 0", test) or match("len($x) >= 1", test) or match("len($x)", test) or match("0 < len($x)", test)
    if m:
        return m['x'], not pol
    if isinstance(test, (ast.Name, ast.ListComp, ast.List)):
        return test, not pol
    return None


# --------------------------------------------------------------------------------------------------------------------
def shared_mutable_defaults(ctx, o, funcs, what="state"):
    """a parameter whose DEFAULT is a mutable literal ([], {}, set(), list(), dict()) and which is stored on an object or
    mutated in place: the one default object is shared by every call (bookings / memo entries of an earlier call are seen by
    the next one).  Reading such a default is harmless and not reported."""
    MUT = ('append', 'extend', 'insert', 'add', 'update', 'setdefault', 'pop', 'remove', 'clear', 'sort')
    n = 0
    for f in funcs:
        if isinstance(f.node, ast.Lambda):
            continue
        a = f.node.args
        pos = a.posonlyargs + a.args
        pairs = list(zip([x.arg for x in pos][len(pos) - len(a.defaults):], a.defaults)) + \
            [(k.arg, d) for k, d in zip(a.kwonlyargs, a.kw_defaults) if d is not None]
        for name, d in pairs:
            mutable = isinstance(d, (ast.List, ast.Dict, ast.Set)) or (isinstance(d, ast.Call) and isinstance(d.func, ast.Name) and
                                                                      d.func.id in ('list', 'dict', 'set') and not d.args)
            if not mutable:
                continue
            n += 1
            bad = None
            for x in walk_no_nested(f.node):
                if isinstance(x, (ast.Assign, ast.AnnAssign)) and x.value is not None:
                    tg = x.targets if isinstance(x, ast.Assign) else [x.target]
                    if any(isinstance(t, ast.Attribute) for t in tg) and any(isinstance(v, ast.Name) and v.id == name for v in ast.walk(x.value)) \
                            and not (isinstance(x.value, ast.Call) and isinstance(x.value.func, ast.Name) and x.value.func.id in ('list', 'dict', 'set', 'sorted', 'tuple')):
                        bad = (x, f"stored on `{src(tg[0])}`")
                if isinstance(x, ast.Call) and isinstance(x.func, ast.Attribute) and isinstance(x.func.value, ast.Name) and \
                        x.func.value.id == name and x.func.attr in MUT:
                    bad = (x, f"mutated by `.{x.func.attr}()`")
            if bad:
                o.refute(f, bad[0], f"mutable default of `{name}`", f"parameter `{name}` of {f.qual} defaults to the mutable `{src(d)}` and is {bad[1]}: the default "
                         f"object is shared by all calls, so {what} of an earlier call leaks into the next one")
            else:
                o.site(f, f.node, f"mutable default of `{name}` only read")
    return n


# ---------------------------------------------------------------------------------------------------------------------
# the recursion of a pass must stay inside the WBS being scheduled (F38)
def _same_wbs_guard(test, pol, elem: str, task: str) -> Optional[bool]:
    """does (test, pol) say `<elem>.wbs` is the WBS of the task being scheduled?  True: it does; False: it says the opposite
    (the call runs for outside tasks only); None: not a membership test"""
    t = test
    while isinstance(t, ast.UnaryOp) and isinstance(t.op, ast.Not):
        t, pol = t.operand, not pol
    if not (isinstance(t, ast.Compare) and len(t.ops) == 1):
        return None
    op = t.ops[0]
    if isinstance(op, (ast.Is, ast.Eq)):
        same_ = pol
    elif isinstance(op, (ast.IsNot, ast.NotEq)):
        same_ = not pol
    else:
        return None
    l, r = attr_path(t.left), attr_path(t.comparators[0])
    if l is None or r is None:
        return None
    if {l, r} == {f"{elem}.wbs", f"{task}.wbs"}:
        return same_
    return None


def recursion_stays_in_wbs(ctx, o, S):
    """Each pass keeps its memo of scheduled tasks by task id, and ids are unique only inside one WBS (C05).  clone() keeps links
    to tasks outside the source attached to those same outside tasks (C10), and an outside task still lists the ORIGINAL members
    it is linked with.  A pass that recurses into every linked task therefore walks out of the clone: it schedules (writes) the
    outside task and, through it, tasks of the caller's own WBS, books their work in this schedule's ledger, and records their
    ids in the memo - the clones with the same ids are then skipped, keep estimate / start None, and the roll-up of their summary
    task ends in TypeError.  Required: every recursive call on an element of a dependency-link collection runs only when the
    element reports the WBS of the task being scheduled (the dates of an outside task are input: the pre-flight check demands
    them for predecessors); recursion into children needs no guard (a child reports its parent's WBS: C11)."""
    ps = PassShape(ctx, S)
    f, cfg, task, rel = ps.f, ps.cfg, ps.task, ps.rel
    calls = ps.pass_calls()
    if not calls:
        o.undecided(f, f.node, 'recursion', "no recursive call of the pass found")
        return
    for c in calls:
        it = ps.call_iter(c)
        if it is None or not c.args:
            o.undecided(f, c, 'recursion', f"cannot tell which tasks `{src(c)[:70]}` is called for")
            continue
        fo, coll = it
        cn = cfg.node_containing(c)
        collx = ps.ex.expand(coll, cfg.node_of(fo))
        core = collx
        m = match("reversed($x)", core) or match("list($x)", core) or match("tuple($x)", core)
        while m:
            core = m['x']
            m = match("reversed($x)", core) or match("list($x)", core) or match("tuple($x)", core)
        if match(f"{task}.children", core):
            o.site(f, c, "recursion into the children of the task (same WBS by C11)")
            continue
        cs = ps.collection_sources(coll, cfg.node_of(fo))
        cparts = facts.comp_parts(collx) if isinstance(collx, (ast.ListComp, ast.GeneratorExp)) else None
        if cparts and not (cs['own'] or cs['ancestors']) and isinstance(cparts[2], ast.Name):
            # `own = [d for d in deps if d.wbs is task.wbs]`: what the filtered comprehension ranges over decides whether these are links
            cs2 = ps.collection_sources(cparts[2], cfg.node_of(fo))
            if cs2['own'] or cs2['ancestors']:
                cs = cs2
        linkish = cs['own'] or cs['ancestors'] or any(
            isinstance(n, ast.Attribute) and n.attr in ('predecessors', 'successors', 'all_predecessors', 'all_successors')
            for n in ast.walk(collx))
        if not linkish:
            o.undecided(f, c, 'recursion', f"`{src(c)[:70]}` runs over `{src(coll)[:60]}`: neither the children nor a dependency-link collection")
            continue
        elem = c.args[0].id if isinstance(c.args[0], ast.Name) else None
        verdict = None
        widened = None          # a guard that also lets tasks outside the WBS through: `same or elem.wbs is None`
        mentions = []           # conditions that speak about the element in a form the rule does not interpret
        if elem:
            loop_c = ps.conds(fo)
            for t, pol in ps.conds(c):
                g = _same_wbs_guard(t, pol, elem, task)
                if g is not None:
                    verdict = g
                    break
                if any(same(t, lt) and pol == lp for lt, lp in loop_c):
                    continue
                core, q = t, pol
                while isinstance(core, ast.UnaryOp) and isinstance(core.op, ast.Not):
                    core, q = core.operand, not q
                if isinstance(core, ast.BoolOp) and ((isinstance(core.op, ast.Or) and q) or (isinstance(core.op, ast.And) and not q)):
                    # a disjunction of ways to get through
                    ds = [(v, q) for v in core.values]
                    gs = [_same_wbs_guard(v, p_, elem, task) for v, p_ in ds]
                    outside = [bool(gs[i] is False or facts.cond_is(ds[i][0], ds[i][1], f"{elem}.wbs is None", want=True)) for i in range(len(ds))]
                    if any(g_ is True for g_ in gs) and all(gs[i] is True or outside[i] for i in range(len(ds))) and any(outside):
                        widened = t
                        continue
                if any(isinstance(x, ast.Name) and x.id == elem for x in ast.walk(t)):
                    mentions.append(t)
        if verdict is None:
            # the collection itself may be filtered: [p for p in LINKS if p.wbs is task.wbs]
            parts = facts.comp_parts(collx) if isinstance(collx, (ast.ListComp, ast.GeneratorExp)) else None
            if parts and isinstance(parts[1], ast.Name):
                for cond in parts[3]:
                    for t, pol in facts.split_conj(cond, True):
                        g = _same_wbs_guard(t, pol, parts[1].id, task)
                        if g is not None:
                            verdict = g
                        elif any(isinstance(x, ast.Name) and x.id == parts[1].id for x in ast.walk(t)):
                            mentions.append(t)
        if verdict:
            o.site(f, c, f"recursion over {rel} only for tasks that report the WBS being scheduled")
        elif verdict is False:
            o.refute(f, c, f"recursion over {rel}", f"`{src(c)[:70]}` runs only for linked tasks OUTSIDE the WBS being scheduled")
        elif widened is not None:
            o.refute(f, c, f"recursion over {rel}",
                     f"`{src(c)[:70]}` also runs when `{src(widened)[:70]}` holds for a task that is not in the WBS being scheduled (a task "
                     f"without WBS / of another WBS): the pass schedules (writes) tasks outside the clone")
        elif cs['unknown'] and not (cs['own'] or cs['ancestors']):
            o.undecided(f, c, f"recursion over {rel}", f"the collection `{src(coll)[:60]}` is built in a form that is not followed; no membership guard found")
        elif mentions:
            o.undecided(f, c, f"recursion over {rel}",
                        f"`{src(c)[:60]}` runs under `{src(mentions[0])[:60]}`, a test on the linked task the rule cannot read as `it belongs "
                        f"to the WBS being scheduled`")
        else:
            o.refute(f, c, f"recursion over {rel}",
                     f"`{src(c)[:70]}` runs for every linked task, also for tasks outside the WBS being scheduled: the pass walks out of "
                     f"the clone (through an outside task back to the caller's own tasks), writes them, and its memo keyed by task id then "
                     f"skips the clones with the same ids (summary roll-up meets None: TypeError)")
