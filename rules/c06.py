"""C06 - scheduling is pure and deterministic in WBS, resources, start and clock.   (DESIGN.md section 5, C06)

Decided: purity of calc w.r.t. its input (effect analysis with receiver provenance + the clone provenance rule),
the frame of the scheduler's writes (round 8/9: per-call state re-initialised by calc, fields of the per-call ledger / parameter
object and memo caches filled by getters are not writes in the sense of this property), definite assignment of start/end, freshness of ledger and memo, the enumerated
nondeterminism sources, and for every clock read of the forward scheduler whether it is neutralised by a term bounded
below by the project start.
Round 11: a running maximum (`acc = B; for ..: if E > acc: acc = E`) is bounded below by B; an operand of the guarding max that is a
local with several reaching assignments is judged case by case (cases equal to task.start are the known fixed-start finding); the maps
clone() works with are keyed by the id itself (`str(t.id)` merges 1 and '1'); `_unique_tasks` behind the dependency setters compares
objects, not ids (the links a copy receives); `x.estimate = ..` / `x.spent = ..` on an untyped receiver are data-field writes.
Not decided: statefulness of user supplied IResource.reserve; bitwise float equality.
"""
from __future__ import annotations

import ast

from sa import facts
from sa.cfg import cfg_of
from sa.effects import Effects
from sa.flow import Expander, flow_of
from sa.model import src, walk_no_nested, unmangle
from sa.pat import match, same
from sa.types import base
from . import sched, sched_dep
from .sched import BOTH, FWD, BWD, PassShape
from .c02 import VALIDATORS_FWD
from .c09 import VALIDATORS_BWD
from . import c14

TASK_DATA_FIELDS = {'start', 'end', '_Task__estimate', '_Task__spent'}


def check(ctx):
    prog = ctx.prog
    eff = Effects(prog, ctx.typer, ctx.cg)
    ctx.assume("IResource.reserve() of user supplied resources keeps no state that influences later capacities")
    ctx.assume("effect analysis: attribute calls with an unresolved receiver are over-approximated by every package method of that name")

    o = ctx.ob('input_only_validated_and_cloned', 'R9a',
               "calc uses its WBS argument only as the argument of the validators and as the receiver of clone(); every validator "
               "(transitively) writes nothing reachable from its argument", floor=7)
    ctx.guarded(o, lambda o: input_untouched(ctx, o, eff))

    o = ctx.ob('clone_writes_only_copies', 'R9a',
               "WBS.clone()/__clone/__clone_tasks mutate only freshly cloned tasks (or guarded external tasks) - shared rule with C10")

    def prov(o):
        try:
            from .clone_common import clone_provenance
        except ImportError as e:
            o.fail(f"rules/clone_common.py not available: {e}")
            return
        from .c02 import _Only
        # a derived-view getter that fills its memo cache on a source task changes nothing observable (C06); whether the cache is
        # kept consistent is C10's / C01's matter
        clone_provenance(ctx, _Only(o, drop=("(getter all_children)", "(getter all_parents)")))
    ctx.guarded(o, prov)

    o = ctx.ob('copy_is_faithful', 'R9',
               "Task.clone hands every data field to the copy: constructor arguments for the private fields and an unfiltered loop over "
               "the public instance attributes (same ids, field values and custom attributes in the result) - shared rule with C10")

    def faithful(o):
        from .clone_common import clone_provenance
        from .c02 import _Only
        # estimate / spent are values the scheduler computes itself (they are not among the things C06 promises to carry over:
        # ids, hierarchy, order, links, custom attributes); a copy that loses them is C04's / C10's finding
        clone_provenance(ctx, _Only(o, drop=("__estimate", "__spent")), ('fields',))
        lossy_clone_keys(ctx, o)
        links_deduplicated_by_identity(ctx, o)
    ctx.guarded(o, faithful)

    o = ctx.ob('scheduler_frame', 'R9a',
               "the passes, searches and fill loops write only start/end/estimate/spent of tasks, ledger rows, the memo and the "
               "scheduler's resource table - never ids, relations, owners or custom attributes", floor=8)
    ctx.guarded(o, lambda o: frame(ctx, o, eff))

    o = ctx.ob('passes_write_only_the_copy', 'R9a',
               "the passes recurse over dependency links only into tasks that report the WBS being scheduled (the clone): links to "
               "tasks outside the source stay attached to those same outside tasks, and an outside task lists the caller's ORIGINAL "
               "members - a pass that follows every link schedules (writes) them: the input does not stay as it was "
               "(shared rule with C14.recursion_stays_in_wbs)", floor=4)

    def stays(o):
        from . import sched
        from .sched import BOTH
        for S in BOTH:
            sched.recursion_stays_in_wbs(ctx, o, S)
    ctx.guarded(o, stays)

    o = ctx.ob('every_task_dated', 'R7',
               "every normal exit of either pass leaves start and end assigned; the pass is run for every root and recursively for every child", floor=8)

    def dated(o):
        c14.all_dated(ctx, o)
    ctx.guarded(o, dated)

    o = ctx.ob('fresh_state_per_call', 'R9',
               "ledger and memo are allocated inside calc and never stored on the scheduler; the only scheduler state changed by calc is "
               "the resource table, and only through setdefault", floor=4)
    ctx.guarded(o, lambda o: fresh(ctx, o, eff))

    o = ctx.ob('no_unordered_iteration', 'R9b',
               "no loop or comprehension in the reach of calc iterates over a set (hash order) and no sort key uses id()/hash(); no "
               "random/uuid/environment reads", floor=10)
    ctx.guarded(o, lambda o: sources(ctx, o, eff))

    o = ctx.ob('clock_reads_enumerated', 'R9b',
               "clock reads in the reach of calc: forward pass, the future-end validator and the two constructor defaults only; "
               "none in the backward pass, searches, fill loops, ledger or clone", floor=4)
    ctx.guarded(o, lambda o: clock_sites(ctx, o, eff))

    o = ctx.ob('clock_neutral_before_project_start', 'R8',
               "every clock read of the forward scheduler is an operand of a max() that has another operand bounded below by the "
               "project start, so that for clock <= project start the max ignores the clock", floor=1)
    ctx.guarded(o, lambda o: clock_guard(ctx, o))


# ======================================================================================================================
_LOSSY_CONV = ('str', 'repr', 'int', 'float', 'bool', 'hash', 'format', 'round', 'abs')
_LOSSY_METH = ('lower', 'upper', 'casefold', 'strip', 'lstrip', 'rstrip', 'title', 'format', '__str__', '__repr__', '__hash__')


def _lossy_id_key(k):
    """the conversion when a dict key / subscript is a type- or case-folding conversion of some `<x>.id` (`str(t.id)`, `f"{t.id}"`,
    `t.id.lower()`): ids that differ only in type or case are different ids of one WBS, but share one entry then"""
    def has_id(e):
        return any(isinstance(x, ast.Attribute) and x.attr == 'id' for x in ast.walk(e))
    if isinstance(k, ast.Call) and isinstance(k.func, ast.Name) and k.func.id in _LOSSY_CONV and k.args and has_id(k.args[0]):
        return k.func.id + '()'
    if isinstance(k, ast.Call) and isinstance(k.func, ast.Attribute) and k.func.attr in _LOSSY_METH and has_id(k.func.value):
        return '.' + k.func.attr + '()'
    if isinstance(k, ast.JoinedStr) and has_id(k):
        return 'an f-string'
    if isinstance(k, ast.BinOp) and isinstance(k.op, ast.Mod) and isinstance(k.left, ast.Constant) and isinstance(k.left.value, str) and has_id(k.right):
        return '%-formatting'
    return None


def lossy_clone_keys(ctx, o):
    """the maps clone() works with (id -> source task, id -> copy) and the root lookup are keyed by the id itself"""
    prog = ctx.prog
    for q in ('wbs.WBS.__clone_tasks', 'wbs.WBS.__clone', 'wbs.WBS.clone'):
        f = prog.funcs.get(q)
        if f is None:
            continue
        seen = set()
        for n in walk_no_nested(f.node):
            keys = []
            if isinstance(n, ast.DictComp):
                keys.append((n.key, n))
            elif isinstance(n, ast.Assign):
                keys += [(t.slice, n) for t in n.targets if isinstance(t, ast.Subscript)]
            for k, holder in keys:
                conv = _lossy_id_key(k)
                if conv and src(k) not in seen:
                    seen.add(src(k))
                    o.refute(f, holder, k, f"the clone works with a map keyed by `{src(k)}` ({conv} of the id), not by the id itself: tasks of one WBS "
                                           f"whose ids differ only in type or spelling (1 and '1') share one entry - the result loses a task and "
                                           f"hangs its children and links on the other one (ids / hierarchy of the result differ from the input)")


def links_deduplicated_by_identity(ctx, o):
    """clone() hands each copy its links through the dependency setters; when those pass the given tasks through `_unique_tasks`,
    that helper has to compare objects: a link list may hold a member and an outside task with the same id (ids are unique inside
    one WBS only), and de-duplicating by id drops one of the two links from the result (same test as C01.closure)"""
    prog = ctx.prog
    u = prog.funcs.get('task._unique_tasks')
    if u is None:
        return
    users = [q for q in ('task.Task.predecessors.setter', 'task.Task.successors.setter')
             if prog.funcs.get(q) is not None and facts.calls_named(prog.funcs[q], '_unique_tasks')]
    if not users:
        return
    ux = Expander(prog, u, ctx.typer, inline=False)

    def keyed(pred0):
        def pred(e):
            if pred0(e):
                return True
            try:
                return isinstance(e, ast.Name) and cfg_of(u).node_containing(e) is not None and pred0(ux.expand(e))
            except Exception:
                return False
        for n in ast.walk(u.node):
            if isinstance(n, ast.Compare) and len(n.ops) == 1 and isinstance(n.ops[0], (ast.In, ast.NotIn)) and pred(n.left):
                return n
            if isinstance(n, ast.Call) and isinstance(n.func, ast.Attribute) and n.func.attr in ('add', 'setdefault') and n.args and pred(n.args[0]):
                return n
            if isinstance(n, ast.Subscript) and isinstance(n.ctx, ast.Store) and pred(n.slice):
                return n
            if isinstance(n, ast.DictComp) and pred(n.key):
                return n
            if isinstance(n, ast.SetComp) and pred(n.elt):
                return n
        return None
    by_id = keyed(lambda e: isinstance(e, ast.Attribute) and e.attr == 'id' and isinstance(e.value, ast.Name))
    if by_id is not None:
        o.refute(u, by_id, '_unique_tasks by id', f"`{src(by_id)[:60]}`: the links a copy receives (WBS.__clone_tasks -> {', '.join(unmangle(q.split('.')[-2]) for q in users)} "
                                                 f"setter -> _unique_tasks) are de-duplicated by task id, not by object: a member and an outside task "
                                                 f"with the same id in one link list collapse into one, the result loses a dependency link of the input")


def input_untouched(ctx, o, eff: Effects):
    prog = ctx.prog
    for S, vs in ((FWD, VALIDATORS_FWD), (BWD, VALIDATORS_BWD)):
        calc = prog.func(S['calc'])
        inp = calc.params[1]
        vres = [sched_dep.resolve_validator(ctx, S, v) for v in vs]
        vnames = {vf.name: vf for vf in vres if not isinstance(vf, sched_dep.AsValidator)}
        inl = [vf for vf in vres if isinstance(vf, sched_dep.AsValidator)]
        for n in walk_no_nested(calc.node):
            if isinstance(n, ast.Name) and n.id == inp and isinstance(n.ctx, ast.Load):
                par = _parent_of(calc.node, n)
                if isinstance(par, ast.Call) and n in par.args:
                    fn = par.func
                    nm = unmangle(fn.attr) if isinstance(fn, ast.Attribute) else getattr(fn, 'id', None)
                    if nm in vnames:
                        o.site(calc, par, f"{nm}({inp})")
                        continue
                    if _harmless_consumer(par):
                        o.site(calc, par, f"{src(par.func)}(.. {inp} ..): reads only")
                        continue
                    o.refute(calc, par, par, f"the input WBS is handed to `{src(par.func)}`, which is not one of the pure validators: "
                                             f"the scheduler must only work on the clone")
                    continue
                if isinstance(par, ast.Attribute) and par.attr == 'clone':
                    o.site(calc, par, f"{inp}.clone()")
                    continue
                if isinstance(par, ast.Attribute) and par.attr == 'tasks' and any(any(x is par for x in ast.walk(v_.loop.iter)) for v_ in inl):
                    o.site(calc, par, f"{inp}.tasks scanned read-only by the future-end check written in calc")
                    continue
                if isinstance(par, ast.FormattedValue) or (isinstance(par, ast.Compare) and all(isinstance(op, (ast.Is, ast.IsNot)) for op in par.ops)):
                    o.site(calc, par, f"{inp} formatted / compared by identity: reads only")
                    continue
                o.refute(calc, n, par if par is not None else n, f"the input WBS is used as `{src(par) if par is not None else inp}`: only validation and clone() are allowed")
        if isinstance(n, ast.Name):
            pass
        for vf in vres:
            if isinstance(vf, sched_dep.AsValidator):
                continue        # its loop body was checked to contain tests and raises only
            p0 = vf.params[-1] if vf.kind != 'method' else vf.params[1]
            bad = [k for k in eff.writes_star(vf) if k[1] != 'fresh' and ('param:' + p0 in k[1] or k[1].startswith('mixed') or k[1] == 'unknown')]
            bad = [k for k in bad if not _bookkeeping_container(prog, eff, vf, k) and k[0] not in _memo_cache_fields(prog)]
            real = [k for k in bad if 'param:' + p0 in k[1]]
            if real:
                for k in real:
                    chain = ' -> '.join(eff.explain(vf, k)[-2:])
                    o.refute(vf, vf.node, f"{unmangle(k[0])}", f"validator writes {unmangle(k[0])} of objects reachable from its argument ({chain})")
            elif bad:
                for k in bad:
                    o.undecided(vf, vf.node, f"{unmangle(k[0])}@{k[1]}", "validator write with undetermined receiver: " + ' -> '.join(eff.explain(vf, k)[-2:]))
            else:
                o.site(vf, vf.node, "writes*(validator) has nothing reachable from its argument")


def _bookkeeping_container(prog, eff, vf, key):
    """an `unknown`-rooted container mutation that comes from a NESTED function mutating a container of its enclosing function
    (closure variable): harmless when that variable is a container allocated in the enclosing function, or a parameter of the
    enclosing function that every caller in the package fills with a container it allocated itself (the loop check's
    visited / validated sets)"""
    if key[0] != '<container>' or key[1] != 'unknown':
        return False
    org = eff.write_origin(vf, key)
    f_cur = vf
    for _ in range(8):
        if isinstance(org, tuple) and len(org) == 3:
            callee = prog.funcs.get(org[1])
            if callee is None:
                return False
            f_cur, org = callee, eff.write_origin(callee, org[2])
        else:
            break
    w = org
    if w is None or isinstance(w, tuple) or not isinstance(getattr(w, 'node', None), ast.Call):
        return False
    fn = w.node.func
    if not (isinstance(fn, ast.Attribute) and isinstance(fn.value, ast.Name)):
        return False
    name = fn.value.id
    inner = w.func
    if name in inner.params or '.' not in inner.qual:
        return False
    outer = prog.funcs.get(inner.qual.rsplit('.', 1)[0])
    if outer is None or any(d.kind != 'param' for d in flow_of(inner).defs_of(name)):
        return False

    def fresh_alloc(e):
        return bool(match("set()", e) or match("[]", e) or match("{}", e) or match("dict()", e) or match("list()", e) or
                    isinstance(e, (ast.Set, ast.List, ast.Dict, ast.ListComp, ast.SetComp, ast.DictComp)))
    ds = flow_of(outer).defs_of(name)
    if ds and all(d.kind == 'assign' and d.value is not None and fresh_alloc(d.value) for d in ds):
        return True
    if name in outer.params and all(d.kind == 'param' for d in ds):
        idx = outer.params.index(name)
        calls = []
        for g in prog.all_funcs():
            if isinstance(g.node, ast.Lambda):
                continue
            for c in facts.calls_named(g, outer.name):
                calls.append((g, c))
        if not calls:
            return False
        for g, c in calls:
            if g is outer or g.qual.startswith(outer.qual + '.'):
                continue        # recursive call handing its own parameter on
            a = c.args[idx] if len(c.args) > idx else None
            if not isinstance(a, ast.Name):
                return False
            gd = flow_of(g).defs_of(a.id)
            if not (gd and all(d.kind == 'assign' and d.value is not None and fresh_alloc(d.value) for d in gd)):
                return False
        return True
    return False


def _harmless_consumer(call):
    """print(..) / len(..) / str(..) / logging calls: functions outside the package that only read their arguments"""
    fn = call.func
    if isinstance(fn, ast.Name) and fn.id in ('print', 'len', 'str', 'repr', 'id', 'isinstance', 'type', 'bool'):
        return True
    if isinstance(fn, ast.Attribute) and fn.attr in ('debug', 'info', 'warning', 'error', 'log', 'exception', 'critical'):
        v = fn.value
        if isinstance(v, ast.Name) and v.id.lower().strip('_') in ('logging', 'logger', 'log'):
            return True
        if isinstance(v, ast.Call) and isinstance(v.func, ast.Attribute) and v.func.attr == 'getLogger':
            return True
    return False


def _parent_of(root, node):
    for n in ast.walk(root):
        for ch in ast.iter_child_nodes(n):
            if ch is node:
                return n
    return None


def frame(ctx, o, eff: Effects):
    prog = ctx.prog
    for S in BOTH:
        for key in ('pass_', 'search', 'fill', 'prepare'):
            f = prog.funcs.get(S[key]) if key == 'prepare' else prog.func(S[key])
            if f is None:
                continue        # the clearing loop was folded into calc (analysed there by C07)
            for (fld, root) in sorted(eff.writes_star(f)):
                via = eff.write_origin(f, (fld, root))
                if fld in TASK_DATA_FIELDS or fld in ('estimate', 'spent'):
                    # `x.estimate = v` on a receiver the typer could not follow (an element popped from a work list): on a task this is
                    # the estimate / spent setter - the data field - and no other class of the package has an attribute of that name
                    o.site(f, f.node, f"writes {unmangle(fld)} ({root})")
                    continue
                if fld in _memo_cache_fields(prog):
                    o.site(f, f.node, f"{unmangle(fld)}: a cache filled by a getter (not observable state)")
                    continue
                if fld == 'rows' and 'resource_usage' in root or fld == 'rows':
                    o.site(f, f.node, "ledger rows")
                    continue
                if fld == S['resources'] and root == 'self':
                    o.site(f, f.node, "resource table")
                    continue
                if root == 'self' and fld in _per_call_state(ctx, S):
                    o.site(f, f.node, f"self.{unmangle(fld)}: re-initialised by every calc before the pass runs (per-call state)")
                    continue
                if root.startswith('param:') and root[6:] in f.params and \
                        base(ctx.typer.expr_type(ast.Name(id=root[6:], ctx=ast.Load()), f)) == '_ResourceUsage':
                    if fld in _ledger_instance_fields(prog):
                        o.site(f, f.node, f"ledger state {unmangle(fld)} (allocated by _ResourceUsage.__init__ for the ledger of this calc)")
                        continue
                    chain = ' -> '.join(eff.explain(f, (fld, root))[-2:])
                    o.refute(f, f.node, f"{unmangle(fld)}@{root}", f"the scheduler writes ledger state `{unmangle(fld)}` that _ResourceUsage.__init__ does not "
                                                                   f"allocate per ledger (a class attribute is shared by every ledger of the process: bookings "
                                                                   f"of an earlier calc are still counted): {chain}")
                    continue
                if fld == '<container>' and root.startswith('param:') and root[6:] in f.params[4:5] + [f.params[-1]]:
                    o.site(f, f.node, "memo list")
                    continue
                if fld == '<container>' and root.startswith('param:calculated'):
                    o.site(f, f.node, "memo list")
                    continue
                if key == 'pass_' and _memo_field_of(ctx, S) == (fld, root):
                    o.site(f, f.node, "memo list (field of the per-call parameter object)")
                    continue
                chain = ' -> '.join(eff.explain(f, (fld, root))[-2:])
                if isinstance(via, tuple) and via and not getattr(via[0], 'resolved', True):
                    # the effect analysis could not type the receiver of `<x>.append(..)` / `.add(..)` and assumed every package method
                    # of that name: a guess, not a located write
                    rcv = via[0].node.func.value if isinstance(via[0].node, ast.Call) and isinstance(via[0].node.func, ast.Attribute) else None
                    if isinstance(rcv, ast.Attribute) and isinstance(rcv.value, ast.Name) and rcv.value.id == f.params[0] and \
                            rcv.attr in _per_call_state(ctx, S):
                        o.site(f, f.node, f"method of the per-call container self.{unmangle(rcv.attr)}")
                    else:
                        o.undecided(f, f.node, f"{unmangle(fld)}@{root}", f"possible write through a call whose receiver could not be typed: {chain}")
                    continue
                if fld == '<dynamic>':
                    # setattr(obj, name, value): decided when every setattr of this function names one of the four data fields
                    from .c07 import _stores_elementwise
                    dyn = [n for n in walk_no_nested(f.node) if isinstance(n, ast.Call) and isinstance(n.func, ast.Name) and n.func.id == 'setattr']
                    named = {id(st.value) for st, tgt, val in _stores_elementwise(f) if isinstance(st, ast.Expr) and tgt.attr in ('start', 'end', 'estimate', 'spent')}
                    wrong = [tgt.attr for st, tgt, val in _stores_elementwise(f) if isinstance(st, ast.Expr) and tgt.attr not in ('start', 'end', 'estimate', 'spent')]
                    if dyn and not wrong and all(id(n) in named for n in dyn):
                        o.site(f, f.node, "setattr over the data fields start/end/estimate/spent")
                    elif wrong:
                        o.refute(f, f.node, f"setattr {wrong[0]}@{root}", f"the scheduler sets `{wrong[0]}` through setattr ({root}): only start/end/"
                                                                         f"estimate/spent of the clone's tasks may change")
                    else:
                        o.undecided(f, f.node, f"<dynamic>@{root}", f"setattr with a name the rule cannot resolve: {chain}")
                    continue
                if fld.startswith('_Task__') or fld in ('_list', '<dynamic>') or 'param:' in root or root == 'self':
                    o.refute(f, f.node, f"{unmangle(fld)}@{root}", f"the scheduler writes `{unmangle(fld)}` ({root}): {chain}; only start/end/estimate/"
                                                                   f"spent of the clone's tasks may change")
                else:
                    o.undecided(f, f.node, f"{unmangle(fld)}@{root}", f"write with undetermined receiver: {chain}")
    # direct calls of relation setters / facade mutators / setattr on tasks (calc included: what it does to the clone before / after the
    # pass shows in the result)
    for S in BOTH:
        for key in ('pass_', 'search', 'fill', 'prepare', 'calc'):
            f = prog.funcs.get(S[key]) if key == 'prepare' else prog.func(S[key])
            if f is None:
                continue
            for ci in ctx.cg.calls_in(f):
                for t in ci.targets:
                    if t is not None and t.cls in ('Task', '_ChildrenList', '_TaskList', '_PredecessorsList', '_SuccessorsList', 'WBS') and \
                            (t.kind == 'setter' and t.prop in ('parent', 'children', 'predecessors', 'successors', 'roots')
                             or t.name in ('append', 'remove', 'insert', 'move', 'sort', 'reorder', 'remove_all', '__setattr__')) and ci.resolved:
                        o.refute(f, ci.node, ci.node, f"the scheduler calls {t.qual}: the structure of the result must be that of the clone")


_CACHE_FIELDS = {}


def _memo_cache_fields(prog):
    """private fields of Task that only ever receive None / an empty value, or a value computed inside a property getter (or a
    `__get_*` helper of one) - memo caches of derived views (`all_parents`, `all_children`).  Filling such a cache changes nothing
    an observer can see, so it is not a write in the sense of C06 (whether the cache is invalidated correctly is C01's / C10's
    question).  Relation, owner and data fields are never caches."""
    key = id(prog)
    if key in _CACHE_FIELDS:
        return _CACHE_FIELDS[key]
    STATE = {'_Task__parent', '_Task__children', '_Task__predecessors', '_Task__successors', '_Task__wbs', '_Task__id',
             '_Task__estimate', '_Task__spent', '_Task__min_start', '_Task__milestone'}
    stores = {}
    for g in prog.all_funcs():
        if g.module.name != 'task' or isinstance(g.node, ast.Lambda):
            continue
        for st, tgt, val in facts.attr_stores(g):
            if tgt.attr.startswith('_Task__') and isinstance(tgt.value, ast.Name):
                stores.setdefault(tgt.attr, []).append((g, val))
    out = set()
    for fld, sts in stores.items():
        if fld in STATE:
            continue
        filled = [(g, v) for g, v in sts if not (isinstance(v, ast.Constant) and v.value is None) and not (isinstance(v, (ast.List, ast.Dict, ast.Tuple)) and not getattr(v, 'elts', getattr(v, 'keys', None)))]
        if filled and all(g.kind == 'getter' or g.name.startswith('__get_') for g, v in filled):
            out.add(fld)
    _CACHE_FIELDS[key] = out
    return out


def _ledger_instance_fields(prog):
    """fields that _ResourceUsage.__init__ sets to a fresh container / constant on the new ledger object"""
    init = prog.funcs.get('schedule._ResourceUsage.__init__')
    out = set()
    if init is None:
        return out
    for st, tgt, val in facts.attr_stores(init):
        if isinstance(tgt.value, ast.Name) and tgt.value.id == init.params[0] and (
                isinstance(val, (ast.Constant, ast.List, ast.Dict, ast.Set)) or match("set()", val) or match("dict()", val) or match("list()", val)
                or (isinstance(val, ast.Call) and isinstance(val.func, ast.Name) and val.func.id in ('defaultdict', 'OrderedDict', 'Counter'))):
            out.add(tgt.attr)
    return out


def _stores_default_resource(prog, ctx, f, node):
    """node belongs to `self.<table>[k] = v` with v (expanded) a `Resource(..)` constructor call"""
    for st in walk_no_nested(f.node):
        if isinstance(st, ast.Assign) and any(x is node for x in ast.walk(st)):
            cn = cfg_of(f).node_of(st)
            v = Expander(prog, f, ctx.typer, inline=False).expand(st.value, cn) if cn is not None else st.value
            return any(isinstance(c_, ast.Call) and isinstance(c_.func, ast.Name) and c_.func.id == 'Resource' for _, c_ in sched.expr_cases(v)) and \
                all((isinstance(c_, ast.Call) and isinstance(c_.func, ast.Name) and c_.func.id == 'Resource') or isinstance(c_, (ast.Call, ast.Name, ast.Attribute, ast.Subscript))
                    for _, c_ in sched.expr_cases(v))
    return False


def _per_call_state(ctx, S):
    """attributes of the scheduler that every calc re-initialises (fresh container / constant) on every path before it runs the
    pass: state kept on the object only for the duration of one call - later calls do not see what an earlier one left"""
    prog = ctx.prog
    calc = prog.func(S['calc'])
    cfg = cfg_of(calc)
    pcalls = [cfg.node_containing(c) for c in facts.calls_named(calc, prog.func(S['pass_']).name)]
    out = set()
    for st, tgt, val in facts.attr_stores(calc):
        if isinstance(tgt.value, ast.Name) and tgt.value.id == calc.params[0] and tgt.attr != S['resources'] and not isinstance(st, ast.AugAssign):
            fresh_v = isinstance(val, ast.Constant) or match("set()", val) or match("[]", val) or match("{}", val) or match("dict()", val) or \
                match("list()", val) or match("_ResourceUsage()", val)
            sn = cfg.node_of(st)
            if fresh_v and sn is not None and pcalls and all(p_ is not None and cfg.dominates(sn, p_) for p_ in pcalls):
                out.add(tgt.attr)
    return out


def _memo_field_of(ctx, S):
    """(field, root) of the memo when it is a field of a parameter object of the pass (`run.scheduled_ids`)"""
    try:
        ps = PassShape(ctx, S)
    except Exception:
        return None
    if '.' in ps.memo and not ps.memo_on_self and not getattr(ps, 'memo_on_task', None):
        base_, attr = ps.memo.split('.', 1)
        if base_ in ps.f.params and base_ != ps.f.params[0] and base_ != ps.task and '.' not in attr:
            return (attr, 'param:' + base_)
    return None


def fresh(ctx, o, eff: Effects):
    prog = ctx.prog
    for S in BOTH:
        calc = prog.func(S['calc'])
        ex = Expander(prog, calc, ctx.typer, inline=False)
        pname = prog.func(S['pass_']).name
        for c in facts.calls_named(calc, pname):
            if len(c.args) < 4:
                # ledger and memo travelling in one per-call parameter object built by calc: `run = _Run(usage=_ResourceUsage(), ids=[])`
                ps_ = PassShape(ctx, S)
                obj = ex.expand(c.args[2]) if len(c.args) == 3 else None
                memo = sched.pass_state_arg(prog, ps_, c, ex, ps_.memo) if obj is not None else None
                if isinstance(obj, ast.Call) and isinstance(obj.func, ast.Name) and obj.func.id in prog.classes and memo is not None:
                    vals = [ex.expand(v) if isinstance(v, ast.Name) else v for v in list(obj.args) + [k.value for k in obj.keywords]]
                    leds = [v for v in vals if match("_ResourceUsage()", v)]
                    if len(leds) == 1:
                        o.site(calc, c, f"ledger = _ResourceUsage() inside the per-call object {obj.func.id}(..)")
                    else:
                        o.undecided(calc, c, c.args[2], f"no single `_ResourceUsage()` among the fields of the per-call object `{src(obj)[:60]}`")
                    if match("[]", memo) or match("list()", memo) or match("set()", memo):
                        o.site(calc, c, "memo local to calc (field of the per-call object)")
                    else:
                        o.refute(calc, c, c.args[2], f"the memo handed to the pass is `{src(memo)}`, not a list allocated by this call: tasks "
                                                     f"scheduled by an earlier calc are skipped")
                    continue
                o.undecided(calc, c, c, "unexpected pass call")
                continue
            led, memo = ex.expand(c.args[2]), ex.expand(c.args[3])
            if match("_ResourceUsage()", led):
                o.site(calc, c, "ledger = _ResourceUsage() local to calc")
            elif isinstance(led, ast.Name) and led.id not in calc.params and flow_of(calc).defs_of(led.id):
                o.undecided(calc, c, c.args[2], f"the ledger handed to the pass is the local `{led.id}`, which could not be resolved to one allocation")
            else:
                o.refute(calc, c, c.args[2], f"the ledger handed to the pass is `{src(led)}`, not a ledger allocated by this call: bookings of "
                                             f"an earlier calc leak into this one")
            if match("[]", memo) or match("list()", memo) or match("set()", memo):
                o.site(calc, c, "memo local to calc")
            elif isinstance(memo, (ast.ListComp, ast.SetComp)) or (isinstance(memo, (ast.List, ast.Set)) and memo.elts):
                o.refute(calc, c, c.args[3], f"the memo handed to the pass starts non-empty (`{src(memo)[:70]}`): every task whose id equals a "
                                             f"pre-marked id is skipped and gets no dates (ids are unique only inside one WBS)")
            elif isinstance(memo, ast.Name) and memo.id not in calc.params and flow_of(calc).defs_of(memo.id):
                o.undecided(calc, c, c.args[3], f"the memo handed to the pass is the local `{memo.id}`, which could not be resolved to one allocation")
            else:
                o.refute(calc, c, c.args[3], f"the memo handed to the pass is `{src(memo)}`, not a list allocated by this call: tasks scheduled "
                                             f"by an earlier calc are skipped")
        # stores on self outside __init__
        if S is BOTH[0]:
            sched.shared_mutable_defaults(ctx, o, _reach_core(ctx, eff), "ledger / memo state")
        for key in ('calc', 'pass_', 'search', 'fill', 'prepare'):
            f = prog.funcs.get(S[key]) if key == 'prepare' else prog.func(S[key])
            if f is None:
                continue
            for w in eff.direct_writes(f):
                if w.root == 'self':
                    if w.field == S['resources'] and w.kind == 'mutate:setdefault':
                        continue
                    if w.field == S['resources'] and w.kind == 'subscript-store' and _stores_default_resource(prog, ctx, f, w.node):
                        continue        # `table[name] = Resource(name)` spelled without setdefault: the same deterministic default
                    if w.field in _per_call_state(ctx, S):
                        o.site(f, w.node, f"self.{unmangle(w.field)}: per-call state, re-initialised by calc before the pass runs")
                        continue
                    o.refute(f, w.node, w.node, f"scheduler state `{unmangle(w.field)}` is changed during calc ({w.kind}): repeated calls are not independent")


def _reach_core(ctx, eff):
    prog = ctx.prog
    roots = [prog.func(S['calc']) for S in BOTH]
    reach = eff.reach(roots, resolved_only=False)
    return [f for f in reach if f.module.name in ('schedule', 'resource', 'wbs', 'task', 'calendar')]


def sources(ctx, o, eff: Effects):
    prog = ctx.prog
    for f in _reach_core(ctx, eff):
        if isinstance(f.node, ast.Lambda) or f.name in ('__repr__', '__str__', 'print', 'repr'):
            continue
        raise_nodes = set()
        for r in [n for n in walk_no_nested(f.node) if isinstance(n, ast.Raise)]:
            for x in ast.walk(r):
                raise_nodes.add(id(x))
        n_loops = 0
        for n in walk_no_nested(f.node):
            its = []
            if isinstance(n, ast.For):
                its = [n.iter]
            elif isinstance(n, (ast.ListComp, ast.GeneratorExp, ast.DictComp, ast.SetComp)):
                its = [g.iter for g in n.generators]
            for it in its:
                if id(it) in raise_nodes:
                    continue
                n_loops += 1
                t = base(ctx.typer.expr_type(it, f))
                ex = Expander(prog, f, ctx.typer, inline=False)
                itx = ex.expand(it) if flow_of(f).node_of_expr(it) is not None else it
                setlike = t in ('set', 'frozenset') or isinstance(itx, (ast.Set, ast.SetComp)) or \
                    (isinstance(itx, ast.Call) and isinstance(itx.func, ast.Name) and itx.func.id in ('set', 'frozenset'))
                # consumer that is order independent: the result only feeds set()/membership/len/sum/min/max/any/all
                if setlike and not _order_free_consumer(f, n):
                    o.refute(f, n, it, f"iteration over the set `{src(it)[:50]}`: the order (and with it dates and usage rows) depends on object hashes")
            if isinstance(n, ast.Call):
                fn = n.func
                nm = fn.attr if isinstance(fn, ast.Attribute) else getattr(fn, 'id', '')
                mod = fn.value.id if isinstance(fn, ast.Attribute) and isinstance(fn.value, ast.Name) else ''
                if mod in ('random', 'uuid', 'secrets') or nm in ('urandom', 'getenv') or (mod == 'os' and nm == 'environ'):
                    o.refute(f, n, n, f"nondeterministic source `{src(n)[:40]}` in the reach of calc")
                if nm in ('sorted', 'sort') and any(k.arg == 'key' and any(isinstance(x, ast.Name) and x.id in ('id', 'hash')
                                                                           for x in ast.walk(k.value)) for k in n.keywords):
                    o.refute(f, n, n, "sort key uses id()/hash()")
        if n_loops:
            o.site(f, f.node, f"{n_loops} loops/comprehensions over ordered collections")


def _order_free_consumer(f, node):
    par = _parent_of(f.node, node)
    if isinstance(par, ast.Call) and isinstance(par.func, ast.Name) and par.func.id in ('set', 'frozenset', 'len', 'sum', 'min', 'max', 'any', 'all'):
        return True
    return False


def _is_clock(n):
    return bool(match("datetime.now()", n) or match("datetime.today()", n) or match("datetime.utcnow()", n) or
                match("time.time()", n) or match("date.today()", n) or match("datetime.now($tz)", n))


def clock_sites(ctx, o, eff: Effects):
    prog = ctx.prog
    allowed = {FWD['pass_'], 'schedule.ForwardScheduler.__check_no_end_dates_in_future', FWD['init'], BWD['init']}
    found = {}
    for f in _reach_core(ctx, eff) + [prog.func(FWD['init']), prog.func(BWD['init'])]:
        if isinstance(f.node, ast.Lambda):
            continue
        for n in walk_no_nested(f.node):
            if _is_clock(n):
                found.setdefault(f.qual, []).append(n)
    av = sched_dep.resolve_validator(ctx, FWD, sched_dep.FUTURE_END) if sched_dep.FUTURE_END not in prog.funcs else None
    av_clocks = [id(x) for x in av.clocks] if isinstance(av, sched_dep.AsValidator) else []
    for q, ns in found.items():
        f = prog.funcs[q]
        for n in ns:
            if q in allowed or id(n) in av_clocks:
                o.site(f, n, "clock read (enumerated)")
            else:
                o.refute(f, n, n, f"clock read in {q}: the {'backward ' if 'Backward' in q else ''}result becomes clock dependent")
    for init_q, arg in ((FWD['init'], 'start'), (BWD['init'], 'end')):
        f = prog.func(init_q)
        for n in found.get(init_q, []):
            par = _parent_of(f.node, n)
            fcfg = cfg_of(f)
            cn = fcfg.node_containing(n)
            conds = list(facts.node_conditions(prog, f, n, ctx.typer, expand=True)) if cn is not None else []
            if cn is not None and cn.ast is not None:
                from sa.flow import eval_conditions
                root = cn.ast.test if isinstance(cn.ast, (ast.If, ast.While)) else cn.ast
                conds += eval_conditions(root, n) or []
            flat = [x for t, p in conds for x in facts.split_conj(t, p)]
            arg_none = any(facts.cond_is(t, p, f"{arg} is None", want=True) or facts.cond_is(t, p, arg, want=False) for t, p in flat)
            # the argument itself must still be the caller's value where it is tested (no rebinding before the test)
            if arg_none and len([d for d in flow_of(f).defs_of(arg) if d.kind != 'param' and d.node is not None and cn is not None
                                 and fcfg.can_reach(d.node, cn) and d.node is not cn]) == 0:
                continue
            if not (isinstance(par, ast.IfExp) and (match(f"{arg} is not None", par.test) and par.orelse is n or
                                                    match(f"{arg} is None", par.test) and par.body is n)) and \
                    not (isinstance(par, ast.BoolOp) and isinstance(par.op, ast.Or) and par.values[-1] is n):
                o.refute(f, n, par if par is not None else n, f"the constructor reads the clock even when `{arg}` is given")


def _running_max_floor(ps, name, at):
    """the initialising definition of a local that is a running maximum: exactly one definition `acc = B` that dominates all the
    others and the read at `at`, and every other definition only raises it - `acc = max(acc, ..)` or `acc = E` under the test
    `E > acc` (any spelling / polarity, `continue` guards included).  Then acc >= B where it is read.  None when not that shape."""
    ds = ps.fl.defs_of(name)
    if len(ds) < 2 or name in ps.f.params:
        return None
    inits, raising = [], []
    for d in ds:
        if d.kind != 'assign' or d.value is None or d.node is None:
            return None
        v = d.value
        largs = facts.flatten_lattice(v, 'max')
        if largs and any(isinstance(a, ast.Name) and a.id == name for a in largs):
            raising.append(d)
            continue
        up = False
        for t, pol in ps.cfg.conditions(d.node):
            for t1, p1 in facts.split_conj(t, pol):
                if not (isinstance(t1, ast.Compare) and len(t1.ops) == 1):
                    continue
                l, op, r = t1.left, t1.ops[0], t1.comparators[0]
                is_acc = lambda e: isinstance(e, ast.Name) and e.id == name
                # new > acc  (True)   /  not (new <= acc)
                if p1 and (isinstance(op, (ast.Gt, ast.GtE)) and same(l, v) and is_acc(r) or isinstance(op, (ast.Lt, ast.LtE)) and is_acc(l) and same(r, v)):
                    up = True
                if not p1 and (isinstance(op, (ast.Lt, ast.LtE)) and same(l, v) and is_acc(r) or isinstance(op, (ast.Gt, ast.GtE)) and is_acc(l) and same(r, v)):
                    up = True
        if up:
            raising.append(d)
        else:
            inits.append(d)
    if len(inits) != 1 or not raising:
        return None
    i0 = inits[0]
    if not all(ps.cfg.dominates(i0.node, r.node) for r in raising) or at is None or not ps.cfg.dominates(i0.node, at):
        return None
    if any(ps.cfg.can_reach(r.node, i0.node) for r in raising):
        return None     # the initialisation sits inside the loop: re-executed, still a floor, but keep to the plain shape
    return i0


def clock_guard(ctx, o):
    prog = ctx.prog
    ps = PassShape(ctx, FWD)
    f = ps.f
    pt = ps.prereq_term()
    # clock reads: datetime.now() calls, and loads of a local whose only definition is such a call (`now = datetime.now()`)
    occurrences = []
    clock_locals = {}
    for n in walk_no_nested(f.node):
        if _is_clock(n):
            par0 = _parent_of(f.node, n)
            if isinstance(par0, ast.Assign) and len(par0.targets) == 1 and isinstance(par0.targets[0], ast.Name) and par0.value is n \
                    and len(ps.fl.defs_of(par0.targets[0].id)) == 1:
                clock_locals[par0.targets[0].id] = par0
            else:
                occurrences.append(n)
    for n in walk_no_nested(f.node):
        if isinstance(n, ast.Name) and isinstance(n.ctx, ast.Load) and n.id in clock_locals:
            occurrences.append(n)
    for n in occurrences:
        par = _parent_of(f.node, n)
        others = None
        if isinstance(par, ast.Call) and isinstance(par.func, ast.Name) and par.func.id == 'max' and n in par.args:
            others = [a for a in par.args if a is not n]
        elif isinstance(par, (ast.List, ast.Tuple)):
            # `bounds = [.., now(), ..]` (possibly grown afterwards) consumed only by max(bounds): the other elements are the other operands
            top = par
            while isinstance(_parent_of(f.node, top), ast.BinOp) and isinstance(_parent_of(f.node, top).op, ast.Add):
                top = _parent_of(f.node, top)
            holder = _parent_of(f.node, top)
            if isinstance(holder, ast.Call) and isinstance(holder.func, ast.Name) and holder.func.id == 'max' and holder.args == [top]:
                others = [e for e in facts.flatten_lattice(holder, 'max') or [] if e is not n]
                par = holder
            elif isinstance(holder, ast.Assign) and len(holder.targets) == 1 and isinstance(holder.targets[0], ast.Name) and holder.value is top:
                lname = holder.targets[0].id
                uses = [x for x in walk_no_nested(f.node) if isinstance(x, ast.Name) and x.id == lname and isinstance(x.ctx, ast.Load)]
                maxes = []
                fine = len(ps.fl.defs_of(lname)) == 1
                for u in uses:
                    up = _parent_of(f.node, u)
                    if isinstance(up, ast.Call) and isinstance(up.func, ast.Name) and up.func.id == 'max' and up.args == [u]:
                        maxes.append(up)
                    elif isinstance(up, ast.Attribute) and up.attr in ('append', 'extend') and isinstance(_parent_of(f.node, up), ast.Call):
                        continue
                    else:
                        fine = False
                if fine and maxes:
                    others = [e for e in (facts.flatten_lattice(ast.Call(func=ast.Name(id='max', ctx=ast.Load()), args=[top], keywords=[]), 'max') or [])
                              if e is not n]
                    par = maxes[0]
            if others is None:
                o.undecided(f, n, par, "clock read stored in a sequence whose uses the rule cannot follow to a max()")
                continue
        elif isinstance(par, ast.Call) and isinstance(par.func, ast.Name) and par.func.id == 'min':
            o.refute(f, n, par, "clock read inside a min(): the result depends on the clock even before the project start")
            continue
        elif isinstance(par, ast.Call) and not (isinstance(par.func, ast.Name) and par.func.id == 'max') and \
                not (isinstance(par.func, ast.Attribute) and isinstance(par.func.value, ast.Name) and par.func.value.id == f.params[0]):
            o.undecided(f, n, par, f"clock read handed to `{src(par.func)[:40]}`: cannot tell whether a term >= project start dominates it")
            continue
        else:
            o.refute(f, n, par if par is not None else n, "clock read outside a max(): the result depends on the clock even before the project start")
            continue
        pe_has_bound = pt is not None and any(isinstance(x, ast.Name) and x.id == ps.bound for x in pt['args'])
        stop_ = {pt['name']} if pt else None
        at_par = ps.cfg.node_containing(par)

        def value_cases(e, at, depth=0):
            """the values an operand can have: conditional expressions split, and a local with several reaching plain assignments
            (`x = A; if c: if d: x = B`) replaced by the values of those assignments"""
            ex_ = ps.ex.expand(e, at, stop=stop_)
            out = []
            for _, v in sched.expr_cases(ex_):
                if isinstance(v, ast.Name) and v.id not in ps.f.params and depth < 3 and at is not None and not (pt and v.id == pt['name']) \
                        and _running_max_floor(ps, v.id, at) is None:
                    rd = ps.fl.reaching(v.id, at)
                    if len(rd) > 1 and all(d.kind == 'assign' and d.value is not None and d.node is not None and d.node is not at for d in rd):
                        for d in rd:
                            out += value_cases(d.value, d.node, depth + 1)
                        continue
                out.append((v, at))
            return out

        def case_guarded(v, at):
            args = facts.flatten_lattice(v, 'max') or [v]
            # a running maximum (`acc = B; for ..: if E > acc: acc = E`) is bounded below by its initial value
            for x in list(args):
                fl_ = _running_max_floor(ps, x.id, at) if isinstance(x, ast.Name) else None
                if fl_ is not None:
                    ix = ps.ex.expand(fl_.value, fl_.node, stop=stop_)
                    args = args + (facts.flatten_lattice(ix, 'max') or [ix])
            if any(isinstance(x, ast.Name) and x.id == ps.bound for x in args) or any(match(f"self.{FWD['bound']}", x) for x in args):
                return True
            return bool(pe_has_bound and any(isinstance(x, ast.Name) and x.id == pt['name'] for x in args))

        op_cases = [value_cases(a, at_par) for a in others]
        guarded = any(cs and all(case_guarded(v, at) for v, at in cs) for cs in op_cases)
        fill_name = prog.func(FWD['fill']).name
        construct = par
        # the cases of the single other operand that are not bounded below by the project start
        open_cases = [v for v, at in op_cases[0] if not case_guarded(v, at)] if len(op_cases) == 1 else []
        if open_cases and all(match(f"{ps.task}.start", v) for v in open_cases):
            construct = 'max(task.start, clock) [start of the fill]'
        elif open_cases and all(isinstance(v, ast.Call) and isinstance(v.func, ast.Attribute) and unmangle(v.func.attr) == fill_name for v in open_cases):
            construct = 'max(fill(...), clock) [leaf end]'
        if guarded:
            o.site(f, par, f"max({', '.join(src(a)[:25] for a in par.args)}) contains a term >= project start")
        else:
            o.refute(f, par, construct, f"`{src(par)[:70]}`: no operand is bounded below by the project start, so a clock before the project "
                                  f"start still shows in the result (user-fixed earlier start; same-day non-midnight start)")
    # the future-end validator compares user dates with the clock
    vf = sched_dep.resolve_validator(ctx, FWD, sched_dep.FUTURE_END)
    for n in (vf.clocks[:1] if isinstance(vf, sched_dep.AsValidator) else walk_no_nested(vf.node)):
        if _is_clock(n):
            o.refute(vf, n, 'user-fixed end compared with the clock', "a user-fixed end between two clock values (both before the project start) is rejected for the earlier "
                               "clock and accepted for the later one")
