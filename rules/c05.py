"""C05 - task ids stay unique inside every WBS and tree; lookup by id is exact.   (DESIGN.md section 5, C05)

Decided: the id field is immutable; the id-intersection guard precedes every write that can attach a foreign task
(both modes of both setters); everything the per-child parent assignment can reject is pre-validated by the children setter
(a children assignment that fails midway leaves dropped-but-still-attached tasks, which later skip the id check); the
receiving tree is found by ascending to the WBS root task (not through the public `parent`, which hides it) - decided on the
expanded return values / path conditions of _find_root, so recursion, guard clauses, hoisted locals and upward loops are the
same; the intersection test (c05_util.IdCheck: abstract evaluation of the collections, result as a formula over
empty/duplicates/intersects atoms) filters by object identity, rejects duplicates inside the argument and compares ids exactly;
lookup (next(..) / search loop / recursive depth-first helper) and enumeration shapes; a memoised all_children whose
invalidation misses a child-list change or does not reach the WBS root task.  Relies on C01 for the forest invariant.
Round 4: the parent setter rejects the task itself / a descendant / a dependency-linked parent before any relation or owner
write and never raises after one (shared with C11); the child list object is shared with every facade (own alias-aware copy of the
shared-list rule in c05_util); all_children order decided for recursive generators / accumulators (nested, static, method) and for
explicit work lists (which end is popped, which end and in which order the children are pushed).
Round 5: `_unique_tasks(..)` / a running `seen` set of id(t) is the identity de-duplication; a receiving tree built as
[receiver] + root.all_children (root task missing) is refuted; _collect_subtree as a work list; members_listed_once (an append of
argument elements into a child list needs `not in`, the argument list is never spliced into the shared list as it is).
Round 6: the path condition of a `return <cursor>` in _find_root is read propositionally (exit of a compound while test plus a
later test may only IMPLY top-and-detached; a condition that allows an attached cursor is refuted); next(<local generator>);
search loops with `if <no match>: continue`; unlink_and_reroot (c01.mirror_parent) also runs under C05; c01.own is called through
a proxy that keeps the constructor's dynamic attribute store a site when it moves into a private helper of __init__ / clone.
Round 7: a search loop that hands back the colliding id (`return t.id`) is a free truth-value atom: refuted when every caller
tests the result for truth (falsy ids), taken as true when every caller asks `is not None`; members_listed_once also refutes a
summand with one entry per element of the argument (`[by_id[i] for i in ids]`) unless each entry is taken out of a copy of the list.
Round 8: size arithmetic in the id test (`len(A | ids(X)) != len(A) + len(X)`), nested search loops over the incoming subtrees with
filter conjuncts, _collect_subtree through a generator; list_ops_keep_members (c11) and owners_compared_by_identity (WBS.__eq__ with
`!=` guards) also run under C05; c01.mirror_parent / c01.own are called through proxies (guard residues behind hoisted locals,
`not key.startswith('_')` behind a hoisted local, dependency-list facades are not hierarchy state).
Round 9: taskrules.require is called through `require` here (owner read through the public Task.wbs == raw field; the spelling
of the ancestors handed to the two-argument dependency helper is C01's question); a root memo in _find_root must be reset for the
whole moved subtree; all_children filling an accumulator handed down the recursion; builtin setattr(task, key, v) guarded by the
public-name test; dependency-list helpers of the list base classes are not hierarchy state.
Round 10: `require` adds the facts about owners (exactly one None => they differ) and leaves a requirement undecided when the
setter rejects inside a while loop; _find_root / _collect_subtree may be Task methods (c05_util.id_helpers); a flag loop
(`if ..: clash = True`) is the search loop; the generator behind _collect_subtree is a collector name; WBS[id] through an id -> member
dict needs TypeError translated as well as KeyError.
Round 11: the id test may be a private static method of Task (c05_util.id_test_func; taskrules.canon_atom reads `Task.__f(a, b)` as the
module helper `_f(a, b)`); a test hoisted into a boolean local inside the id test is followed; the duplicates test must count ids over a
list reduced to one entry per task OBJECT (a task given twice / with its own descendant is not a clash); re-rooting written as
`self.parent = self.__wbs._root()` under `parent is None` on a member is the re-rooting (c01.mirror_parent through _MirrorProxy).
Not decided: a memoised all_children whose invalidation looks complete (UNDECIDED); id tests written with running `picked`
sets or other idioms the evaluator does not model (UNDECIDED).
"""
from __future__ import annotations

import ast

from sa import facts
from sa.cfg import cfg_of
from sa.effects import Effects
from sa.flow import Expander, flow_of
from sa.model import src, walk_no_nested, unmangle
from sa.pat import match, same
from . import taskrules as T
from .taskrules import guard_facts, relation_write_nodes, Roles, SETTERS, canon_atom


def check(ctx):
    prog = ctx.prog
    eff = Effects(prog, ctx.typer, ctx.cg)
    ctx.assume("hierarchy is a forest with mirrored parent/children links (property C01)")

    o = ctx.ob('id_immutable', 'R1', "Task.__id is stored only in Task.__init__ and there is no id setter", floor=1)

    def immut(o):
        for f in prog.all_funcs():
            for w in eff.direct_writes(f):
                if w.field == '_Task__id':
                    if f.qual == 'task.Task.__init__':
                        o.site(f, w.node, "self.__id = id")
                    else:
                        o.refute(f, w.node, w.node, "the task id is changed after construction: uniqueness checked at attach time no longer holds")
        if 'id' in prog.cls('Task').setters:
            s = prog.cls('Task').setters['id']
            o.refute(s, s.node, 'id.setter', "Task.id has a setter")
    ctx.guarded(o, immut)

    o = ctx.ob('attach_only_through_setters', 'R1',
               "parent/children state and the list shared with the children facade are written only inside the owner set: every way of "
               "attaching a task passes the id checks of the two setters (shared rule with C01)", floor=20)

    ctx.guarded(o, lambda o: own_shared(ctx, o, eff))

    o = ctx.ob('check_precedes_attach_parent', 'R3',
               "parent setter: a detached task (sub)tree is checked with _has_id_intersection(new parent, [task]) before any relation write, "
               "skipped only when the parent object is unchanged; an attached task may only move inside its own WBS", floor=2)
    ctx.guarded(o, lambda o: parent_mode(ctx, o, eff))

    o = ctx.ob('check_precedes_attach_children', 'R3',
               "children setter: _has_id_intersection(task, value) rejects with RuntimeError before any relation write, for a detached and "
               "for an attached receiver", floor=2)
    ctx.guarded(o, lambda o: children_mode(ctx, o, eff))

    o = ctx.ob('children_assignment_atomic', 'R3',
               "children setter: everything the per-child parent assignment can reject (the task itself, an ancestor, a dependency with the "
               "new parent chain) is rejected for EVERY element before the first relation write; a children assignment that fails midway "
               "leaves dropped tasks that still report the WBS, and re-attaching those skips the id check", floor=3)
    ctx.guarded(o, lambda o: children_atomic(ctx, o, eff))

    o = ctx.ob('parent_assignment_atomic', 'R3',
               "parent setter: the task itself, a descendant or a dependency-linked task as new parent is rejected before ANY relation or "
               "owner write (unlink, _attach, parent store): a move refused midway leaves a detached task flagged as attached (its next "
               "attach skips the id check) or an attached task outside the tree", floor=3)
    ctx.guarded(o, lambda o: parent_atomic(ctx, o, eff))

    o = ctx.ob('shared_child_list', 'R1',
               "one child list object per task, shared with every children facade (shared rule with C11): a facade that rebinds its list "
               "leaves stale views whose later move/sort publishes an outdated list as the children of the task - tasks re-enter the tree "
               "without any id check", floor=4)
    ctx.guarded(o, lambda o: __import__('rules.c05_util', fromlist=['shared_list']).shared_list(ctx, o))

    o = ctx.ob('members_listed_once', 'R3',
               "a task named twice in an argument (children assignment, move) is put into the child list once: direct appends are guarded "
               "by `not in`, the argument list is never spliced into the shared list as it is (WBS.tasks lists every member exactly once)",
               floor=1)
    ctx.guarded(o, lambda o: __import__('rules.c05_util', fromlist=['listed_once']).listed_once(ctx, o))

    o = ctx.ob('unlink_and_reroot', 'R4',
               "a re-parented task is unlinked from its RAW old parent, the hidden WBS root task included (shared rule with C01/C11): "
               "through the public parent a root-level member moved below another task stays in the root list and is listed twice in "
               "WBS.tasks", floor=4)

    ctx.guarded(o, lambda o: mirror_shared(ctx, o))

    o = ctx.ob('list_ops_keep_members', 'R8',
               "the in-place operations of the children list keep every task (shared rule with C11): a task that drops out of the list while "
               "it still reports the WBS is invisible to the id test, a second task with its id is accepted and both end up as members",
               floor=1)
    ctx.guarded(o, lambda o: __import__('rules.c11', fromlist=['list_ops']).list_ops(ctx, o))

    o = ctx.ob('owners_compared_by_identity', 'R2',
               "the same-WBS guards compare owners with `!=` / `==`: WBS must not define __eq__ / __ne__, or a task of another but "
               "equal-looking WBS is moved in on a path that runs no id check", floor=1)
    ctx.guarded(o, lambda o: owner_identity(ctx, o))

    o = ctx.ob('receiving_tree_scope', 'R8',
               "the receiving tree is the whole WBS: _find_root returns the WBS root task of an attached task (task.wbs._root()), and "
               "otherwise climbs to the top of the detached tree", floor=2)
    ctx.guarded(o, lambda o: scope(ctx, o))

    o = ctx.ob('intersection_test', 'R8',
               "_has_id_intersection: receiving tree = subtree of the root, incoming = subtrees of all given tasks, tasks already in the tree "
               "are removed by OBJECT identity, distinct incoming tasks with equal ids are rejected, ids are compared exactly; "
               "_collect_subtree lists the task and the subtree of every child", floor=6)
    ctx.guarded(o, lambda o: intersection(ctx, o))

    o = ctx.ob('lookup_and_enumeration', 'R8',
               "WBS[id] returns the first member with t.id == id and turns StopIteration into RuntimeError; WBS.tasks is all_children of the "
               "root task; all_children yields a child before its subtree in list order", floor=4)
    ctx.guarded(o, lambda o: lookup(ctx, o))


class _OwnProxy:
    """c01.own allows dynamic attribute stores (`x.__setattr__(k, v)`) in Task.__init__ and on the fresh copy in clone by the NAME of
    the function.  A private helper that only those two call (`__set_attributes(kwargs)`) is the same code under another name: its
    finding is turned back into the site it is on /repo HEAD.  Everything else is passed through."""

    def __init__(self, ctx, o):
        self._ctx, self._o = ctx, o

    def __getattr__(self, name):
        return getattr(self._o, name)

    def refute(self, func, node, construct, msg):
        if func is not None and func.cls in ('_PredecessorsList', '_SuccessorsList') and msg.startswith('_list is written outside'):
            return None        # the wrapped list is a dependency list: C01's subject, neither ids nor WBS membership depend on it
        if func is not None and func.cls in ('_TaskList', '_ImmutableTaskList') and msg.startswith('_list is written outside') and \
                self._callers(func) and all(c.cls in ('_PredecessorsList', '_SuccessorsList') for c in self._callers(func)):
            return None        # a base-class helper that only the dependency lists use
        if func is not None and (msg.startswith('__predecessors is written outside') or msg.startswith('__successors is written outside')):
            return None
        if func is not None and msg.startswith("attribute store with a computed name") and func.cls == 'Task' and \
                func.name.startswith('__') and not func.name.endswith('__') and self._only_ctor_callers(func):
            return self._o.site(func, node, "dynamic attribute store in a private helper of the constructor / clone")
        if func is not None and msg.startswith("attribute store with a computed name") and isinstance(node, ast.Call) and \
                isinstance(node.func, ast.Name) and node.func.id in ('setattr', 'delattr') and len(node.args) >= 2 and isinstance(node.args[1], ast.Name):
            # the builtin spelling setattr(task, key, value): the name is the SECOND argument
            key = node.args[1].id
            for t, q in facts.node_conditions(self._ctx.prog, func, node, self._ctx.typer, expand=True):
                t2, q2 = facts.norm_cond(t, q)
                if match(f"{key}.startswith('_')", t2) and not q2:
                    return self._o.site(func, node, "dynamic attribute store limited to public names")
        if func is not None and msg.startswith("attribute store with a computed name") and isinstance(node, ast.Call) and node.args and \
                isinstance(node.args[0], ast.Name):
            # the guard `not key.startswith('_')` may sit behind a hoisted local (`is_own = key.startswith('_'); if is_own: .. else: <store>`):
            # c01.own reads the path condition unexpanded
            key = node.args[0].id
            for t, q in facts.node_conditions(self._ctx.prog, func, node, self._ctx.typer, expand=True):
                t2, q2 = facts.norm_cond(t, q)
                if match(f"{key}.startswith('_')", t2) and not q2:
                    return self._o.site(func, node, "dynamic attribute store limited to public names")
        return self._o.refute(func, node, construct, msg)

    def _callers(self, g):
        callers = []
        for f in self._ctx.prog.all_funcs():
            if isinstance(f.node, ast.Lambda) or f is g:
                continue
            for ci in self._ctx.cg.calls_in(f):
                if g in [t for t in ci.targets if t is not None]:
                    callers.append(f)
        return callers

    def _only_ctor_callers(self, g) -> bool:
        callers = [f.qual for f in self._callers(g)]
        return bool(callers) and set(callers) <= {'task.Task.__init__', 'task.Task.clone'}


def owner_identity(ctx, o):
    prog = ctx.prog
    w = prog.cls('WBS')
    bad = [n for n in ('__eq__', '__ne__') if n in w.methods]
    # how do the guards compare owners?
    by_value = []
    for q in (SETTERS['parent'], SETTERS['children']):
        f = prog.func(q)
        for n in ast.walk(f.node):
            if isinstance(n, ast.Compare) and len(n.ops) == 1 and isinstance(n.ops[0], (ast.Eq, ast.NotEq)) and \
                    all(isinstance(x, ast.Attribute) and x.attr in ('_Task__wbs', 'wbs') for x in (n.left, n.comparators[0])):
                by_value.append((f, n))
    if bad and by_value:
        f, n = by_value[0]
        m = w.methods[bad[0]]
        o.refute(m, m.node, bad[0], f"WBS defines {bad[0]} while the same-WBS guard `{src(n)}` in {f.name} compares owners by value: a member of "
                                    f"another WBS that compares equal passes the guard and changes WBS without any id check / keeps a foreign owner")
    elif bad:
        o.site(w.methods[bad[0]], w.methods[bad[0]].node, "WBS defines __eq__, but the guards compare owners with `is`")
    else:
        o.site(None, None, "wbs.py WBS: no __eq__/__ne__ (owner comparison with != is identity)")


class _MirrorProxy:
    """c01.mirror_parent counts an `if <guard>: raise` that did not fire as a condition of the unlink when the guard's test is written
    through hoisted locals (`detached = self.__wbs is None; if not detached and ..: raise`): the residue is recognised on the expanded
    text only.  Here the path condition of the removal is read on the CFG: tests whose `if` only raises are residues, the rest must be
    the allowed `linked` tests.  Everything else is passed through."""

    def __init__(self, ctx, o):
        self._ctx, self._o = ctx, o

    def __getattr__(self, name):
        return getattr(self._o, name)

    def refute(self, func, node, construct, msg):
        if construct == 'conditional unlink' and func is not None and isinstance(node, ast.AST) and self._only_residues(func, node):
            return self._o.site(func, node, "self.__parent.__children.remove(self) when linked (guards that raise come first)")
        return self._o.refute(func, node, construct, msg)

    def undecided(self, func, node, construct, msg):
        if construct == 're-rooting' and func is not None and func.qual == SETTERS['parent']:
            st = self._reroot_by_assignment(func)
            if st is not None:
                self._o.site(func, st, "parent = None on a member re-roots it under the WBS root task (the root task is assigned as parent: the "
                                       "setter runs again with it, unlinks, stores, attaches and appends)")
                return self._o.site(func, func.node, "detached task: parent = None")
        return self._o.undecided(func, node, construct, msg)

    def _reroot_by_assignment(self, f):
        """`self.parent = <self.__wbs._root()>` under `parent is None` and `self.__wbs is not None` (what `root.children.append(self)`
        does inside the facade), next to a plain `self.__parent = None` for the detached task"""
        prog = self._ctx.prog
        s = f.self_name
        p = [x for x in f.params if x != s][0]
        cfg = cfg_of(f)
        ex = Expander(prog, f, self._ctx.typer, inline=False)
        hits = []
        for st, tgt, val in facts.attr_stores(f, 'parent'):
            if not (isinstance(tgt.value, ast.Name) and tgt.value.id == s) or cfg.node_of(st) is None:
                continue
            v = ex.expand(val, cfg.node_of(st))
            if not (match(f"{s}._Task__wbs._root()", v) or match(f"{s}.wbs._root()", v)):
                return None
            conds = facts.node_conditions(prog, f, st, self._ctx.typer, expand=True)
            if not (any(facts.cond_is(t, q, f"{p} is None", True) is not None for t, q in conds) and
                    any(facts.cond_is(t, q, f"{s}._Task__wbs is None", False) is not None or
                        facts.cond_is(t, q, f"{s}.wbs is None", False) is not None for t, q in conds)):
                return None
            hits.append(st)
        if len(hits) != 1:
            return None
        none_stores = [st for st, tgt, val in facts.attr_stores(f, '_Task__parent') if isinstance(val, ast.Constant) and val.value is None and
                       isinstance(tgt.value, ast.Name) and tgt.value.id == s]
        for st in none_stores:
            conds = facts.node_conditions(prog, f, st, self._ctx.typer, expand=True)
            if not any(facts.cond_is(t, q, f"{s}._Task__wbs is None", True) is not None or
                       facts.cond_is(t, q, f"{s}.wbs is None", True) is not None for t, q in conds):
                return None
        return hits[0] if none_stores else None

    def _only_residues(self, f, call) -> bool:
        prog = self._ctx.prog
        cfg = cfg_of(f)
        cn = cfg.node_containing(call)
        if cn is None:
            return False
        s = f.self_name
        p = [x for x in f.params if x != s][0]
        ok = (f"{s}._Task__parent is None", f"{s} in {s}._Task__parent._Task__children", f"{p} is None", f"{s}._Task__wbs is None")
        ex = Expander(prog, f, self._ctx.typer, inline=False)
        ifs = [n for n in walk_no_nested(f.node) if isinstance(n, ast.If)]
        for test, pol in cfg.conditions(cn):
            iff = next((n for n in ifs if n.test is test), None)
            if iff is not None and not any(x is call for x in ast.walk(iff)) and iff.body and \
                    all(isinstance(b, ast.Raise) for b in iff.body[-1:]) and not iff.orelse and pol is False:
                continue                # `if guard: raise` passed without raising
            tx = ex.expand(test, cfg.node_containing(test))
            for a, q in facts.split_conj(tx, pol):
                a2, _ = facts.norm_cond(a, q)
                if not any(match(pat, a2) for pat in ok):
                    return False
        return True


def mirror_shared(ctx, o):
    from . import c01
    c01.mirror_parent(ctx, _MirrorProxy(ctx, o))


def own_shared(ctx, o, eff):
    from . import c01
    c01.own(ctx, _OwnProxy(ctx, o), eff)


def _unchanged_skip(f, e) -> str:
    """classify the 'parent changed' test: 'identity' | 'by-id' | None"""
    s = f.self_name
    p = [x for x in f.params if x != s][0]
    parts = e.values if isinstance(e, ast.BoolOp) and isinstance(e.op, ast.Or) else [e]
    kinds = set()
    for d in parts:
        if match(f"{s}.parent is None", d) or match(f"{s}._Task__parent is None", d):
            continue
        if match(f"id({s}.parent) != id({p})", d) or match(f"{s}.parent is not {p}", d) or match(f"{s}.parent != {p}", d) or \
                match(f"id({s}._Task__parent) != id({p})", d) or match(f"{s}._Task__parent is not {p}", d):
            kinds.add('identity')
            continue
        if match(f"{s}.parent.id != {p}.id", d) or match(f"{s}._Task__parent.id != {p}.id", d):
            kinds.add('by-id')
            continue
        return None
    if kinds == {'identity'}:
        return 'identity'
    if 'by-id' in kinds:
        return 'by-id'
    return None


def parent_mode(ctx, o, eff):
    prog = ctx.prog
    A, N, AND = T.F_atom, T.F_not, T.F_and
    f = prog.func(SETTERS['parent'])
    writes = relation_write_nodes(ctx, f, eff)
    require(ctx, o, f, "detached task: ids of the subtree vs the receiving tree (skipped only when the parent OBJECT is unchanged)",
              AND(A('wbsnone(self)'), N(A('none(arg)')), N(A('same(arg,self.parent)')), A('call:_has_id_intersection(arg,[self])')),
              writes, eff, False, mode_filter=_reaches_under)
    require(ctx, o, f, "attached task: the new parent must belong to the same WBS",
              AND(N(A('wbsnone(self)')), N(A('none(arg)')), A('wbsneq(arg,self)')), writes, eff, False, mode_filter=_reaches_under)


def _reaches_under(cfg, f, wn, g):
    """is write node wn reachable from the entry along a path that passes the branch in which guard g lives (its mode)"""
    conds = cfg.conditions(g.g.cfg_node)
    if not conds:
        return True
    # the opposite branch of every enclosing (already validated, allowed) context condition of the guard is a path on which
    # the guard is not required: other mode, argument None, parent object unchanged
    other = []
    for test, pol in conds[:-1]:
        tn = cfg.node_containing(test)
        other += [s for s in tn.succ if s.kind == 'branch' and s.polarity != pol]
    dn, _ = T.decision_node(cfg, f, g)
    vac = T.vacuous_branches(cfg, f)
    return T.reaches_avoiding(cfg, wn, vac | {dn.id} | {s.id for s in other})


def children_mode(ctx, o, eff):
    prog = ctx.prog
    A, N, AND = T.F_atom, T.F_not, T.F_and
    f = prog.func(SETTERS['children'])
    writes = relation_write_nodes(ctx, f, eff)
    require(ctx, o, f, "detached receiver: ids of the new children vs the receiving tree",
              AND(A('wbsnone(self)'), A('call:_has_id_intersection(self,arg)')), writes, eff, False, mode_filter=_reaches_under)
    require(ctx, o, f, "attached receiver: ids of the new children vs the whole WBS",
              AND(N(A('wbsnone(self)')), A('call:_has_id_intersection(self,arg)')), writes, eff, False, mode_filter=_reaches_under)


def require(ctx, o, f, label, R, writes, eff, needs_elem, mode_filter=None):
    """taskrules.require, preceded by one more reading of the guards: the owner read through the PUBLIC accessor (`x.wbs is None`,
    e.g. after a validation helper written against the public API was spliced in) is the same fact as `x.__wbs is None`.
    taskrules.canon_atom knows the raw field only (`wbsnone`) and calls the other `none(x.wbs)`.  When the requirement is implied
    with that renaming, the site is recorded here; otherwise taskrules.require decides (and words the finding)."""
    import re as _re
    cfg = cfg_of(f)

    def ren(fm):
        k = fm[0]
        if k == 'atom':
            a = _re.sub(r"\bnone\(([^()]*)\.wbs\)", r"wbsnone(\1)", fm[1])
            # WHICH ancestors the dependency helper is handed is C01's question; for "rejected before the first write" it is enough
            # that the helper is asked about the moved task / the new child
            m = _re.match(r"^call:_has_dependency_with_parents\((elem|self),(.*)\)$", a)
            def _one_arg(txt):
                depth = 0
                for ch in txt:
                    depth += ch in '([{'
                    depth -= ch in ')]}'
                    if ch == ',' and depth == 0:
                        return False
                return True
            if m and m.group(2) not in ('self', 'arg') and _one_arg(m.group(2)):      # extra arguments (flags) change the question
                rest = m.group(2)
                if m.group(1) == 'elem' and _re.search(r"\bself\b", rest):
                    a = 'call:_has_dependency_with_parents(elem,self)'
                elif m.group(1) == 'self' and _re.search(r"\barg\b", rest):
                    a = 'call:_has_dependency_with_parents(self,arg)'
            return ('atom', a)
        if k == 'not':
            return ('not', ren(fm[1]))
        if k in ('and', 'or'):
            return (k, [ren(x) for x in fm[1]])
        return fm
    try:
        gfs = T.guard_formulas(ctx, f)
        if any('.wbs)' in a or a.startswith('call:_has_dependency_with_parents(') or a.startswith('wbsneq(')
               for g in gfs for a in T.atoms_of(g.formula)):
            usable = []
            for g in gfs:
                late = T.writes_not_preceded(cfg, f, T._as_gf(g), writes)
                if mode_filter is not None:
                    late = [w for w in late if mode_filter(cfg, f, w[0], g)]
                fm = ren(g.formula)
                if not late and g.exc == 'RuntimeError' and (g.per_element or not needs_elem or 'elem' not in T.fmt(fm)):
                    usable.append(fm)
            # facts about owners: exactly one of two owners None => they differ; both None => they do not
            ax = []
            for a in sorted({x for fm in usable for x in T.atoms_of(fm)} | T.atoms_of(R)):
                m = _re.match(r"^wbsneq\(([^,()]*),([^,()]*)\)$", a)
                if m:
                    na, nb, ne = T.F_atom(f"wbsnone({m.group(1)})"), T.F_atom(f"wbsnone({m.group(2)})"), T.F_atom(a)
                    ax.append(T.F_or(T.F_not(T.F_and(na, T.F_not(nb))), ne))
                    ax.append(T.F_or(T.F_not(T.F_and(nb, T.F_not(na))), ne))
                    ax.append(T.F_or(T.F_not(T.F_and(na, nb)), T.F_not(ne)))
            if T.implication(T.F_and(R, *ax) if ax else R, usable) is None:
                o.site(f, f.node, f"{label}: {T.fmt(R)} => RuntimeError before the first write")
                return True
    except Exception:
        pass
    loops = [w for w in walk_no_nested(f.node) if isinstance(w, ast.While) and any(isinstance(x, ast.Raise) for x in ast.walk(w))]
    if loops:
        # a guard that walks a chain (`while p is not None: if p is self: raise ..; p = p.__parent`) is not a formula over the
        # canonical atoms: what it rejects cannot be compared with the requirement here
        o.undecided(f, loops[0], label, f"[{label}] cannot be established: {f.name} rejects inside a while loop (`{src(loops[0].test)[:40]}`), a "
                                        f"guard form the rule does not interpret")
        return False
    return T.require(ctx, o, f, label, R, writes, eff, needs_elem, mode_filter=mode_filter)


def children_atomic(ctx, o, eff):
    A = T.F_atom
    f = ctx.prog.func(SETTERS['children'])
    writes = relation_write_nodes(ctx, f, eff)
    for label, R in (("a new child is the task itself", A('same(elem,self)')),
                     ("the task is a descendant of a new child", A('desc(self,elem)')),
                     ("a dependency links a new child's subtree with the task or its ancestors", A('call:_has_dependency_with_parents(elem,self)'))):
        require(ctx, o, f, label, R, writes, eff, True)


def parent_atomic(ctx, o, eff):
    A, N, AND = T.F_atom, T.F_not, T.F_and
    f = ctx.prog.func(SETTERS['parent'])
    writes = relation_write_nodes(ctx, f, eff)
    for label, R in (("the new parent is the task itself", AND(N(A('none(arg)')), A('same(arg,self)'))),
                     ("the new parent is a descendant of the task", AND(N(A('none(arg)')), A('desc(arg,self)'))),
                     ("a dependency links the moved subtree with the new parent or its ancestors",
                      AND(N(A('none(arg)')), A('call:_has_dependency_with_parents(self,arg)')))):
        require(ctx, o, f, label, R, writes, eff, False)
    # no rejection of its own after the first write
    cfg = cfg_of(f)
    for r in [n for n in walk_no_nested(f.node) if isinstance(n, ast.Raise)]:
        rn = cfg.node_of(r)
        first = next((w for w in writes if rn is not None and cfg.can_reach(w[0], rn)), None)
        if first is not None:
            o.refute(f, r, r, f"the parent setter can still raise (`{src(r)[:50]}`) after `{src(first[1])[:50]}` has changed relation state: "
                              f"the refused move is left half-done")


def scope(ctx, o):
    """every way _find_root can return is classified through expanded values and path conditions (so hoisted locals, guard
    clauses, recursion or an upward loop are all the same to the rule):
      jump     `<cursor>.wbs._root()`                        the WBS root task of an attached task
      recurse  `_find_root(<cursor>.parent)`                 decided by the callee
      top      `<cursor>` under `<cursor>.parent is None`    top of the tree; through the PUBLIC parent only under `wbs is None`
    where a cursor is the parameter or a local that only ever holds the parameter / the parent of a cursor"""
    prog = ctx.prog
    from .c05_util import id_helpers
    f = id_helpers(prog)[0] or prog.func('task._find_root')
    p = f.params[0]
    fl = flow_of(f)
    cfg = fl.cfg
    ex = Expander(prog, f, ctx.typer, inline=False)
    cursors = {p}

    def cursor_expr(e):
        if isinstance(e, ast.Name):
            return e.id in cursors
        if isinstance(e, ast.Attribute) and e.attr in ('parent', '_Task__parent'):
            return cursor_expr(e.value)
        return False
    # greatest fixpoint (cursor = upper ; upper = cursor.parent define each other): start from every local, drop what has a
    # definition that is not a cursor expression
    cursors |= {d.var for d in fl.defs if '.' not in d.var and d.kind == 'assign'}
    changed = True
    while changed:
        changed = False
        for v in sorted(cursors - {p}):
            ds = fl.defs_of(v)
            if not (ds and all(d.kind == 'assign' and d.value is not None and cursor_expr(ex.expand(d.value, d.node)) for d in ds)):
                cursors.discard(v)
                changed = True
    if any(d.kind != 'param' for d in fl.defs_of(p)) and not all(
            d.kind == 'param' or (d.kind == 'assign' and d.value is not None and cursor_expr(ex.expand(d.value, d.node))) for d in fl.defs_of(p)):
        o.undecided(f, f.node, '_find_root', f"the parameter `{p}` is overwritten with something that is not an ancestor of the given task")
        return
    memo = sorted({n.attr for n in ast.walk(f.node) if isinstance(n, ast.Attribute) and cursor_expr(n.value) and
                   n.attr not in ('wbs', 'parent', '_Task__parent', '_Task__wbs', 'id', 'children', '_Task__children')
                   and not isinstance(getattr(n, 'ctx', None), ast.Store) and prog.find_method('Task', unmangle(n.attr)) is None
                   and prog.find_getter('Task', unmangle(n.attr)) is None})
    if memo:
        _root_memo(ctx, o, f, memo[0])
        return
    cases = []          # (return stmt, value, [(test, pol)])
    for r in [n for n in walk_no_nested(f.node) if isinstance(n, ast.Return)]:
        rn = cfg.node_of(r)
        if rn is None or not cfg.is_reachable(rn):
            continue
        conds = facts.node_conditions(prog, f, r, ctx.typer, expand=True)
        v = ex.expand(r.value, rn) if r.value is not None else ast.Constant(value=None)
        todo = [(v, conds)]
        while todo:
            v, cs = todo.pop()
            if isinstance(v, ast.IfExp):
                todo.append((v.body, cs + facts.split_conj(v.test, True)))
                todo.append((v.orelse, cs + facts.split_conj(v.test, False)))
            else:
                cases.append((r, v, cs))
    if not cases:
        o.undecided(f, f.node, '_find_root', "root search in an unrecognised form (no return)")
        return

    def says(cs, pattern, want):
        return any(facts.cond_is(t, q, pattern, want) is not None for t, q in cs)
    for r, v, cs in cases:
        m = match("$w._root()", v)
        if m is not None:
            w = m['w']
            if isinstance(w, ast.Attribute) and w.attr in ('wbs', '_Task__wbs') and cursor_expr(w.value):
                o.site(f, r, "attached task: the receiving tree is rooted at the WBS root task")
            else:
                o.undecided(f, r, r, f"`{src(v)[:60]}`: a root task of something the rule cannot relate to the given task")
            continue
        m = match(f"{f.name}($x)", v) if f.cls is None else None
        if m is None and isinstance(v, ast.Call) and isinstance(v.func, ast.Attribute) and not v.args and unmangle(v.func.attr) == f.name:
            m = {'x': v.func.value}                # method form: <cursor>.parent._tree_root()
        if m is not None:
            x = m['x']
            if cursor_expr(x) and not isinstance(x, ast.Name):
                o.site(f, r, "climbs to the parent and decides there (recursion)")
            elif isinstance(x, ast.Name) and cursor_expr(x):
                o.refute(f, r, r, "_find_root calls itself with the same task: no progress towards the root")
            else:
                o.undecided(f, r, r, f"recursion on `{src(x)[:60]}`, which the rule cannot relate to the given task")
            continue
        if cursor_expr(v):
            c = src(v)
            raw_top = says(cs, f"{c}._Task__parent is None", True)
            pub_top = says(cs, f"{c}.parent is None", True)
            det = says(cs, f"{c}.wbs is None", True) or says(cs, f"{c}._Task__wbs is None", True)
            if not raw_top and not (pub_top and det):
                # the condition may only IMPLY it (exit of `while c.wbs is None and c.parent is not None` + `c.wbs is None`)
                C = T.F_and(*[_cform(t, c) if q else T.F_not(_cform(t, c)) for t, q in cs]) if cs else ('const', True)
                R, P, W = T.F_atom('rawtop'), T.F_atom('pubtop'), T.F_atom('detached')
                if T.implication(C, [T.F_or(R, T.F_and(P, W))]) is None:
                    raw_top = T.implication(C, [R]) is None
                    pub_top = det = not raw_top
                elif T.implication(C, [P]) is None:
                    pub_top = True
            if raw_top:
                o.site(f, r, "attached task: the raw parent chain ends at the WBS root task")
                o.site(f, r, "detached task: climbs until there is no parent")
            elif pub_top and det:
                o.site(f, r, "detached task: climbs until there is no parent")
            elif pub_top:
                o.refute(f, r, '_find_root', "_find_root climbs through Task.parent, which hides the WBS root task, and returns the top-level "
                                            "task also for an ATTACHED task (no jump to task.wbs._root() on that path): the scope of the id "
                                            "check is one top-level branch, not the WBS")
            else:
                C = T.F_and(*[_cform(t, c) if q else T.F_not(_cform(t, c)) for t, q in cs]) if cs else ('const', True)
                closed = not any(a.startswith('opaque:') for a in T.atoms_of(C))
                if closed and T.implication(T.F_and(C, T.F_not(T.F_atom('detached'))), []) is not None and \
                        T.implication(C, [T.F_atom('rawtop')]) is not None:
                    o.refute(f, r, '_find_root', f"_find_root can return `{c}` for an ATTACHED task (the path condition "
                                                f"`{', '.join(facts.cond_texts(cs))[:80]}` allows `{c}.wbs is not None`) instead of the WBS root "
                                                f"task: the scope of the id check is not the whole WBS")
                    continue
                known = closed or all(_about_cursor(t, cursor_expr) for t, q in cs)
                if known:
                    o.refute(f, r, 'climb', f"_find_root returns `{c}` without having reached a task with no parent: it does not climb to "
                                            f"the top of a detached tree")
                else:
                    o.undecided(f, r, r, f"`return {c}` under conditions the rule cannot interpret: " + ', '.join(facts.cond_texts(cs))[:120])
            continue
        o.undecided(f, r, r, f"_find_root returns `{src(v)[:60]}`: unrecognised form of the root search")


def _root_memo(ctx, o, f, F):
    """_find_root remembers the root on the task (field F).  Re-parenting a task changes the root of its WHOLE subtree: unless the
    parent setter (or a helper of it) resets F on the moved task and on all its descendants, tasks below the moved one keep the old
    root and the id test below them looks at the wrong tree.  A reset of the moved task alone is refuted; a reset that walks the
    subtree leaves the obligation undecided (its completeness is not provable here)."""
    prog = ctx.prog
    ps = prog.func(SETTERS['parent'])
    from .c11 import _closure
    resets_self, resets_subtree = None, None
    for g in _closure(ctx, ps):
        gs = g.self_name
        for st, tgt, val in facts.attr_stores(g, F):
            loop = None
            for n in walk_no_nested(g.node):
                if isinstance(n, (ast.For, ast.While)) and any(x is st for x in ast.walk(n)):
                    loop = n
            rec = any(isinstance(c.func, ast.Attribute) and not (isinstance(c.func.value, ast.Name) and c.func.value.id == gs)
                      for c in facts.calls_named(g, g.name)) if g is not ps else False
            if loop is not None or rec:
                resets_subtree = st
            elif isinstance(tgt.value, ast.Name) and tgt.value.id == gs:
                resets_self = st
    if resets_subtree is not None:
        o.undecided(f, f.node, 'root memo', f"_find_root remembers the root in Task.{F}; the parent setter resets it over a loop / recursion, "
                                            f"but that every task whose root changes is covered cannot be established here")
    elif resets_self is not None:
        o.refute(ps, resets_self, resets_self, f"_find_root remembers the root of a detached tree in Task.{F} and the parent setter resets it for "
                                               f"the moved task only (`{src(resets_self)[:40]}`): its descendants keep the old root, an id check "
                                               f"for an attach below them compares with the wrong tree")
    else:
        o.refute(f, f.node, 'root memo', f"_find_root remembers the root in Task.{F} and nothing resets it when a task is re-parented: id checks "
                                         f"compare with the tree the task used to belong to")


def _cform(t, c):
    """formula of a test over the atoms rawtop (c.__parent is None), pubtop (c.parent is None), detached (c.wbs is None)"""
    if isinstance(t, ast.UnaryOp) and isinstance(t.op, ast.Not):
        return T.F_not(_cform(t.operand, c))
    if isinstance(t, ast.BoolOp):
        parts = [_cform(v, c) for v in t.values]
        return ('and', parts) if isinstance(t.op, ast.And) else ('or', parts)
    if isinstance(t, ast.Constant):
        return ('const', bool(t.value))
    core, pol = facts.norm_cond(t, True)
    for pat, name in ((f"{c}._Task__parent is None", 'rawtop'), (f"{c}.parent is None", 'pubtop'), (f"{c}.wbs is None", 'detached'),
                      (f"{c}._Task__wbs is None", 'detached')):
        if match(pat, core):
            return T.F_atom(name) if pol else T.F_not(T.F_atom(name))
    return T.F_atom('opaque:' + src(t)[:60])


def _about_cursor(t, cursor_expr) -> bool:
    """the test only talks about wbs / parent of a cursor being (not) None"""
    t, _ = facts.norm_cond(t, True)
    m = match("$x is None", t)
    if m is None:
        return isinstance(t, ast.Constant)
    x = m['x']
    if isinstance(x, ast.Attribute) and x.attr in ('wbs', '_Task__wbs'):
        return cursor_expr(x.value)
    return cursor_expr(x)


def _if_of(f, node):
    best = None
    for n in walk_no_nested(f.node):
        if isinstance(n, ast.If) and any(x is node for s in n.body for x in ast.walk(s)):
            best = n
    return best or f.body[0]


def intersection(ctx, o):
    from .c05_util import check_intersection, check_collect_subtree
    from .c05_util import id_helpers
    check_collect_subtree(ctx, o, id_helpers(ctx.prog)[1] or ctx.prog.func('task._collect_subtree'))
    from .c05_util import id_test_func
    check_intersection(ctx, o, id_test_func(ctx.prog))


def _search_loop(g, pid):
    """`for t in <all members>: if t.id == pid: return t` as the only loop of g -> (loop, verdict text or None)"""
    loops = [n for n in walk_no_nested(g.node) if isinstance(n, ast.For)]
    if len(loops) != 1 or not isinstance(loops[0].target, ast.Name):
        return None
    lp = loops[0]
    tv = lp.target.id
    if len(lp.body) == 2 and isinstance(lp.body[0], ast.If) and not lp.body[0].orelse and len(lp.body[0].body) == 1 and \
            isinstance(lp.body[0].body[0], ast.Continue) and isinstance(lp.body[1], ast.Return) and not lp.orelse:
        # `if <not test>: continue ; return t`  ==  `if <test>: return t`
        t0, q0 = facts.norm_cond(lp.body[0].test, False)
        test = t0 if q0 else ast.UnaryOp(op=ast.Not(), operand=t0)
        lp = ast.For(target=lp.target, iter=lp.iter, body=[ast.If(test=test, body=[lp.body[1]], orelse=[])], orelse=[])
        ast.copy_location(lp, loops[0])
        ast.fix_missing_locations(lp)
    if len(lp.body) != 1 or not isinstance(lp.body[0], ast.If) or lp.body[0].orelse or lp.orelse:
        return None
    iff = lp.body[0]
    if not (len(iff.body) == 1 and isinstance(iff.body[0], ast.Return) and isinstance(iff.body[0].value, ast.Name) and iff.body[0].value.id == tv):
        return None
    # the loop is `for t in X: if <test>: return t`
    if not (match("self._WBS__root.all_children", lp.iter) or match("self.tasks", lp.iter)):
        if match("self._WBS__root.children", lp.iter) or match("self.roots", lp.iter) or match("self._WBS__root._Task__children", lp.iter):
            return lp, "lookup searches only the top-level tasks, not all members of the WBS"
        return None
    if not (match(f"{tv}.id == {pid}", iff.test) or match(f"{pid} == {tv}.id", iff.test)):
        if not any(isinstance(x, ast.Name) and x.id == tv for x in ast.walk(iff.test)):
            return None
        return lp, f"lookup matches `{src(iff.test)}` instead of `t.id == {pid}`: not exact"
    return lp, None


def _loop_lookup(ctx, o, f, p) -> bool:
    """the explicit-loop spelling of the lookup, in __getitem__ itself or in one private helper whose None result is turned
    into the RuntimeError.  True when the form was recognised (verdicts recorded)"""
    prog = ctx.prog
    from sa.flow import Expander as _Ex
    ex = _Ex(prog, f, ctx.typer, inline=False)
    cfg = cfg_of(f)
    r = _search_loop(f, p)
    if r is not None:
        lp, bad = r
        if bad:
            o.refute(f, lp, lp, bad)
            return True
        # after the loop only a raise may follow: every return of f is the one inside the loop
        rets = [n for n in walk_no_nested(f.node) if isinstance(n, ast.Return)]
        if len(rets) != 1:
            o.refute(f, rets[-1], rets[-1], "lookup returns a value for a missing id instead of raising")
        elif not any(isinstance(n, ast.Raise) for n in walk_no_nested(f.node)):
            o.refute(f, f.node, 'missing id', "lookup returns None for a missing id instead of raising")
        elif not all(facts.exc_name(x) == 'RuntimeError' for x in walk_no_nested(f.node) if isinstance(x, ast.Raise)):
            o.refute(f, f.node, 'missing id', "a missing id does not end in RuntimeError")
        else:
            o.site(f, lp, "first member with t.id == id (search loop)")
            o.site(f, f.node, "missing id -> RuntimeError after the loop")
        return True
    for c in [n for n in walk_no_nested(f.node) if isinstance(n, ast.Call)]:
        g = ex._single_target(c)
        if g is None or g is f or g.cls != f.cls or len(c.args) != 1 or not (isinstance(c.args[0], ast.Name) and c.args[0].id == p):
            continue
        gp = [x for x in g.params if x != g.self_name]
        r = _search_loop(g, gp[0]) if len(gp) == 1 else None
        if r is None:
            continue
        lp, bad = r
        if bad:
            o.refute(g, lp, lp, bad)
            return True
        # the helper's other returns are None; f raises on None and returns exactly the helper's result
        others = [n for n in walk_no_nested(g.node) if isinstance(n, ast.Return) and not any(n is x for x in ast.walk(lp))]
        if any(not (x.value is None or (isinstance(x.value, ast.Constant) and x.value.value is None)) for x in others):
            o.refute(g, others[0], others[0], "the search helper returns a value that is not a member with the requested id")
            return True
        ok = True
        for rt in [n for n in walk_no_nested(f.node) if isinstance(n, ast.Return) and n.value is not None]:
            v = ex.expand(rt.value)
            if not (isinstance(v, ast.Call) and ex._single_target(v) is g or same(v, c)):
                o.refute(f, rt, rt, f"WBS[id] can return `{src(rt.value)}` which is not the result of the search over the current members")
                ok = False
                continue
            conds = facts.node_conditions(prog, f, rt, ctx.typer, expand=True)
            if not any(facts.cond_is(t, q, "$x is None", want=False) and same(facts.norm_cond(t, q)[0].left, v) for t, q in conds):
                o.refute(f, rt, rt, "lookup returns None for a missing id instead of raising")
                ok = False
        raises = [x for x in walk_no_nested(f.node) if isinstance(x, ast.Raise)]
        if ok and raises and all(facts.exc_name(x) == 'RuntimeError' for x in raises):
            o.site(f, c, f"first member with t.id == id (search loop in {g.name})")
            o.site(f, raises[0], "missing id (None from the search) -> RuntimeError")
        elif ok:
            o.refute(f, f.node, 'missing id', "a missing id does not end in RuntimeError")
        from sa.effects import Effects as _Eff
        for w in _Eff(prog, ctx.typer, ctx.cg).direct_writes(f) + _Eff(prog, ctx.typer, ctx.cg).direct_writes(g):
            if w.root == 'self':
                o.refute(f, w.node, w.node, f"lookup changes WBS state ({w.field}): later lookups depend on earlier ones")
        return True
    return False


def _dict_lookup(ctx, o, f, p) -> bool:
    """`try: return <{t.id: t for t in members}>[key]  except KeyError: raise RuntimeError`.  Subscripting hashes the key: a key that is
    not hashable raises TypeError, which must end in RuntimeError too (no member has that id)"""
    prog = ctx.prog
    ex = Expander(prog, f, ctx.typer, inline=True)
    for t in [n for n in walk_no_nested(f.node) if isinstance(n, ast.Try)]:
        rets = [r for b in t.body for r in ast.walk(b) if isinstance(r, ast.Return) and isinstance(r.value, ast.Subscript)]
        if len(rets) != 1:
            continue
        sub = rets[0].value
        if not (isinstance(sub.slice, ast.Name) and sub.slice.id == p):
            continue
        d = ex.expand(sub.value, cfg_of(f).node_of(rets[0]))
        if not (isinstance(d, ast.DictComp) and len(d.generators) == 1 and isinstance(d.generators[0].target, ast.Name)):
            o.undecided(f, rets[0], rets[0], f"lookup subscripts `{src(sub.value)[:40]}`: cannot tell that it maps every member's id to the member")
            return True
        g = d.generators[0]
        tv = g.target.id
        it_ok = match("self._WBS__root.all_children", g.iter) or match("self.tasks", g.iter)
        if not (match(f"{tv}.id", d.key) and isinstance(d.value, ast.Name) and d.value.id == tv and it_ok and not g.ifs):
            o.refute(f, rets[0], d, f"lookup goes through `{src(d)[:60]}`, which is not the map id -> member over all members")
            return True
        caught = set()
        for h in t.handlers:
            names = [src(x) for x in (h.type.elts if isinstance(h.type, ast.Tuple) else [h.type])] if h.type is not None else ['Exception']
            if any(isinstance(x, ast.Raise) and facts.exc_name(x) == 'RuntimeError' for x in h.body):
                caught |= set(names)
        if 'KeyError' not in caught and not caught & {'Exception', 'LookupError'}:
            o.refute(f, t, 'missing id', "a missing id does not end in RuntimeError (KeyError of the dict lookup is not translated)")
        elif not caught & {'TypeError', 'Exception'}:
            o.refute(f, rets[0], rets[0], f"lookup subscripts a dict with the key (`{src(sub)[:40]}`): a key that is not hashable raises TypeError, "
                                          f"which is not translated - wbs[key] must raise RuntimeError whenever no member has that id")
        else:
            o.site(f, rets[0], "member with t.id == id through an id -> member map built per call")
            o.site(f, t, "missing / unhashable id -> RuntimeError")
        return True
    return False


def lookup(ctx, o):
    prog = ctx.prog
    f = prog.func('wbs.WBS.__getitem__')
    p = f.params[1]
    found = False
    default_call = None
    for n in walk_no_nested(f.node):
        if isinstance(n, ast.Call) and isinstance(n.func, ast.Name) and n.func.id == 'next' and n.args:
            parts = facts.comp_parts(n.args[0])
            if not parts and isinstance(n.args[0], ast.Name):
                parts = facts.comp_parts(Expander(prog, f, ctx.typer, inline=False).expand(n.args[0], cfg_of(f).node_containing(n)))
            if parts:
                elt, tgt, it, ifs = parts
                it = Expander(prog, f, ctx.typer, inline=False).expand(it, cfg_of(f).node_containing(n))
                it_ok = match("self._WBS__root.all_children", it) or match("self.tasks", it) or \
                    match("_ImmutableTaskList(self._WBS__root._Task__get_all_children())", it)
                c_ok = len(ifs) == 1 and (match(f"{tgt.id}.id == {p}", ifs[0]) or match(f"{p} == {tgt.id}.id", ifs[0]))
                if it_ok and c_ok and isinstance(elt, ast.Name) and elt.id == tgt.id:
                    found = True
                    o.site(f, n, "first member with t.id == id")
                    if len(n.args) > 1:
                        default_call = n
                elif it_ok:
                    o.refute(f, n, n, f"lookup matches `{src(ifs[0]) if ifs else '?'}` instead of `t.id == {p}`: not exact")
                    found = True
                elif match("self._WBS__root.children", it) or match("self.roots", it) or match("self._WBS__root._Task__children", it):
                    o.refute(f, n, it, "lookup searches only the top-level tasks, not all members of the WBS")
                    found = True
                else:
                    o.undecided(f, n, it, f"lookup searches `{src(it)[:50]}`: cannot tell that these are all members of the WBS")
                    found = True
    from . import c05_util
    if not found and _dict_lookup(ctx, o, f, p):
        pass
    elif not found and _loop_lookup(ctx, o, f, p):
        pass
    elif not found and c05_util.dfs_lookup(ctx, o, f, p):
        pass
    elif not found:
        o.undecided(f, f.node, '__getitem__', "lookup in an unrecognised form")
    else:
        # every value returned must be the result of that search (a remembered task can go stale)
        from sa.flow import Expander as _Ex
        ex = _Ex(prog, f, ctx.typer, inline=False)
        for r in [n for n in walk_no_nested(f.node) if isinstance(n, ast.Return) and n.value is not None]:
            v = ex.expand(r.value)
            if not (isinstance(v, ast.Call) and isinstance(v.func, ast.Name) and v.func.id == 'next'):
                o.refute(f, r, r, f"WBS[id] can return `{src(r.value)}` which is not the result of the search over the current members "
                                  f"(a cached entry goes stale when the task is removed or moves to another WBS)")
        from sa.effects import Effects as _Eff
        for w in _Eff(prog, ctx.typer, ctx.cg).direct_writes(f):
            if w.root == 'self':
                o.refute(f, w.node, w.node, f"lookup keeps state on the WBS ({unmangle(w.field)})")
    tries = [n for n in walk_no_nested(f.node) if isinstance(n, ast.Try)]
    ok = False
    for t in tries:
        for h in t.handlers:
            if h.type is not None and src(h.type) == 'StopIteration' and any(isinstance(x, ast.Raise) and facts.exc_name(x) == 'RuntimeError' for x in h.body):
                ok = True
    if default_call is not None:
        # next(.., None) ; if found is None: raise RuntimeError ; return found
        d = default_call.args[1]
        ex2 = Expander(prog, f, ctx.typer, inline=False)
        rets2 = [n for n in walk_no_nested(f.node) if isinstance(n, ast.Return) and n.value is not None]
        guarded = bool(rets2)
        for r in rets2:
            v = ex2.expand(r.value)
            conds = facts.node_conditions(prog, f, r, ctx.typer, expand=True)
            if not any(facts.cond_is(t, q, "$x is None", want=False) is not None and same(facts.norm_cond(t, q)[0].left, v) for t, q in conds):
                guarded = False
        raises = [x for x in walk_no_nested(f.node) if isinstance(x, ast.Raise)]
        if isinstance(d, ast.Constant) and d.value is None and guarded and raises and all(facts.exc_name(x) == 'RuntimeError' for x in raises):
            ok = True
        else:
            o.refute(f, default_call, default_call, "lookup returns a default instead of raising RuntimeError for a missing id")
            return
    if ok:
        o.site(f, f.node, "missing id -> RuntimeError")
    elif found:
        o.refute(f, f.node, 'missing id', "a missing id does not end in RuntimeError")
    g = prog.func('wbs.WBS.tasks')
    rets = [n for n in walk_no_nested(g.node) if isinstance(n, ast.Return)]
    gex = Expander(prog, g, ctx.typer, inline=False)
    gvals = [gex.expand(r.value) if r.value is not None else None for r in rets]
    if rets and all(v is not None and (match("self._WBS__root.all_children", v) or match("_ImmutableTaskList(self._WBS__root._Task__get_all_children())", v))
                    for v in gvals):
        o.site(g, rets[0], "tasks = root.all_children")
    elif len(rets) == 1 and gvals[0] is not None and (match("self._WBS__root.children", gvals[0]) or match("self.roots", gvals[0])):
        o.refute(g, g.node, 'tasks', "WBS.tasks lists only the top-level tasks, not every member")
    elif any(w.root == 'self' for w in Effects(prog, ctx.typer, ctx.cg).direct_writes(g)):
        w = [w for w in Effects(prog, ctx.typer, ctx.cg).direct_writes(g) if w.root == 'self'][0]
        o.refute(g, w.node, w.node, f"WBS.tasks keeps state on the WBS ({unmangle(w.field)}): a remembered flat list goes stale when the tree changes")
    else:
        o.undecided(g, g.node, 'tasks', "WBS.tasks is not recognisably the root task's all_children")
    h = prog.func('task.Task.__get_all_children')
    if c05_util.flat_list_cache(ctx, o) is not None:
        return
    c05_util.check_enumeration(ctx, o, h)
