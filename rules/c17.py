"""C17 - calendars and the availability search mean exactly what they say.   (DESIGN.md section 5, C17)

Obligations (spec side = the property sentence; today's tree proves all of them, F22-F26 are fixed).  Floors are the
numbers of sites confirmed by reading the tree at /repo cc2b0a3:

  op_table            R10  floor 10  dunder -> combinator class -> arithmetic operator (`+ - * /`), `|` = first positive
                           operand, operands handed over in the written order [self, other]   (5 dunders + 5 folds)
  promotion           R11  floor 6   all five dunders wrap `other` with one helper that turns int/float into
                           FixedCalendar(other) and leaves calendars alone   (5 dunders + the helper)
  combinator_result   R10  floor 4   Sum/Mul/Div return the accumulator unchanged; Sub returns None exactly when nothing
                           contributed or the difference is negative (`< 0`; zero is a value, not "no information")
  fold_siblings       R11  floor 4   the four arithmetic combinators skip exactly the None operands, start from the first
                           informative operand, combine every later one, iterate the constructor's operands in order
                           and ask every operand about the date they were asked about
  validation          R2   floor 5   guard table: weekdays outside 0..6 (list form and dict keys, each on the path that
                           builds the day table from that argument), start > end (Weekly, Fixed), division by the
                           number zero (int and float); all RuntimeError
  units_nonnegative   R3   floor 5   every value stored into calendar state by any method of the class (Weekly day table x2,
                           Fixed units, Direct table in __init__ and set_units) is dominated by a
                           `value < 0 -> raise RuntimeError` test of that same value / of every value of the mapping
  dead_validator      R5   floor 3   every private `__check_*` method has a reachable call site in the reach of its
                           class's __init__ / set_units
  leaf_semantics      R8   floor 8   Weekly: day table[weekday()] inside validity (bounds included, absent bound =
                           unbounded), None outside; table total on 0..6 and = units on configured days / 0 otherwise
                           (both forms); Fixed: units inside, 0 outside; Direct: stored value for midnight(date), None
                           otherwise; constructor and set_units both key by midnight(date) and store the value as given
  none_is_zero        R8   floor 2   Resource.get_available_units: 0 for None, the calendar value otherwise, for the date
                           asked, no state written (a memo is a violation; shared with C03)
  search              R8/R6c floor 7 IResource.get_nearest_availability_date: counter from 0, `while counter < max_days`,
                           forward tests the current date, backward tests date - 1 day, capacity `> 0`, returns the
                           unmodified current date, date += direction days and counter += 1 exactly once on every
                           iteration and after the last use of the date, RuntimeError (and nothing else) after the loop

Scope of the universal quantifiers: op_table looks at *every* return path of a dunder (a shortcut such as
`if other == 1: return self` is refuted; only raises may precede the combinator); none_is_zero and search are evaluated
for every concrete definition of get_available_units / get_nearest_availability_date in IResource and its subclasses:
an override of the search must either be the search loop itself or only delegate to the inherited search with the
caller's start date, direction and max_days unchanged.

Refactoring shapes the rule follows (robustness round): a day table built by a same-class helper that fills a local
dict and returns it (`self.F = K.__build(..)`: stores, guards and loops are read inside the helper, parameters mapped
back to the caller's arguments); the fold loop extracted into a helper parameterised by an operator callable
(`operator.isub`, `operator.sub`, `lambda a, b: a - b`), called as `return H(self.ops, date, op)` or `x = H(..); tail`;
a search that steps a local copy of the start date and probes `date - 1 day if backward else date`.  When the engine's
normaliser folded helpers and the folded shape is not decided, the fold obligations are retried on the tree as written
(`Program(repo, normalise=False)`), and the attempt without UNDECIDED is the one reported.

Round 3 additions.  op_table: conditional expressions in a dunder's return are return paths of their own; a path that
builds the combinator from the left calendar's own operands (`[*self.operands, other]`, chain flattening) is refuted for
`-` (the inner clamp is lost) and undecided for `+ * /`; `K(calendars=[..])` counts as `K([..])`; a return that calls a
helper the rule cannot read is undecided, not refuted.  promotion: the helper may be a method, a module-level function or
written in place (`other if type(other) not in _SCALAR_TYPES else FixedCalendar(other)`, module tuples resolved); each
distinct helper is judged on its own.  fold: the operand list may be stored by an inherited constructor; a fold loop the
combinator inherits (template method: `self._combine(acc, v)` / `self._finish(acc)` hooks, or `super().get_available_units`
plus a clamp) is read with the hooks of the concrete class substituted; `acc = v if acc is None else acc OP v`; the
loop-free spellings `[u for u in (c.get_available_units(date) for c in ops) if u is not None]` + sum / math.prod /
functools.reduce (+ empty -> None, Sub clamp) and `next((u for u in .. if u is not None and u > 0), None)`; `|` with a
result variable and break.  validation / units_nonnegative: guards are also collected from `super().m(..)` and module-level
helpers, in the forms `not all(..)`, `min(X) < 0`, `max(X) > 6`, `set(X) - set(range(7))`, `None not in (start, end)`;
"no guard found" is a refutation only when no call that receives the value was left unread (otherwise undecided); a
value stored inside a table-building helper may be checked by the caller before the call; a table taken from
`state | K.__helper(x)` is followed into the helper; a writer that only delegates (`self.set_units(units)`) is a site.
dead_validator: checks written in place in __init__ / set_units count as sites.  search: when the function is not in
the armed `while counter < max_days` shape, or the shape rule finds fault with it, the function is *evaluated as
written* (c17_util.SearchSim: an ast walk over numbers, day offsets, timedeltas; private helpers entered) for max_days
1..4, both directions and capacity on no / one / two adjacent / all days of the window, against the property sentence.
A deviating input is reported as the counterexample (exit 1); no deviation proves the obligation only if every number
written in the function is 0 or 1 (so that small horizons are representative), else the shape verdict stands.
none_is_zero: a return path that answers from the calendar's internals without calling its get_available_units(date)
is refuted.

Round 4 additions.  "The check comes before the store" (validation, units_nonnegative) is decided by
`_evaluated_before`: plain dominance, or - for a validator spliced / written as `if x is None: pass / else: <check>`
or called up front under the same mode split as the store - the branches that lead to the check are decided before the
store and their outcome follows from the store's path condition (`x is not None` also follows when the store statement
reads `x.attr`).  leaf_semantics: a validity bound compared with the date cut to its day (`_day_start(date)`,
`date.replace(hour=0, ..)`, `date.date()`) instead of the date asked about is refuted.  none_is_zero: a truth test of the
resource's calendar (`calendar or DEFAULT_CALENDAR`, `if not self.calendar`) is refuted when a calendar class defines
__len__ / __bool__ (an empty DirectCalendar would be replaced / ignored); without such a method it is silent.

Round 5 additions.  run_block remembers the plain locals assigned on the executed path, so single-exit spellings
(`available = ..` in every arm of an if/elif/else or overwritten by later ifs, `return available`) are read like the
early-return form; `_value_field` looks through such a local.  A loop-free fold whose operand stream goes through a local
generator is recognised, and `sum(..)` / `prod(..)` of the empty stream is evaluated as 0 / 1 (so `sum(..)` alone and
`sum(..) or None` are refuted: 0 instead of None / None instead of 0).  validation: a zero test applied to the operand
*after* promotion (`FixedCalendar(other) == 0`, no __eq__) is refuted.  SearchSim evaluates generator expressions, list
comprehensions, next(), list subscripts (a search written as `next(d for d in candidates if ..)` without a default is
refuted: StopIteration instead of RuntimeError).

Round 6 additions.  `if c: T[k] = A / else: T[k] = B` (any elif depth) is read as one store of `A if c else B`; the
form a day-table store serves (days list / units_per_day mapping) is taken from its branch (`days is not None` /
`days is None`) before the value is looked at, and an entry that does not read its form's argument (default-then-fill)
is undecided, not refuted.  op_table: a return path that wraps only the left calendar (`self.apply(lambda u: ..)`,
`FuncCalendar(self, ..)`) and maps None to None is refuted (an operand without information must be skipped, so the
result is the number).  SearchSim starts at a time of day (09:00) and evaluates the cut-to-midnight idioms, so a step or
a result that loses the time of day is refuted with the deviating input.

Round 7 additions.  The operand list may be stored by `if calendars is None: self.F = [] / else: self.F = calendars` or
by a default `self.F = []` overwritten under `calendars is not None`.  A local table built as `dict(self.F)` / `self.F.copy()`
+ `.update(..)` and then stored into the field is followed (the copy is the state entry); a local whose construction is not
followed makes units_nonnegative undecided, not refuted.  `|`: an operand value returned after the loop without a `> 0`
test (a "fallback" operand) is refuted.  none_is_zero: answering through an attribute that __init__ derived once from the
calendar argument (`self._units = calendar.get_available_units`, `self._cal = calendar`) while `self.calendar` stays
assignable is refuted (stale alias) unless some other method refreshes the alias.

F40.  In the Div combinator (only there) `raise RuntimeError` for a *divisor* operand whose value is zero (operand value
0 while an accumulator exists, for every accumulator sign) is the diagnosis of an undefined quotient, not "leaving the
fold early"; the fold sites are counted as usual.  Still refuted: returning / continuing on a zero operand, another
exception type, a guard on the accumulator or on `<= 0`, a guard that also rejects a zero *dividend* (first operand),
the same guard in Sum / Sub / Mul; a guard that depends on the accumulator as well is undecided.

Round 8 additions.  midnight(date) is also recognised in the keyword spelling `datetime(year=d.year, month=d.month,
day=d.day[, hour=0 ..])` (c17_util.midnight_arg); a DirectCalendar lookup key that is neither midnight(date) nor a
recognisably wrong spelling (the date itself, `.replace(..)`, `.date()`, a datetime(..) that keeps a time field) is
undecided, not refuted.  units_nonnegative: a writer other than the constructor (or a private writer not only called by
it) that validates and stores entry by entry - the RuntimeError guard and the store into the *live* table sit in the
same loop - is refuted: a rejected definition has already changed the calendar (a loop into a local copy, or after a
check of all values, is fine).  fold: the operator may be a local / module function of two parameters with guards and
`return a OP b` / `return operator.itruediv(a, b)`; its zero-divisor RuntimeError is treated like the in-line F40 guard.

Round 9 additions.  run_block also values `x op= E` on plain locals and hands the tracked locals back (Outcome.local),
so an accumulator update spliced as `tmp = acc; tmp /= v; acc = tmp` is read; an operator function may take extra
arguments.  New fold form: one lazy None-filtered generator, `acc = next(gen, None)`, `for u in gen: acc OP= u`.
DirectCalendar writers: a filtered comprehension is read, and a filter that drops a legal value (0 or positive) is
refuted.  search: the capacity compared with a positive constant other than 0 (a threshold) is refuted.  op_table: a
unary wrapper whose function computes with None (`lambda u: u / other`) is refuted; promotion: `other` handed on
as it is on a path that numbers never reach (an earlier branch took them) is a site, not "unpromoted".  Under C17 only:
a method of Weekly/DirectCalendar that returns the internal table itself (no copy) is refuted (leaf_semantics).

Round 10 additions.  validation: WeeklyCalendar's scalar `units_per_day` must itself be tested `< 0 -> RuntimeError`
(a check of the entries of a table built from it is vacuous for `days=[]`); missing -> refuted under the usual closed-world
condition.  search override: a raise on the way to the delegation whose condition consults neither the capacity nor the
direction is refuted ("raises without searching"); one that does is undecided.

Round 11 additions.  op_table: a calendar class that overrides one of the five dunders must hand on to the inherited
operator (`return super().__or__(other)`); an override that changes the state of an operand (`self.ops.append(other);
return self`: the already derived `a | b` becomes `a | b | c`) or returns an operand itself is refuted, any other override
is undecided.  validation: the start/end test may be written on the difference - `(start - end).total_seconds() > 0`,
`start - end > timedelta(0)`, `(end - start).days < 0` are `start > end`; `(start - end).days > 0` / `>= 1` (whole days,
rounded down) is refuted: a start after the end by less than 24 hours is accepted.  none_is_zero (C17 only): a resource
constructor that keeps `calendar.clone()` is followed into the clone method; a copy built without a field that the
class's get_available_units reads (WeeklyCalendar.clone: no start / end) is refuted, other derived objects are undecided,
copy.copy / deepcopy are faithful.  fold: operands consumed through a generator function (`for u in _known_units(self.ops,
date):`) are read with the generator's loop written in place (c17_util.inline_stream_generators, a re-parsed tree: line
numbers of such sites are those of the rewritten text).  DirectCalendar lookup by `try: return T[k] / except KeyError:`
is read as `if k in T`.  c17_util.cnf distributes `A or (B and C)`, so merged mode tests
(`not (days is not None and (type(u) is float or type(u) is int))`) stay mode clauses.

The decision procedures evaluate the (loop free) blocks over finite abstract domains (see c17_util): unit values by
sign class {None, <0, 0, >0}, dates by their position against a validity interval, direction in {-1, +1}.

Not decided: float arithmetic; a divisor *calendar* that yields 0 on some date (ZeroDivisionError at query time - the
property only speaks of the number zero); time-of-day comparisons against day-precision bounds (the code's `<` / `>`
are taken as "inside their validity", bounds included); FuncCalendar / apply; that the unit fields are only written by
methods of their own class (R1, C06 territory); merge-vs-replace and override order of DirectCalendar.set_units;
the meaning of `max_days <= 0`; date arithmetic that overflows datetime.min/max for huge horizons (C17-r83: the end of the
search window computed eagerly - library range semantics, not a shape); a search with numbers other than 0 / 1 in it (`timedelta(hours=24)`) that is not in
the armed shape ends UNDECIDED; chain flattening of `+ * /` (value preserving, not proved) ends UNDECIDED.

Engine limitations worked around in rules/c17_util.py: `cfg.enclosing_fors` / `facts.guards_of` lose the loop binders
of a `raise` (a raise cannot reach the loop header again) -> `fors_around` (syntactic); multi-statement validators are
not inlined by `Expander` -> `guard_facts` instantiates the helper's raises at the call site; path conditions that only
say "an earlier guard did not fire" -> `live_conditions(drop_raising=True)`; `pat.same` needs contexts, so patterns are
built by parsing text (`_e`).
"""
from __future__ import annotations

import ast
import itertools

from sa import facts
from sa.cfg import cfg_of
from sa.effects import Effects
from sa.flow import flow_of, Expander
from sa.model import walk_no_nested, src, unmangle
from sa.pat import match, same, names_in
from . import c17_util as U
from .c17_util import Ev, run_block


def _e(text: str) -> ast.AST:
    return ast.parse(text, mode='eval').body


OPS = {'__add__': ast.Add, '__sub__': ast.Sub, '__mul__': ast.Mult, '__truediv__': ast.Div, '__or__': None}
SYM = {ast.Add: '+', ast.Sub: '-', ast.Mult: '*', ast.Div: '/', ast.FloorDiv: '//', ast.Mod: '%', ast.Pow: '**',
       ast.BitOr: '|'}
SIGNS = (None, -1, 0, 1)
SIGN_NAME = {None: 'None', -1: 'negative', 0: 'zero', 1: 'positive'}


def check(ctx):
    prog = ctx.prog
    ctx.assume("operand calendars honour get_available_units as a function of the date; custom IWorkCalendar subclasses are out of scope")
    ctx.assume("direction is +1 or -1 (documented domain of get_nearest_availability_date)")
    table = _dunders(ctx)
    _folds(ctx, table)
    _validation(ctx)
    _nonneg(ctx)
    _dead_validators(ctx)
    _leaf_semantics(ctx)
    _none_zero(ctx)
    _search(ctx)


# ====================================================================================================== dunders
def _ret_leaves(v, conds=()):
    """value leaves of a (possibly nested) conditional expression with the tests that select them"""
    if isinstance(v, ast.IfExp):
        return _ret_leaves(v.body, conds + ((v.test, True),)) + _ret_leaves(v.orelse, conds + ((v.test, False),))
    return [(conds, v)]


def _splices_self(L, selfname):
    """the operand list handed to a combinator is built from the *operands of* self (`[*self.x, b]`, `self.x + [b]`,
    `list(self.x) + [b]`) instead of from self: the expression node that does it, else None"""
    def own_part(x):
        return any(isinstance(n, ast.Attribute) and _name(n.value, selfname) for n in ast.walk(x))
    if isinstance(L, (ast.List, ast.Tuple)):
        for e in L.elts:
            if isinstance(e, ast.Starred) and own_part(e.value):
                return e
        return None
    if isinstance(L, ast.BinOp) and isinstance(L.op, ast.Add):
        for side in (L.left, L.right):
            if not isinstance(side, (ast.List, ast.Tuple)) and own_part(side):
                return side
            r = _splices_self(side, selfname)
            if r is not None:
                return r
    return None


def _maps_left_only(v, selfname):
    """`self.apply(<lambda of one argument>)` / `FuncCalendar(self, <lambda>)` -> the lambda"""
    m = match("$s.apply($fn)", v) or match("FuncCalendar($s, $fn)", v)
    if m and _name(m['s'], selfname) and isinstance(m['fn'], ast.Lambda) and len(m['fn'].args.args) == 1:
        return m['fn']
    return None


def _is_helper_call(prog, f, v):
    """a call of a function of the package that is not a class (something the rule would have to look into)"""
    if not isinstance(v, ast.Call):
        return False
    fn = v.func
    if isinstance(fn, ast.Name):
        return fn.id not in prog.classes and (prog.module_func(f.module.name, fn.id) is not None
                                              or prog.resolve_import(f.module, fn.id) is not None)
    if isinstance(fn, ast.Attribute) and isinstance(fn.value, ast.Name):
        return fn.value.id in (f.params[0] if f.params else 'self', 'cls') or fn.value.id in prog.classes
    return isinstance(fn, ast.Attribute) and isinstance(fn.value, ast.Call) and _name(fn.value.func, 'super')


def _dunders(ctx):
    """op_table part 1 + promotion.  returns {dunder: (class name, return node)}"""
    prog = ctx.prog
    o = ctx.ob('op_table', 'R10', "`+ - * / |` build the combinator whose per-date fold applies that operator "
               "(| = first positive operand) to [self, other] in this order", floor=10)
    op = ctx.ob('promotion', 'R11', "all five operator dunders promote `other` through one helper that maps int/float to "
                "FixedCalendar(other) and leaves calendars alone", floor=6)
    table = {}
    helpers = {}
    inline = {}

    def body(o):
        for d in OPS:
            f = prog.func('calendar.IWorkCalendar.' + d)
            ex = Expander(prog, f, ctx.typer, inline=False)
            exi = Expander(prog, f, ctx.typer)
            allrets = [n for n in walk_no_nested(f.node) if isinstance(n, ast.Return)]

            def comb(vv):
                if isinstance(vv, ast.Call) and not vv.args and len(vv.keywords) == 1 and vv.keywords[0].arg is not None:
                    vv = ast.Call(func=vv.func, args=[vv.keywords[0].value], keywords=[])      # K(calendars=[..])
                mm = match("$K([$a, $b])", vv) or match("$K(($a, $b))", vv)
                if mm and isinstance(mm['K'], ast.Name) and mm['K'].id in prog.classes and \
                        not isinstance(mm['a'], ast.Starred) and not isinstance(mm['b'], ast.Starred):
                    return mm
                return None
            # every return path (conditional expressions count as paths) must build the combinator: a shortcut
            # (`return self`, `return other`, a constant ..) makes the result differ from "the operator applied to the
            # operands' values" on some date
            paths = []
            for r in allrets:
                vv0 = ex.expand(r.value) if r.value is not None else ast.Constant(value=None)
                for conds, vv in _ret_leaves(vv0):
                    paths.append((r, conds, vv, comb(vv)))
            building = [(r, mm) for r, _, _, mm in paths if mm is not None]
            shortcut = False
            for r, lconds, vv, mm in paths:
                if mm is not None:
                    continue
                conds = U.path_clauses(prog, f, r, ctx.typer, drop_raising=True)
                for t, pol in lconds:
                    conds = conds + U.cnf(t, pol)
                when = (" when " + ' and '.join(U.clause_text(c) for c in conds)) if conds else ''
                mk = match("$K($L)", vv)
                if mk is None and isinstance(vv, ast.Call) and not vv.args and len(vv.keywords) == 1 and vv.keywords[0].arg is not None:
                    mk = {'K': vv.func, 'L': vv.keywords[0].value}
                is_k = mk is not None and isinstance(mk['K'], ast.Name) and mk['K'].id in prog.classes and \
                    any(c.name == 'IWorkCalendar' for c in prog.mro(mk['K'].id)) and mk['K'].id != 'FixedCalendar'
                sp = _splices_self(mk['L'], f.params[0]) if mk and isinstance(mk['K'], ast.Name) and mk['K'].id in prog.classes else None
                if sp is not None:
                    # an n-ary node built from the left calendar's own operands: only harmless when the combinator's
                    # result is its plain fold (no clamp between the inner and the outer operator)
                    if OPS[d] is ast.Sub:
                        o.refute(f, r, sp, f"`{d}` splices the operands of the left calendar into the new {mk['K'].id} (`{src(mk['L'])[:60]}`)"
                                 f"{when}: `(a - b) - c` becomes one n-ary subtraction, so a negative inner difference is no longer "
                                 f"'no capacity' (skipped) for the outer `-`; the result must be the operator applied to both operands' values")
                    else:
                        o.undecided(f, r, sp, f"`{d}` builds {mk['K'].id} from the left calendar's own operands (`{src(mk['L'])[:60]}`){when} "
                                              f"instead of [self, other]")
                elif _maps_left_only(vv, f.params[0]) is not None:
                    # `self.apply(lambda u: ..)` / FuncCalendar(self, lambda u: ..): a unary wrapper of the left operand
                    lam = _maps_left_only(vv, f.params[0])
                    u = _e(lam.args.args[0].arg)
                    try:
                        leaf = Ev([(u, None, 'sign')]).select(lam.body)
                    except (U.Unknown, U.WouldRaise):
                        leaf = None
                    if isinstance(leaf, ast.Constant) and leaf.value is None:
                        o.refute(f, r, r, f"`{d}` wraps only the left calendar (`{src(vv)[:60]}`){when}: on a date where the left calendar "
                                          f"has no information the result is None, but an operand without information is skipped, so the "
                                          f"result must be the number (the operator applied to [self, FixedCalendar({f.params[1]})])")
                    elif isinstance(leaf, ast.BinOp) and (_name(leaf.left, lam.args.args[0].arg) or _name(leaf.right, lam.args.args[0].arg)):
                        o.refute(f, r, r, f"`{d}` wraps only the left calendar (`{src(vv)[:60]}`){when}: on a date where the left calendar "
                                          f"has no information the function computes `{src(leaf)}` with None (TypeError), but an operand "
                                          f"without information is skipped, so the result must be the number")
                    else:
                        o.undecided(f, r, r, f"`{d}` returns the unary wrapper `{src(vv)[:60]}`{when} instead of a combinator")
                elif _is_helper_call(prog, f, vv):
                    o.undecided(f, r, r, f"`{d}` returns `{src(vv)[:60]}`{when}: a helper the rule cannot look into")
                elif is_k and not (isinstance(mk['L'], (ast.List, ast.Tuple)) and not any(isinstance(e, ast.Starred) for e in mk['L'].elts)):
                    o.undecided(f, r, r, f"`{d}` builds {mk['K'].id} from `{src(mk['L'])[:60]}`{when}: not a literal [self, other]")
                elif isinstance(vv, (ast.Name, ast.Constant, ast.Attribute)) or (isinstance(vv, ast.Call) and not building):
                    o.refute(f, r, r, f"`{d}` has a return path that does not build the combinator from [self, promoted other]: "
                                      f"it returns `{src(vv)[:50]}`" + when
                             + "; for every date the result must be the operator applied to both operands' values "
                               "(e.g. a date without information on the left no longer yields the constant)")
                else:
                    o.undecided(f, r, r, f"`{d}` returns `{src(vv)[:60]}` on one path")
                shortcut = True
            if not building:
                if not shortcut:
                    o.undecided(f, f.node, d, "operator does not return Combinator([self, other])")
                continue
            if len({mm['K'].id for _, mm in building}) > 1:
                o.refute(f, f.node, d, f"`{d}` builds different combinators on different paths: " +
                         ', '.join(sorted({mm['K'].id for _, mm in building})))
                continue
            rets = [building[0][0]]
            m = building[0][1]
            if len(building) > 1 and not all(same(mm['a'], m['a']) and same(mm['b'], m['b']) for _, mm in building):
                o.undecided(f, f.node, d, "operator builds its combinator differently on different paths")
                continue
            K = m['K'].id
            if not any(c.name == 'IWorkCalendar' for c in prog.mro(K)):
                o.refute(f, rets[0], rets[0], f"`{d}` returns {K}, which is not a calendar")
                continue
            other = f.params[1]
            a, b = m['a'], m['b']

            def is_self(x):
                return isinstance(x, ast.Name) and x.id == f.params[0]

            def promoted(x):
                mm = match("$r.$h($x)", x)
                if mm and isinstance(mm['x'], ast.Name) and mm['x'].id == other and isinstance(x.func.value, ast.Name) \
                        and x.func.value.id in (f.params[0], 'IWorkCalendar'):
                    return prog.find_method('IWorkCalendar', unmangle(x.func.attr))
                mm = match("$h($x)", x)
                if mm and isinstance(mm['h'], ast.Name) and isinstance(mm['x'], ast.Name) and mm['x'].id == other \
                        and mm['h'].id not in prog.classes:
                    return prog.module_func(f.module.name, mm['h'].id)
                return None

            swapped = False
            if is_self(b) and not is_self(a):
                a, b, swapped = b, a, True
            if not is_self(a):
                o.refute(f, rets[0], rets[0], f"`{d}`: the left operand handed to {K} is `{src(a)}`, not the calendar itself")
                continue
            if swapped and OPS[d] not in (ast.Add, ast.Mult):
                o.refute(f, rets[0], rets[0], f"`{d}` hands its operands to {K} in the order [other, self]: "
                                              f"`a {SYM.get(OPS[d], '|')} b` would be evaluated as `b {SYM.get(OPS[d], '|')} a`")
                continue
            table[d] = (K, f, rets[0])
            if not shortcut:
                o.site(f, rets[0], f"{d} -> {K}([self, other])")
            h = promoted(b)
            if h is not None:
                helpers[d] = h
                op.site(f, rets[0], f"{d}: {h.name}(other)")
            elif isinstance(b, ast.Name) and b.id == other and any(
                    len(cl) == 1 and (_type_atom(cl[0][0], cl[0][1], other, _module_consts(prog, f.module)) or (set(), True))[1] is False
                    and {'int', 'float'} <= _type_atom(cl[0][0], cl[0][1], other, _module_consts(prog, f.module))[0]
                    for cl in U.path_clauses(prog, f, rets[0], ctx.typer)):
                # numbers never reach this path (an earlier branch took them): `other` is a calendar here and stays as it is;
                # what the number branch returns is judged by op_table
                op.site(f, rets[0], f"{d}: `other` is not a number on this path")
            elif isinstance(b, ast.Name) and b.id == other:
                op.refute(f, rets[0], rets[0], f"`{d}` passes `other` unpromoted: a number is not turned into a constant calendar")
            else:
                # the promotion written in place (or a helper folded by the normaliser): judge the expression itself
                bx = exi.expand(b)
                if names_in(bx) - {'type', 'isinstance', 'int', 'float', 'FixedCalendar', 'bool', 'complex', 'Number', 'numbers'} - \
                        set(_module_consts(prog, f.module)) <= {other} and U.mentions(bx, other):
                    inline[d] = (f, rets[0], bx)
                else:
                    op.undecided(f, rets[0], b, "right operand is neither `other` nor helper(other)")
        judged = {}
        for d, h in helpers.items():
            if h.qual not in judged:
                judged[h.qual] = True
                _promotion_helper(ctx, op, h)
        seen = []
        for d, (f, r, bx) in inline.items():
            prev = next((x for x in seen if same(x[0], bx) and x[1] == f.params[1]), None)
            if prev is None:
                seen.append((bx, f.params[1]))
                items = [(r, [c for t, pol in conds for c in U.cnf(t, pol)], v) for conds, v in _ret_leaves(bx)]
                _judge_promotion(ctx, op, f, items, f.params[1], r, d)
            op.site(f, r, f"{d}: promotion written in place")
        _dunder_overrides(ctx, o)
    ctx.guarded(o, body)
    return table


def _dunder_overrides(ctx, o):
    """the operator table holds for every calendar: a calendar class of the package that defines one of the five
    dunders itself (an override of IWorkCalendar's) must hand on to the inherited operator with the operand unchanged.
    Recognised wrong shapes: the override changes the state of an operand (`self.ops.append(other); return self` - the
    existing calendar `a | b` silently becomes `a | b | c`), or returns an operand itself instead of a new calendar."""
    prog = ctx.prog
    eff = Effects(prog, ctx.typer, ctx.cg)
    for ci in prog.subclasses('IWorkCalendar'):
        for d in OPS:
            f = ci.methods.get(d)
            if f is None or len(f.params) != 2 or _is_abstract_stub(f):
                continue
            me, other = f.params
            sym = SYM.get(OPS[d], '|')
            bad = False
            for w in eff.direct_writes(f):
                who = 'left' if w.root == 'self' else 'right' if w.root == 'param:' + other else None
                if who is None:
                    if w.root not in ('fresh',):
                        o.undecided(f, w.node, w.node, f"{ci.name}.{d} writes state ({unmangle(w.field)}) of an object the rule cannot place")
                        bad = True
                    continue
                o.refute(f, w.node, w.node, f"{ci.name}.{d} changes the state of its {who} operand (`{src(w.node)[:70]}`, field "
                                            f"{unmangle(w.field)}): `x {sym} y` must build a new calendar whose value is the operator applied to "
                                            f"both operands' values and leave x and y as they are - here a calendar that was already derived "
                                            f"(`base = a {sym} b`) answers differently after `base {sym} c` was evaluated")
                bad = True
            if bad:
                continue
            ex = Expander(prog, f, ctx.typer, inline=False)
            rets = [n for n in walk_no_nested(f.node) if isinstance(n, ast.Return)]
            fine = bool(rets)
            for r in rets:
                for _, leaf in _ret_leaves(ex.expand(r.value) if r.value is not None else ast.Constant(value=None)):
                    m = match(f"super().{d}($x)", leaf) or match(f"super({ci.name}, {me}).{d}($x)", leaf)
                    m2 = match(f"IWorkCalendar.{d}($s, $x)", leaf)
                    if (m and _name(m['x'], other)) or (m2 and _name(m2['s'], me) and _name(m2['x'], other)):
                        continue
                    fine = False
                    if _name(leaf, me) or _name(leaf, other) or isinstance(leaf, ast.Constant):
                        o.refute(f, r, r, f"{ci.name}.{d} returns `{src(leaf)}` instead of a new calendar built from [self, {other}]: for every date "
                                          f"`x {sym} y` must yield the operator applied to both operands' values")
                    else:
                        o.undecided(f, r, r, f"{ci.name} overrides {d} and returns `{src(leaf)[:60]}`: an operator of its own, not followed")
            if fine:
                o.site(f, f.node, f"{ci.name}.{d} hands on to the inherited operator")


def _module_consts(prog, module):
    """{name: value ast} of the simple top-level assignments of a module"""
    out = {}
    for st in module.tree.body:
        if isinstance(st, ast.Assign) and len(st.targets) == 1 and isinstance(st.targets[0], ast.Name):
            out[st.targets[0].id] = st.value
        elif isinstance(st, ast.AnnAssign) and isinstance(st.target, ast.Name) and st.value is not None:
            out[st.target.id] = st.value
    return out


def _type_atom(a, pol, var, consts):
    """atom as a test of the type of var: (type names, True = 'type is one of them' / False = 'type is none of them')"""
    while isinstance(a, ast.UnaryOp) and isinstance(a.op, ast.Not):
        a, pol = a.operand, not pol

    def tnames(t):
        if isinstance(t, ast.Name) and t.id in consts:
            t = consts[t.id]
        if isinstance(t, (ast.List, ast.Tuple, ast.Set)):
            return {src(x) for x in t.elts}
        m = match("frozenset($x)", t) or match("set($x)", t) or match("tuple($x)", t)
        if m:
            return tnames(m['x'])
        return {src(t)}
    for pat, member, coll in (("type($x) in $l", True, True), ("type($x) not in $l", False, True),
                              ("isinstance($x, $l)", True, True), ("type($x) is $l", True, False),
                              ("type($x) == $l", True, False), ("type($x) is not $l", False, False),
                              ("type($x) != $l", False, False)):
        m = match(pat, a)
        if m and src(m['x']) == var:
            names = tnames(m['l']) if coll else {src(m['l'])}
            return names, (member == pol)
    return None


def _num_types(cl, var, consts=None):
    """type names a clause (a disjunction of atoms) accepts for var; None if the clause is not a pure positive type test"""
    got = set()
    for a, pol in cl:
        ta = _type_atom(a, pol, var, consts or {})
        if ta is None or not ta[1]:
            return None
        got |= ta[0]
    return got


def _judge_promotion(ctx, op, hf, items, p, anchor, label):
    """items: [(report node, clauses of the path, value)] - the values the promotion of `p` can take"""
    consts = _module_consts(ctx.prog, hf.module)
    wrapped = passed = False
    for r, cls, v in items:
        m = match("FixedCalendar($x)", v)
        if m:
            if not (isinstance(m['x'], ast.Name) and m['x'].id == p):
                op.refute(hf, r, v, f"a number is promoted to `{src(v)}`, not to the constant calendar FixedCalendar({p})")
                return
            pos = [c for c in cls if _num_types(c, p, consts) is not None]
            rest = [c for c in cls if _num_types(c, p, consts) is None]
            neg = [c for c in rest if len(c) == 1 and (_type_atom(c[0][0], c[0][1], p, consts) or (None, True))[1] is False]
            types = set().union(*[_num_types(c, p, consts) for c in pos]) if pos else set()
            if not pos and neg and {'int', 'float'} & _type_atom(neg[0][0][0], neg[0][0][1], p, consts)[0]:
                op.refute(hf, r, v, f"the constant calendar is built when {U.clause_text(neg[0])}: numbers are not promoted "
                                    f"(and calendars are wrapped instead)")
                return
            if rest or not pos:
                op.undecided(hf, r, v, "promotion is conditional on something else than the operand's type")
                return
            if not {'int', 'float'} <= types:
                op.refute(hf, r, v, f"only {sorted(types)} operands are promoted: int and float must both act as constant calendars")
                return
            wrapped = True
        elif isinstance(v, ast.Name) and v.id == p:
            passed = True
        elif isinstance(v, ast.Call) and getattr(v.func, 'id', '') == 'FixedCalendar':
            op.refute(hf, r, v, f"a number is promoted to `{src(v)}`, not to the unbounded constant calendar FixedCalendar({p})")
            return
        else:
            op.undecided(hf, r, v, f"promotion yields `{src(v)[:60]}`")
            return
    if wrapped and passed:
        op.site(hf, anchor, f"{label}: int/float -> FixedCalendar(other), calendars unchanged")
    elif not wrapped:
        op.refute(hf, anchor, label, "the promotion never builds FixedCalendar(other): numbers are not promoted")
    else:
        op.undecided(hf, anchor, label, "promotion does not return calendars unchanged")


def _promotion_helper(ctx, op, hf):
    prog = ctx.prog
    p = hf.params[-1]
    ex = Expander(prog, hf, ctx.typer, inline=False)
    rets = [n for n in walk_no_nested(hf.node) if isinstance(n, ast.Return)]
    items = []
    for r in rets:
        base = U.path_clauses(prog, hf, r, ctx.typer)
        for conds, v in _ret_leaves(ex.expand(r.value) if r.value is not None else ast.Constant(value=None)):
            items.append((r, base + [c for t, pol in conds for c in U.cnf(t, pol)], v))
    _judge_promotion(ctx, op, hf, items, p, hf.node, hf.name)


# ====================================================================================================== combinators
def _loop_split(f):
    """(pre, for, tail) when the function body is `pre; for ..: ..; tail` at top level"""
    body = [s for s in f.body if not (isinstance(s, ast.Expr) and isinstance(s.value, ast.Constant))]
    fors = [i for i, s in enumerate(body) if isinstance(s, ast.For)]
    loops = [n for n in walk_no_nested(f.node) if isinstance(n, (ast.For, ast.While))]
    if len(fors) != 1 or len(loops) != 1 or body[fors[0]].orelse:
        return None
    i = fors[0]
    return body[:i], body[i], body[i + 1:]


class _Deleg:
    """the fold loop lives in a helper g called from K.get_available_units (tf): sub maps g's parameters to tf's
    expressions, tacc is the local of tf that receives the helper's result (None: returned directly), ktail the
    statements of tf after the call"""

    def __init__(self, tf, sub, tacc, ktail, call):
        self.tf, self.sub, self.tacc, self.ktail, self.call = tf, sub, tacc, ktail, call


def _fold_helper(ctx, f):
    """K.get_available_units = `return H(self.ops, date, op)` or `x = H(..); <tail over x>` with H holding the loop"""
    from sa.flow import subst
    body = [st for st in f.body if not (isinstance(st, ast.Expr) and isinstance(st.value, ast.Constant))
            and not isinstance(st, ast.FunctionDef)]          # a local operator function is read where it is used
    if not body:
        return None
    st = body[0]
    if isinstance(st, ast.Return) and isinstance(st.value, ast.Call) and len(body) == 1:
        call, tacc, ktail = st.value, None, []
    elif isinstance(st, ast.Assign) and len(st.targets) == 1 and isinstance(st.targets[0], ast.Name) and isinstance(st.value, ast.Call):
        call, tacc, ktail = st.value, st.targets[0].id, body[1:]
        if any(isinstance(n, (ast.Assign, ast.AugAssign)) and any(_name(t, tacc) for t in (n.targets if isinstance(n, ast.Assign) else [n.target]))
               for x in ktail for n in ast.walk(x)):
            return None
    else:
        return None
    g = None
    if isinstance(call.func, ast.Name):
        tg = [t for t in ctx.typer.resolve_name_call(call.func.id, f) if t.kind == 'function']
        g = tg[0] if len(tg) == 1 else None
    else:
        g = U.helper_of(ctx.prog, f, call)
    if g is None or _loop_split(g) is None or any(isinstance(a, ast.Starred) for a in call.args):
        return None
    ex = Expander(ctx.prog, f, ctx.typer)
    cn = cfg_of(f).node_of(st)
    params = list(g.params)[1:] if g.kind == 'method' else list(g.params)
    sub = {p: ex.expand(a, cn) for p, a in zip(params, facts.bound_args(call, g)) if a is not None}
    if g.kind == 'method':
        sub[g.params[0]] = _e(f.params[0])
    return g, _Deleg(f, sub, tacc, ktail, call)


def _op_of_callable(fn, H):
    """binary operator denoted by a callable expression: operator.isub / operator.sub / lambda a, b: a - b / a helper
    parameter bound to one of those.  -> (ast operator class, swapped) or None"""
    if isinstance(fn, ast.Name) and H is not None and fn.id in H.sub:
        fn = H.sub[fn.id]
    names = {'add': ast.Add, 'iadd': ast.Add, 'sub': ast.Sub, 'isub': ast.Sub, 'mul': ast.Mult, 'imul': ast.Mult,
             'truediv': ast.Div, 'itruediv': ast.Div, 'floordiv': ast.FloorDiv, 'ifloordiv': ast.FloorDiv,
             'mod': ast.Mod, 'imod': ast.Mod, 'pow': ast.Pow, 'ipow': ast.Pow, '__add__': ast.Add, '__sub__': ast.Sub,
             '__mul__': ast.Mult, '__truediv__': ast.Div}
    if isinstance(fn, ast.Attribute) and _name(fn.value, 'operator') and fn.attr in names:
        return names[fn.attr], False
    if isinstance(fn, ast.Name) and fn.id in names and not fn.id.startswith('__'):
        return names[fn.id], False           # from operator import isub
    if isinstance(fn, ast.Lambda) and len(fn.args.args) == 2 and isinstance(fn.body, ast.BinOp):
        a, b = fn.args.args[0].arg, fn.args.args[1].arg
        if _name(fn.body.left, a) and _name(fn.body.right, b):
            return type(fn.body.op), False
        if _name(fn.body.left, b) and _name(fn.body.right, a):
            return type(fn.body.op), True
    return None


class _KExpander(Expander):
    """Expander for a fold loop that a combinator class K *inherits* (template method): calls of hook methods on self
    (`self._combine(acc, value)`, `self._finish(acc)`) are replaced by the body of K's own definition of the hook
    when that is one returned expression over its parameters."""

    def __init__(self, prog, func, typer, K):
        super().__init__(prog, func, typer)
        self.K = K

    def expand(self, expr, at=None, **kw):
        v = super().expand(expr, at, **kw)
        return self._hooks(v, 0) if v is not None else v

    def _hooks(self, v, depth):
        from sa.flow import subst
        prog, K, me = self.prog, self.K, self.func.params[0] if self.func.params else 'self'
        outer = self

        class T(ast.NodeTransformer):
            def visit_Call(self, c):
                self.generic_visit(c)
                fn = c.func
                if not (isinstance(fn, ast.Attribute) and _name(fn.value, me)) or depth > 3:
                    return c
                h = prog.find_method(K, unmangle(fn.attr))
                if h is None or h.kind not in ('method', 'static') or h.qual == outer.func.qual:
                    return c
                body = [st for st in h.body if not (isinstance(st, ast.Expr) and isinstance(st.value, ast.Constant))]
                if len(body) != 1 or not isinstance(body[0], ast.Return) or body[0].value is None:
                    return c
                if any(isinstance(a, ast.Starred) for a in c.args) or any(k.arg is None for k in c.keywords):
                    return c
                params = list(h.params)[1:] if h.kind == 'method' else list(h.params)
                sub = {p: a for p, a in zip(params, facts.bound_args(c, h, drop_self=(h.kind == 'method'))) if a is not None}
                if set(params) - set(sub):
                    return c
                if h.kind == 'method':
                    sub[h.params[0]] = _e(me)
                return outer._hooks(subst(body[0].value, sub), depth + 1)
        import copy
        return T().visit(copy.deepcopy(v))


def _fold_expander(prog, f, typer, K):
    return _KExpander(prog, f, typer, K) if f.cls and f.cls != K else Expander(prog, f, typer)


class _Anchor:
    """stands in for a `for` statement when the operands are iterated by a comprehension"""

    def __init__(self, node, it):
        self.node, self.iter, self.expanded = node, it, it


def _callable_def(prog, f, fn, H):
    """the package function a callable expression names: a def nested in f (or in the method that delegates to the fold
    helper), or a module-level function of the same module"""
    owner = f
    if isinstance(fn, ast.Name) and H is not None and fn.id in H.sub:
        fn, owner = H.sub[fn.id], H.tf
    if not isinstance(fn, ast.Name):
        return None
    g = prog.funcs.get(owner.qual + '.' + fn.id)
    if g is None:
        g = prog.module_func(owner.module.name, fn.id)
    if g is None or g.node.args.vararg or g.node.args.kwarg or g.node.args.kwonlyargs:
        return None
    return g


def _field_iter(ctx, o, f, loop, K, H=None):
    """the loop iterates the operand list stored by K.__init__, in order.  returns True when recognised and fine"""
    prog = ctx.prog
    ex = Expander(prog, f, ctx.typer)
    if isinstance(loop, _Anchor):
        it, loop = loop.expanded, loop.node
    else:
        it = ex.expand(loop.iter, cfg_of(f).node_of(loop))
    if H is not None:
        from sa.flow import subst
        it = subst(it, H.sub)
    selfname = (H.tf if H is not None else f).params[0]
    m = match("list($x)", it) or match("tuple($x)", it) or match("iter($x)", it)
    core = m['x'] if m else it
    if match("reversed($x)", core) or (isinstance(core, ast.Subscript) and isinstance(core.slice, ast.Slice)):
        o.refute(f, loop, it, f"{K} folds `{src(it)}`: operands are dropped or taken out of order")
        return False
    if not (isinstance(core, ast.Attribute) and isinstance(core.value, ast.Name) and core.value.id == selfname):
        o.undecided(f, loop, it, "the fold does not iterate a field of the combinator")
        return False
    field = core.attr
    init = prog.find_method(K, '__init__')          # the class's own constructor or the one it inherits
    if init is None:
        o.undecided(f, loop, K, "combinator without a constructor in the package")
        return False
    stores = facts.attr_stores(init, field)
    if len(stores) > 1 and len(init.params) >= 2:
        # `if calendars is None: self.F = [] / else: self.F = calendars`: stores of an empty literal on the "no operand
        # list given" path do not count
        def empty_on_none(st):
            v = st[2]
            if not ((isinstance(v, (ast.List, ast.Tuple)) and not v.elts) or match("list()", v) or match("tuple()", v)):
                return False
            def under(stmt, is_none):
                return any(len(cl) == 1 and (U.none_atom(*cl[0]) or (None, None))[1] is is_none and _name(U.none_atom(*cl[0])[0], init.params[1])
                           for cl in U.path_clauses(prog, init, stmt, ctx.typer))
            if under(st[0], True):
                return True
            # a default that is overwritten when an operand list is given: `self.F = []; if calendars is not None: self.F = calendars`
            cfg_ = cfg_of(init)
            others = [x for x in stores if x is not st and not ((isinstance(x[2], (ast.List, ast.Tuple)) and not x[2].elts))]
            return len(others) == 1 and under(others[0][0], False) and cfg_.node_of(st[0]) is not None and \
                cfg_.node_of(others[0][0]) is not None and cfg_.dominates(cfg_.node_of(st[0]), cfg_.node_of(others[0][0]))
        stores = [st for st in stores if not empty_on_none(st)]
    if len(stores) != 1 or len(init.params) < 2:
        o.undecided(init, init.node, field, "operand list is not stored exactly once by __init__")
        return False
    p = init.params[1]
    exi = Expander(prog, init, ctx.typer)
    v = exi.expand(stores[0][2])
    try:
        leaf = Ev([(_e(p), 'X', 'exact')]).select(v)
    except (U.Unknown, U.WouldRaise):
        leaf = None
    m = leaf is not None and (match("list($x)", leaf) or match("tuple($x)", leaf))
    core = m['x'] if m else leaf
    if isinstance(core, ast.Name) and core.id == p:
        return True
    if leaf is not None and (match("reversed($x)", core) or isinstance(core, ast.Subscript) or match("sorted($*x)", core)):
        o.refute(init, stores[0][0], stores[0][2], f"{K} stores `{src(v)}`: operands are dropped or reordered")
        return False
    o.undecided(init, stores[0][0], stores[0][2], "stored operand list is not the constructor argument")
    return False


def _elem_call(ctx, o, f, loop, H=None):
    """pattern of the per-operand value `c.get_available_units(date)`; None (after a verdict) when not in that shape"""
    tgt = loop.target
    if not isinstance(tgt, ast.Name) or len(f.params) < 2:
        o.undecided(f, loop, loop.target, "loop target is not a name")
        return None
    date = (H.tf if H is not None else f).params[1]
    calls = [c for st in loop.body for c in ast.walk(st) if isinstance(c, ast.Call) and isinstance(c.func, ast.Attribute)
             and c.func.attr == 'get_available_units']
    if len(calls) != 1:
        o.undecided(f, loop, loop, f"{len(calls)} operand queries per iteration")
        return None
    c = calls[0]
    ex = Expander(ctx.prog, f, ctx.typer)
    arg = ex.expand(c.args[0]) if len(c.args) == 1 and not c.keywords else None
    if not (isinstance(c.func.value, ast.Name) and c.func.value.id == tgt.id):
        o.undecided(f, c, c, "operand query is not made on the loop variable")
        return None
    if arg is None:
        o.undecided(f, c, c, "operand query has an unexpected argument list")
        return None
    seen = arg
    if H is not None:
        from sa.flow import subst
        if not isinstance(arg, ast.Name):
            o.refute(f, c, c, f"operands are asked about `{src(arg)}` instead of the date the combinator was asked about")
            return None
        seen = subst(arg, H.sub)
    if not (isinstance(seen, ast.Name) and seen.id == date):
        o.refute(f, c, c, f"operands are asked about `{src(seen)}` instead of the date `{date}` the combinator was asked about")
        return None
    return _e(f"{tgt.id}.get_available_units({src(arg)})")


# ------------------------------------------------------------------------------------------ folds without a loop
def _operand_stream(comp, date):
    """`[u for u in (c.get_available_units(date) for c in IT) if u is not None]` and its flat / walrus spellings
    -> (IT, filter) with filter in 'none' (exactly the None values are dropped) | 'all' (nothing dropped);
    None when the comprehension is something else"""
    if not isinstance(comp, (ast.ListComp, ast.GeneratorExp)) or len(comp.generators) != 1:
        return None
    g = comp.generators[0]
    if not isinstance(g.target, ast.Name) or g.is_async:
        return None
    x = g.target.id

    def is_elem(e, var):
        m = match("$c.get_available_units($d)", e)
        return bool(m) and _name(m['c'], var) and _name(m['d'], date)

    def not_none(t, e_ok):
        m = match("$e is not None", t)
        return bool(m) and e_ok(m['e'])
    inner = g.iter
    mi = match("list($x)", inner) or match("tuple($x)", inner)
    inner = mi['x'] if mi else inner
    if isinstance(inner, (ast.ListComp, ast.GeneratorExp)) and len(inner.generators) == 1 and not inner.generators[0].ifs \
            and isinstance(inner.generators[0].target, ast.Name) and is_elem(inner.elt, inner.generators[0].target.id) and _name(comp.elt, x):
        if not g.ifs:
            return inner.generators[0].iter, 'all'
        if len(g.ifs) == 1 and not_none(g.ifs[0], lambda e: _name(e, x)):
            return inner.generators[0].iter, 'none'
        return None
    if is_elem(comp.elt, x):
        if not g.ifs:
            return g.iter, 'all'
        if len(g.ifs) == 1 and not_none(g.ifs[0], lambda e: is_elem(e, x)):
            return g.iter, 'none'
        return None
    if isinstance(comp.elt, ast.Name) and len(g.ifs) == 1:
        m = match("($u := $e) is not None", g.ifs[0])
        if m and isinstance(m['u'], ast.Name) and m['u'].id == comp.elt.id and is_elem(m['e'], x):
            return g.iter, 'none'
    return None


def _reduce_of(v, S, H=None):
    """v as a left fold of the stream S: sum(S) / math.prod(S) / reduce(op, S) -> (operator class, swapped, empty result)
    where empty result is 'raise' | the constant the call yields for an empty stream"""
    def is_s(x):
        m = match("list($x)", x) or match("tuple($x)", x) or match("iter($x)", x)
        return same(x, S) or (m is not None and same(m['x'], S))
    m = match("sum($s)", v)
    if m and is_s(m['s']):
        return ast.Add, False, 0
    m = match("math.prod($s)", v) or match("prod($s)", v)
    if m and is_s(m['s']):
        return ast.Mult, False, 1
    m = match("functools.reduce($f, $s)", v) or match("reduce($f, $s)", v)
    if m and is_s(m['s']):
        oc = _op_of_callable(m['f'], H)
        if oc is not None:
            return oc[0], oc[1], 'raise'
    return None


def _functional(ctx, o, orr, osb, f, K, d):
    """get_available_units of an arithmetic combinator written without a loop: a None-filtered stream of the operands'
    values, reduced by sum / prod / reduce, None for the empty stream (and for a negative difference).
    returns False when the function is not in that form (nothing reported)"""
    prog = ctx.prog
    want = OPS[d]
    date = f.params[1] if len(f.params) > 1 else None
    if date is None or any(isinstance(n, (ast.For, ast.While)) for n in walk_no_nested(f.node)):
        return False
    ex = Expander(prog, f, ctx.typer)
    cfg = cfg_of(f)
    streams = []
    for n in walk_no_nested(f.node):
        if isinstance(n, (ast.ListComp, ast.GeneratorExp)):
            cn = cfg.node_containing(n)
            xn = ex.expand(n, cn) if cn is not None else n
            st = _operand_stream(xn, date)
            if st is not None and not any(any(y is n for y in ast.walk(x)) for x, _, _ in streams if x is not n):
                streams.append((n, xn, st))
    # an inner generator of a recognised stream is not a stream of its own
    streams = [t for t in streams if not any(t[0] is not u[0] and (any(y is t[0] for y in ast.walk(u[0])) or any(
        type(y) is type(t[1]) and y is not u[1] and same(y, t[1]) for y in ast.walk(u[1]))) for u in streams)]
    if len(streams) != 1:
        return False
    node, S, (it, filt) = streams[0]
    if not _field_iter(ctx, osb, f, _Anchor(node, it), K):
        return True
    if filt != 'none':
        osb.refute(f, node, node, f"{K} folds the values of all operands, including None (no information): exactly the None operands must be skipped")
        return True
    red = None
    for n in walk_no_nested(f.node):
        if isinstance(n, ast.Call):
            cn = cfg.node_containing(n)
            xn = ex.expand(n, cn) if cn is not None else n
            r_ = _reduce_of(xn, S)
            if r_ is not None:
                if red is not None and not same(red[1], xn):
                    return False
                red = (n, xn, r_)
    if red is None:
        return False
    rnode, R, (opk, swapped, empty) = red
    osb.site(f, node, f"{K}: None operands filtered out, the others folded left to right by {src(R.func)}")
    if opk is not want:
        o.refute(f, rnode, rnode, f"`{d}` builds {K}, whose fold applies `{SYM.get(opk, opk.__name__)}` instead of `{SYM[want]}`")
    elif swapped and want in (ast.Sub, ast.Div):
        o.refute(f, rnode, rnode, f"{K} computes `operand {SYM[want]} accumulator`: operands of `{SYM[want]}` are swapped")
    else:
        o.site(f, rnode, f"{K} folds with {SYM[want]}")
    # ---- result: None for the empty stream, the fold otherwise (Sub: None when negative)
    okt = True
    for nonempty in (False, True):
        for sr in ((None,) if not nonempty else (-1, 0, 1)):
            env = [(S, [1] if nonempty else [], 'exact')]
            m = match("list($x)", S)
            if nonempty:
                env.append((R, sr, 'sign'))
            elif empty != 'raise':
                env.append((R, empty, 'exact'))             # sum([]) == 0, prod([]) == 1
            r = run_block(f.body, Ev(env), ex)
            case = "no operand has information" if not nonempty else f"the fold is {SIGN_NAME[sr]}"
            if r.kind == 'unknown':
                orr.undecided(f, r.stmt, r.stmt, f"{K} result ({case}): {r.why}")
                return True
            if r.kind != 'return':
                orr.undecided(f, r.stmt or f.node, r.stmt or f.name, f"{K} result ({case}): {r.kind}")
                return True
            v = r.value
            isnone = isinstance(v, ast.Constant) and v.value is None
            if not nonempty:
                if same(v, R):
                    if empty == 'raise':
                        orr.refute(f, r.stmt, r.stmt, f"{K} reduces an empty stream when no operand has information: reduce() of an empty sequence raises TypeError, expected None")
                    else:
                        orr.refute(f, r.stmt, r.stmt, f"{K} returns {empty} when no operand has information (`{src(R)[:40]}` of nothing), expected None")
                    okt = False
                elif not isnone:
                    orr.refute(f, r.stmt, r.stmt, f"{K} returns `{src(v)[:50]}` when no operand has information, expected None")
                    okt = False
                continue
            none_expected = want is ast.Sub and sr == -1
            if none_expected and not isnone:
                orr.refute(f, r.stmt, r.stmt, f"{K} returns `{src(v)[:50]}` although the difference is negative: expected None (no capacity)")
                okt = False
            elif not none_expected and not same(v, R):
                what = "exactly zero" if sr == 0 else SIGN_NAME[sr]
                if isnone or isinstance(v, ast.Constant):
                    orr.refute(f, r.stmt, r.stmt, f"{K} returns `{src(v)[:50]}` when the result is {what}: expected the computed value")
                    okt = False
                else:
                    orr.undecided(f, r.stmt, r.stmt, f"{K} returns `{src(v)[:50]}` ({case})")
                    return True
    if okt:
        orr.site(f, rnode, f"{K}: " + ("None iff empty or < 0" if want is ast.Sub else "None iff empty, else the fold"))
    return True


def _functional_or(ctx, o, f, K):
    """`|` written as `next((u for u in (c.get_available_units(date) for c in self.F) if u is not None and u > 0), None)`
    (also with the values collected in a local first).  False when not in that form (nothing reported)"""
    prog = ctx.prog
    date = f.params[1] if len(f.params) > 1 else None
    rets = [n for n in walk_no_nested(f.node) if isinstance(n, ast.Return)]
    if date is None or len(rets) != 1 or rets[0].value is None or any(isinstance(n, (ast.For, ast.While, ast.If)) for n in walk_no_nested(f.node)):
        return False
    ex = Expander(prog, f, ctx.typer)
    v = ex.expand(rets[0].value)
    m = match("next($g, None)", v) or match("next($g, $dflt)", v)
    if not m or not isinstance(m['g'], ast.GeneratorExp) or len(m['g'].generators) != 1:
        return False
    if 'dflt' in m and not (isinstance(m['dflt'], ast.Constant) and m['dflt'].value is None):
        o.refute(f, rets[0], rets[0], f"`|` without a positive operand yields `{src(m['dflt'])}`, expected None (no information)")
        return True
    g = m['g']
    gen = g.generators[0]
    if not isinstance(gen.target, ast.Name) or not _name(g.elt, gen.target.id):
        return False
    plain = ast.GeneratorExp(elt=g.elt, generators=[ast.comprehension(target=gen.target, iter=gen.iter, ifs=[], is_async=0)])
    st = _operand_stream(plain, date)
    if st is None or st[1] != 'all' or not gen.ifs:
        return False
    if not _field_iter(ctx, o, f, _Anchor(rets[0], st[0]), K):
        return True
    x = _e(gen.target.id)
    cond = gen.ifs[0] if len(gen.ifs) == 1 else ast.BoolOp(op=ast.And(), values=list(gen.ifs))
    ok = True
    for sgn in SIGNS:
        try:
            t = Ev([(x, sgn, 'sign')]).truth(cond)
        except U.Unknown as u:
            o.undecided(f, rets[0], cond, f"`|` filter: {u.why}")
            return True
        except U.WouldRaise as w:
            o.refute(f, rets[0], cond, f"`|` filter raises for an operand value that is {SIGN_NAME[sgn]}: {w.why}")
            return True
        if t != (sgn == 1):
            o.refute(f, rets[0], cond, f"`|` {'takes' if t else 'skips'} an operand whose value is {SIGN_NAME[sgn]}: it must take the first *positive* operand")
            ok = False
    if ok:
        o.site(f, rets[0], f"{K}: first operand with value > 0 (next over the operands in order), else None")
    return True


def _seeded_fold(ctx, o, orr, osb, f, K, d, pre, loop, tail):
    """`known = (u for u in (c.get_available_units(date) for c in self.F) if u is not None)`;
    `acc = next(known, None)`; `for u in known: acc OP= u`; tail.   The one lazy generator is consumed by the seed and
    then by the loop, so the first informative operand starts and every later one is combined.
    False when the function is not in that form (nothing reported)"""
    prog = ctx.prog
    want = OPS[d]
    date = f.params[1] if len(f.params) > 1 else None
    if date is None or not isinstance(loop.iter, ast.Name) or not isinstance(loop.target, ast.Name):
        return False
    G = loop.iter.id
    gens = [st for st in pre if isinstance(st, ast.Assign) and len(st.targets) == 1 and _name(st.targets[0], G)]
    if len(gens) != 1 or not isinstance(gens[0].value, ast.GeneratorExp) or len(flow_of(f).defs_of(G)) != 1:
        return False
    seeds = [st for st in pre if isinstance(st, ast.Assign) and len(st.targets) == 1 and isinstance(st.targets[0], ast.Name)
             and match(f"next({G}, None)", st.value)]
    if len(seeds) != 1:
        return False
    acc = seeds[0].targets[0].id
    uses = [n for n in walk_no_nested(f.node) if isinstance(n, ast.Name) and n.id == G and isinstance(n.ctx, ast.Load)]
    if len(uses) != 2 or len([d_ for d_ in flow_of(f).defs_of(acc) if not any(d_.stmt is x for x in ast.walk(loop))]) != 1:
        return False
    ex = Expander(prog, f, ctx.typer)
    cfg = cfg_of(f)
    S = ex.expand(gens[0].value, cfg.node_of(gens[0]))
    st_ = _operand_stream(S, date)
    if st_ is None:
        return False
    if not _field_iter(ctx, osb, f, _Anchor(loop, st_[0]), K):
        return True
    if st_[1] != 'none':
        osb.refute(f, gens[0], gens[0], f"{K} folds the values of all operands, including None (no information): exactly the None operands must be skipped")
        return True
    accn, v = _e(acc), _e(loop.target.id)
    found = None
    for sv, sa in itertools.product((-1, 0, 1), (-1, 0, 1)):
        r = run_block(loop.body, Ev([(v, sv, 'sign'), (accn, sa, 'sign')]), ex)
        case = f"operand value {SIGN_NAME[sv]}, accumulator {SIGN_NAME[sa]}"
        if r.kind in ('unknown', 'wouldraise'):
            osb.undecided(f, r.stmt, r.stmt, f"{K} fold ({case}): {r.why}")
            return True
        if r.kind in ('return', 'break', 'raise'):
            osb.refute(f, r.stmt, r.stmt, f"{K} leaves the fold early ({case}): later operands are ignored")
            return True
        val = r.local.get(acc) if r.local else None
        this = None
        if isinstance(val, ast.BinOp):
            if same(val.left, accn) and same(val.right, v):
                this = (type(val.op), False)
            elif same(val.right, accn) and same(val.left, v):
                this = (type(val.op), True)
        if val is None:
            osb.refute(f, loop, f"skip:{SIGN_NAME[sv]}", f"{K} skips an informative operand ({case}): only None operands may be skipped")
            return True
        if this is None or (found is not None and found != this):
            osb.undecided(f, loop, loop, f"{K}: accumulator update `{src(val)[:50]}` is not `acc OP operand value` ({case})")
            return True
        found = this
    osb.site(f, loop, f"{K}: None filtered out lazily, next() seeds with the first informative operand, the loop combines the rest")
    upd = next((n for n in walk_no_nested(loop) if isinstance(n, (ast.AugAssign, ast.Assign))), loop)
    if found[0] is not want:
        o.refute(f, upd, upd, f"`{d}` builds {K}, whose fold applies `{SYM.get(found[0], found[0].__name__)}` instead of `{SYM[want]}`")
    elif found[1] and want in (ast.Sub, ast.Div):
        o.refute(f, upd, upd, f"{K} computes `operand {SYM[want]} accumulator`: operands of `{SYM[want]}` are swapped")
    else:
        o.site(f, upd, f"{K} folds with {SYM[want]}")
    okt = True
    for sa in SIGNS:
        r = run_block(tail, Ev([(accn, sa, 'sign')]), ex)
        if r.kind != 'return':
            orr.undecided(f, r.stmt or f.node, r.stmt or f.name, f"{K} result (accumulator {SIGN_NAME[sa]}): {r.kind} {r.why}")
            return True
        isacc = same(r.value, accn)
        isnone = (isinstance(r.value, ast.Constant) and r.value.value is None) or (isacc and sa is None)
        none_expected = sa is None or (want is ast.Sub and sa == -1)
        if none_expected and not isnone:
            orr.refute(f, r.stmt, r.stmt, f"{K} returns `{src(r.value)[:50]}` although " + ("nothing contributed" if sa is None else "the difference is negative") + ": expected None")
            okt = False
        elif not none_expected and not isacc:
            if isinstance(r.value, ast.Constant):
                orr.refute(f, r.stmt, r.stmt, f"{K} returns `{src(r.value)}` when the result is {SIGN_NAME[sa]}: expected the computed value")
                okt = False
            else:
                orr.undecided(f, r.stmt, r.stmt, f"{K} returns `{src(r.value)[:50]}`")
                return True
    if okt:
        orr.site(f, tail[-1] if tail else f.node, f"{K}: " + ("None iff empty or < 0" if want is ast.Sub else "accumulator returned unchanged"))
    return True


def _acc_name(pre, loop):
    inloop = set()
    for st in loop.body:
        for n in ast.walk(st):
            if isinstance(n, (ast.Assign, ast.AugAssign)):
                for t in (n.targets if isinstance(n, ast.Assign) else [n.target]):
                    if isinstance(t, ast.Name):
                        inloop.add(t.id)
    before = {}
    for st in pre:
        if isinstance(st, ast.Assign) and len(st.targets) == 1 and isinstance(st.targets[0], ast.Name):
            before[st.targets[0].id] = st
        elif isinstance(st, ast.AnnAssign) and isinstance(st.target, ast.Name) and st.value is not None:
            before[st.target.id] = st
    cand = [n for n in inloop if n in before]
    if len(cand) == 1:
        return cand[0], before[cand[0]]
    return None, None


class _Rec:
    """records verdict calls so that an attempt can be dropped or replayed onto the real obligation"""

    def __init__(self):
        self.calls = []

    def site(self, *a):
        self.calls.append(('site', a))

    def refute(self, *a):
        self.calls.append(('refute', a))

    def undecided(self, *a):
        self.calls.append(('undecided', a))

    def fail(self, *a):
        self.calls.append(('fail', a))

    def bad(self):
        return any(k == 'undecided' for k, _ in self.calls)

    def refuted(self):
        return any(k in ('refute', 'fail') for k, _ in self.calls)

    def replay(self, ob):
        for k, a in self.calls:
            getattr(ob, k)(*a)


def _folds(ctx, table):
    prog = ctx.prog
    o = next(x for x in ctx.obligations if x.id.endswith('.op_table'))
    orr = ctx.ob('combinator_result', 'R10', "Sum/Mul/Div return the accumulator unchanged; Sub returns None exactly when "
                 "nothing contributed or the difference is negative (zero stays a value)", floor=4)
    osb = ctx.ob('fold_siblings', 'R11', "the arithmetic combinators skip exactly the None operands, start from the first "
                 "informative operand, combine every later one, over the constructor's operands in order, for the date asked", floor=4)

    Rec = _Rec

    class C2:
        def __init__(self, prog, typer):
            self.prog, self.typer = prog, typer

    def attempt(c2, K, d, df, dret):
        ro, rr, rs = Rec(), Rec(), Rec()
        f = c2.prog.find_method(K, 'get_available_units')
        if f is None:
            ro.undecided(df, dret, K, f"{K} has no get_available_units in the package")
            return ro, rr, rs
        sp = _loop_split(f)
        H = None
        g = f
        if sp is not None and OPS[d] is not None and f.cls == K:
            ro2, rr2, rs2 = Rec(), Rec(), Rec()
            if _seeded_fold(c2, ro2, rr2, rs2, f, K, d, *sp):
                return ro2, rr2, rs2
        if sp is None:
            fh = _fold_helper(c2, f)
            if fh is None and OPS[d] is None and f.cls == K:
                ro2 = Rec()
                if _functional_or(c2, ro2, f, K):
                    return ro2, rr, rs
            if fh is None and OPS[d] is not None and f.cls == K:
                ro2, rr2, rs2 = Rec(), Rec(), Rec()
                if _functional(c2, ro2, rr2, rs2, f, K, d):
                    return ro2, rr2, rs2
            if fh is None:
                ro.undecided(f, f.node, K, "get_available_units is not `init; for operand in operands: ...; return` "
                                           "(nor a call of a helper of that shape)")
                return ro, rr, rs
            g, H = fh
            sp = _loop_split(g)
        pre, loop, tail = sp
        if OPS[d] is None:
            if H is not None:
                ro.undecided(f, f.node, K, "`|` fold delegated to a helper")
            else:
                _disjunction(c2, ro, f, K, pre, loop, tail)
        else:
            _arith(c2, ro, rr, rs, g, K, d, pre, loop, tail, H)
        return ro, rr, rs

    def body(_):
        raw = [None]
        gen = [None]
        for d, (K, df, dret) in table.items():
            recs = attempt(C2(prog, ctx.typer), K, d, df, dret)
            if any(r.bad() for r in recs) and getattr(prog, 'normalisation_log', None):
                # the engine's helper folding may have produced a shape this rule does not know: look at the tree as written
                if raw[0] is None:
                    from sa.model import Program
                    from sa.types import Typer
                    try:
                        # the same source texts as the analysed program (in-memory overrides of the thorough tier included)
                        rp = Program(prog.repo, overrides={m_.rel: m_.src for m_ in prog.modules.values()}, normalise=False)
                        raw[0] = C2(rp, Typer(rp))
                    except Exception:
                        raw[0] = False
                if raw[0]:
                    recs2 = attempt(raw[0], K, d, df, dret)
                    if not any(r.bad() for r in recs2):
                        recs = recs2
            if any(r.bad() for r in recs) and not any(r.refuted() for r in recs):
                # operands consumed through a generator function (`for u in _known_units(self.ops, date):`): read the
                # tree with the generator's own loop written in place of the consumer loop (c17_util.inline_stream_generators)
                if gen[0] is None:
                    gen[0] = False
                    from sa.model import Program
                    from sa.types import Typer
                    try:
                        over = {m_.rel: m_.src for m_ in prog.modules.values()}
                        new = {rel: U.inline_stream_generators(text) for rel, text in over.items() if rel.endswith('calendar.py')}
                        if any(v is not None for v in new.values()):
                            over.update({k: v for k, v in new.items() if v is not None})
                            gp = Program(prog.repo, overrides=over)
                            gen[0] = C2(gp, Typer(gp))
                    except Exception:
                        gen[0] = False
                if gen[0]:
                    recs2 = attempt(gen[0], K, d, df, dret)
                    if not any(r.bad() for r in recs2):
                        recs = recs2
            for r, ob in zip(recs, (o, orr, osb)):
                r.replay(ob)
    ctx.guarded(o, body)


def _result_var_form(pre, loop, tail):
    """`found = None; for ..: if ..: found = v; break; return found`  ->  the loop body and tail with `return v` /
    `return None` in their place (the two spellings are the same function); None when not in that form"""
    import copy
    if len(tail) != 1 or not isinstance(tail[0], ast.Return) or not isinstance(tail[0].value, ast.Name):
        return None
    X = tail[0].value.id
    inits = [st for st in pre if isinstance(st, (ast.Assign, ast.AnnAssign))
             and any(_name(t, X) for t in (st.targets if isinstance(st, ast.Assign) else [st.target]))]
    if len(inits) != 1 or not (isinstance(inits[0].value, ast.Constant) and inits[0].value.value is None):
        return None
    ok = [True]

    def conv(stmts):
        out = []
        i = 0
        while i < len(stmts):
            st = stmts[i]
            if isinstance(st, ast.Assign) and len(st.targets) == 1 and _name(st.targets[0], X):
                if i + 1 < len(stmts) and isinstance(stmts[i + 1], ast.Break):
                    out.append(ast.copy_location(ast.Return(value=st.value), st))
                    i += 2
                    continue
                ok[0] = False
            if isinstance(st, ast.If):
                st2 = copy.copy(st)
                st2.body, st2.orelse = conv(st.body), conv(st.orelse)
                out.append(st2)
            else:
                if any(isinstance(n, ast.Name) and n.id == X and isinstance(n.ctx, ast.Store) for n in ast.walk(st)) or isinstance(st, ast.Break):
                    ok[0] = False
                out.append(st)
            i += 1
        return out
    body = conv(loop.body)
    if not ok[0]:
        return None
    loop2 = copy.copy(loop)
    loop2.body = body
    return loop2, [ast.copy_location(ast.Return(value=ast.Constant(value=None)), tail[0])]


def _disjunction(ctx, o, f, K, pre, loop, tail):
    prog = ctx.prog
    rv = _result_var_form(pre, loop, tail)
    if rv is not None:
        loop, tail = rv
    # whatever the loop iterates: after it, no operand value may be handed back untested
    r0 = run_block(tail, Ev([]), Expander(prog, f, ctx.typer))
    if r0.kind != 'return':
        ex0 = Expander(prog, f, ctx.typer)
        for rt in [n for st in tail for n in ast.walk(st) if isinstance(n, ast.Return) and n.value is not None]:
            for _, leaf in _ret_leaves(ex0.expand(rt.value)):
                if isinstance(leaf, ast.Call) and isinstance(leaf.func, ast.Attribute) and leaf.func.attr == 'get_available_units':
                    r0 = U.Outcome('return', rt, leaf)
    if r0.kind == 'return' and isinstance(r0.value, ast.Call) and isinstance(r0.value.func, ast.Attribute) \
            and r0.value.func.attr == 'get_available_units':
        o.refute(f, r0.stmt, r0.stmt, f"`|` returns `{src(r0.value)[:60]}` after the loop without testing that it is positive: an operand "
                                      f"value of 0 (or a negative one) is handed on as information, expected None when no operand is positive")
        return
    if not _field_iter(ctx, o, f, loop, K):
        return
    v = _elem_call(ctx, o, f, loop)
    if v is None:
        return
    ex = Expander(prog, f, ctx.typer)
    ok = True
    for s in SIGNS:
        r = run_block(loop.body, Ev([(v, s, 'sign')]), ex)
        if r.kind in ('unknown',):
            o.undecided(f, r.stmt, r.stmt, f"`|` fold: {r.why}")
            return
        want_ret = s == 1
        if r.kind == 'wouldraise':
            o.refute(f, r.stmt, r.stmt, f"`|` fold raises for an operand value that is {SIGN_NAME[s]}: {r.why}")
            ok = False
        elif want_ret and r.kind in ('break', 'fall') and any(isinstance(st, (ast.Assign, ast.AugAssign, ast.AnnAssign)) for st in r.executed):
            retn = tail[0].value.id if len(tail) == 1 and isinstance(tail[0], ast.Return) and isinstance(tail[0].value, ast.Name) else None
            keeps = [st for st in r.executed if isinstance(st, ast.Assign) and len(st.targets) == 1 and _name(st.targets[0], retn)
                     and same(ex.expand(st.value), v)]
            if r.kind == 'fall' and len(keeps) == 1 and len(tail) == 1 and isinstance(tail[0], ast.Return) and \
                    _name(tail[0].value, keeps[0].targets[0].id) and not any(isinstance(n, ast.Break) for n in ast.walk(loop)):
                o.refute(f, keeps[0], keeps[0], f"`|` stores a positive operand value in `{keeps[0].targets[0].id}` and goes on with the next operand: "
                                                f"the last positive operand wins, expected the first")
                ok = False
                continue
            o.undecided(f, loop, loop, "`|` keeps a positive operand value in a local instead of returning it: shape not followed")
            return
        elif want_ret and not (r.kind == 'return' and same(r.value, v)):
            o.refute(f, loop, loop, f"`|` does not return a positive operand value as it meets it (outcome: {r.kind} {src(r.value) if r.value else ''})")
            ok = False
        elif not want_ret and r.kind not in ('fall', 'continue'):
            o.refute(f, r.stmt, r.stmt, f"`|` stops at an operand whose value is {SIGN_NAME[s]} ({r.kind}): it must take the first *positive* operand")
            ok = False
    r = run_block(tail, Ev([]), ex)
    if r.kind == 'return' and isinstance(r.value, ast.Constant) and r.value.value is None:
        pass
    elif r.kind == 'return' and isinstance(r.value, ast.Name) and any(
            isinstance(st, ast.Assign) and any(_name(t, r.value.id) for t in st.targets) and isinstance(st.value, ast.Constant)
            and st.value.value is None for st in pre):
        if ok:
            o.undecided(f, r.stmt, r.stmt, f"`|` returns the local `{r.value.id}` after the loop: shape not followed")
            return
    elif r.kind == 'unknown':
        o.undecided(f, r.stmt, r.stmt, f"`|` tail: {r.why}")
        return
    else:
        o.refute(f, r.stmt or f.node, r.stmt or 'tail', "`|` without a positive operand must yield None (no information)")
        ok = False
    if ok:
        o.site(f, loop, f"{K}: first operand with value > 0, else None")


def _arith(ctx, o, orr, osb, f, K, d, pre, loop, tail, H=None):
    prog = ctx.prog
    want = OPS[d]
    if not _field_iter(ctx, osb, f, loop, K, H):
        return
    v = _elem_call(ctx, osb, f, loop, H)
    if v is None:
        return
    acc, init = _acc_name(pre, loop)
    if acc is None:
        osb.undecided(f, loop, loop, "no single accumulator initialised before the loop and updated inside it")
        return
    accn = _e(acc)
    if not (isinstance(init.value, ast.Constant) and init.value.value is None):
        if facts.const_num(init.value) is not None:
            osb.refute(f, init, init, f"{K} starts its fold from `{src(init.value)}` instead of the first informative operand "
                                      f"(an expression without information would yield a number, `-`/`*`/`/` would fold the constant in)")
        else:
            osb.undecided(f, init, init, "accumulator is not initialised to None")
        return
    ex = _fold_expander(prog, f, ctx.typer, K)
    found_op = None
    ok = True
    zero_divisor_raises = {}
    for sv, sa in itertools.product(SIGNS, SIGNS):
        ev_ = Ev([(v, sv, 'sign'), (accn, sa, 'sign')])

        def chosen(e):
            """the alternative of a conditional update (`acc = v if acc is None else acc + v`) taken in this case"""
            try:
                return ev_.select(e)
            except (U.Unknown, U.WouldRaise):
                return e
        r = run_block(loop.body, ev_, ex)
        case = f"operand value {SIGN_NAME[sv]}, accumulator {SIGN_NAME[sa]}"
        if r.kind == 'unknown':
            osb.undecided(f, r.stmt, r.stmt, f"{K} fold ({case}): {r.why}")
            return
        if r.kind == 'wouldraise':
            osb.refute(f, r.stmt, r.stmt, f"{K} fold raises ({case}): {r.why}")
            return
        if r.kind == 'raise' and want is ast.Div and sv == 0 and sa is not None:
            # the current operand is a divisor and its value is zero: the quotient is undefined.  Diagnosing that with
            # RuntimeError (as for division by the number zero) is not "leaving the fold early".  Only in the Div
            # combinator, only for the operand's own value (checked below: for every accumulator), only RuntimeError.
            from sa.effects import exc_name
            if exc_name(r.stmt) != 'RuntimeError':
                osb.refute(f, r.stmt, r.stmt, f"{K} rejects a zero divisor with {exc_name(r.stmt)}, expected RuntimeError ({case})")
                return
            zero_divisor_raises.setdefault(id(r.stmt), (r.stmt, set()))[1].add(sa)
            continue
        if r.kind in ('return', 'break', 'raise'):
            osb.refute(f, r.stmt, r.stmt, f"{K} leaves the fold early ({case}): later operands are ignored")
            return
        stores = []
        for st in r.executed:
            tg = st.targets if isinstance(st, ast.Assign) else ([st.target] if isinstance(st, (ast.AugAssign, ast.AnnAssign)) else [])
            if any(isinstance(t, ast.Name) and t.id == acc for t in tg):
                stores.append(st)
        if sv is None:
            if stores:
                osb.refute(f, stores[0], stores[0], f"{K} updates the accumulator for an operand without information (None must be skipped)")
                ok = False
            continue
        if not stores:
            if ok:
                osb.refute(f, loop, f"skip:{SIGN_NAME[sv]}",
                           f"{K} skips an informative operand ({case}): only None operands may be skipped")
            ok = False
            continue
        if len(stores) > 1:
            osb.undecided(f, stores[1], stores[1], f"{K} updates the accumulator twice in one iteration ({case})")
            return
        st = stores[0]
        if sa is None:
            val = chosen(ex.expand(st.value, stop={acc})) if isinstance(st, (ast.Assign, ast.AnnAssign)) else None
            if val is not None and same(val, v):
                continue
            if isinstance(st, ast.AugAssign):
                osb.refute(f, st, st, f"{K} combines into an empty accumulator ({case}): None {SYM.get(type(st.op), '?')}= value raises TypeError")
            elif isinstance(val, ast.Constant) or facts.const_num(val) is not None or (
                    isinstance(val, ast.BinOp) and (same(val.left, accn) or same(val.right, accn) or same(val.left, v) or same(val.right, v))):
                osb.refute(f, st, st, f"{K} starts from `{src(val)}` instead of the first informative operand's value")
            else:
                osb.undecided(f, st, st, f"{K}: the first informative operand is taken as `{src(val)[:60]}`")
                return
            ok = False
            continue
        # combine
        this = None
        if isinstance(st, ast.AugAssign):
            rhs = ex.expand(st.value)
            if same(rhs, v):
                this = (type(st.op), False)
        elif isinstance(st, ast.Assign):
            rhs = chosen(ex.expand(st.value, stop={acc}))
            if not isinstance(rhs, (ast.BinOp, ast.Call)) and r.local and isinstance(r.local.get(acc), (ast.BinOp, ast.Call)):
                rhs = chosen(r.local[acc])          # `tmp = acc; tmp /= v; acc = tmp` (a spliced helper): the tracked value
            if isinstance(rhs, ast.BinOp):
                if same(rhs.left, accn) and same(rhs.right, v):
                    this = (type(rhs.op), False)
                elif same(rhs.right, accn) and same(rhs.left, v):
                    this = (type(rhs.op), True)
            oc = None
            if this is None and isinstance(rhs, ast.Call) and len(rhs.args) == 2 and not rhs.keywords:
                oc = _op_of_callable(rhs.func, H)
                if oc is not None:
                    if same(rhs.args[0], accn) and same(rhs.args[1], v):
                        this = (oc[0], oc[1])
                    elif same(rhs.args[1], accn) and same(rhs.args[0], v):
                        this = (oc[0], not oc[1])
            if this is None and isinstance(rhs, ast.Call) and len(rhs.args) >= 2 and not rhs.keywords and oc is None:
                # the operator is a local / module function of two parameters: optional guards, then `return a OP b`
                g = _callable_def(prog, f, rhs.func, H)
                if g is not None and len(g.params) == len(rhs.args) and (
                        (same(rhs.args[0], accn) and same(rhs.args[1], v)) or (same(rhs.args[1], accn) and same(rhs.args[0], v))):
                    flipped = same(rhs.args[1], accn)
                    pa, pb = (g.params[1], g.params[0]) if flipped else (g.params[0], g.params[1])
                    rg = run_block(g.body, Ev([(_e(pa), sa, 'sign'), (_e(pb), sv, 'sign')]), Expander(prog, g, ctx.typer))
                    if rg.kind == 'raise':
                        from sa.effects import exc_name
                        if want is ast.Div and sv == 0 and exc_name(rg.stmt) == 'RuntimeError':
                            zero_divisor_raises.setdefault(id(rg.stmt), (rg.stmt, set()))[1].add(sa)
                            continue
                        osb.refute(g, rg.stmt, rg.stmt, f"{K} leaves the fold early through `{g.name}` ({case}): "
                                   + (f"a zero divisor is rejected with {exc_name(rg.stmt)}, expected RuntimeError" if want is ast.Div and sv == 0
                                      else "later operands are ignored"))
                        return
                    if rg.kind == 'return' and rg.value is not None:
                        rv_ = rg.value
                        if isinstance(rv_, ast.BinOp):
                            if _name(rv_.left, pa) and _name(rv_.right, pb):
                                this = (type(rv_.op), False)
                            elif _name(rv_.left, pb) and _name(rv_.right, pa):
                                this = (type(rv_.op), True)
                        elif isinstance(rv_, ast.Call) and len(rv_.args) == 2 and not rv_.keywords:
                            oc2 = _op_of_callable(rv_.func, None)
                            if oc2 is not None:
                                if _name(rv_.args[0], pa) and _name(rv_.args[1], pb):
                                    this = (oc2[0], oc2[1])
                                elif _name(rv_.args[0], pb) and _name(rv_.args[1], pa):
                                    this = (oc2[0], not oc2[1])
            if this is None and same(rhs, v):
                osb.refute(f, st, st, f"{K} overwrites the accumulator with a later operand ({case}) instead of combining")
                ok = False
                continue
        if this is None:
            osb.undecided(f, st, st, f"{K}: accumulator update is not `acc OP= operand value`")
            return
        if found_op is None:
            found_op = (this, st)
        elif found_op[0] != this:
            osb.undecided(f, st, st, f"{K} combines with different operators depending on the sign of the values")
            return
    if zero_divisor_raises:
        got = set().union(*[x[1] for x in zero_divisor_raises.values()])
        if got != {-1, 0, 1}:
            st0 = next(iter(zero_divisor_raises.values()))[0]
            osb.undecided(f, st0, st0, f"{K}: the zero-divisor RuntimeError depends on the accumulator (raised only when it is "
                                       f"{', '.join(SIGN_NAME[x] for x in sorted(got))}), not only on the operand's value")
            return
    if ok:
        osb.site(f, loop, f"{K}: None skipped, first informative operand starts, later ones combined"
                 + (", zero divisor -> RuntimeError" if zero_divisor_raises else ''))
    if found_op is not None:
        (opk, swapped), st = found_op
        if opk is not want:
            o.refute(f, st, st, f"`{d}` builds {K}, whose fold applies `{SYM.get(opk, opk.__name__)}` instead of `{SYM[want]}`")
        elif swapped and want in (ast.Sub, ast.Div):
            o.refute(f, st, st, f"{K} computes `operand {SYM[want]} accumulator`: operands of `{SYM[want]}` are swapped")
        else:
            o.site(f, st, f"{K} folds with {SYM[want]}")
    # ---- tail
    okt = True
    tf, texn, tacc = f, ex, accn
    if H is not None:
        # the helper itself must hand the accumulator back unchanged; the caller's statements after the call decide
        for sa in SIGNS:
            r = run_block(tail, Ev([(accn, sa, 'sign')]), ex)
            if not (r.kind == 'return' and same(r.value, accn)):
                orr.undecided(f, r.stmt or f.node, r.stmt or f.name, f"fold helper {f.name} does not simply return its accumulator "
                                                                   f"(accumulator {SIGN_NAME[sa]})")
                return
        tf, texn = H.tf, _fold_expander(prog, H.tf, ctx.typer, K)
        if H.tacc is None:
            tail, tacc = [ast.Return(value=_e('__fold_result__'))], _e('__fold_result__')
            ast.fix_missing_locations(tail[0])
        else:
            tail, tacc = H.ktail, _e(H.tacc)
    f_loop, f, ex, accn = f, tf, texn, tacc
    alts = [accn]
    if H is not None and H.tacc is not None:
        alts.append(ex.expand(H.call, cfg_of(f).node_containing(H.call)))     # locals are expanded to their definition
    synthetic = H is not None and H.tacc is None
    for sa in SIGNS:
        r = run_block(tail, Ev([(a, sa, 'sign') for a in alts]), ex)
        if r.kind == 'return' and any(same(r.value, a) for a in alts):
            r.value = accn
        if r.kind == 'unknown':
            orr.undecided(f, r.stmt, r.stmt, f"{K} result (accumulator {SIGN_NAME[sa]}): {r.why}")
            return
        if r.kind == 'wouldraise':
            orr.refute(f, r.stmt, r.stmt, f"{K} raises when the accumulator is {SIGN_NAME[sa]}: {r.why}")
            okt = False
            continue
        if r.kind != 'return':
            orr.refute(f, f.node, f"result:{SIGN_NAME[sa]}", f"{K} does not return a value when the accumulator is {SIGN_NAME[sa]} ({r.kind})")
            okt = False
            continue
        if same(r.value, accn):
            got = ('acc', sa)
        elif isinstance(r.value, ast.Constant):
            got = ('const', r.value.value)
        else:
            orr.undecided(f, r.stmt, r.stmt, f"{K} returns `{src(r.value)}`")
            return
        none_expected = sa is None or (want is ast.Sub and sa == -1)
        got_none = got[1] is None
        if none_expected and not got_none:
            why = "nothing contributed" if sa is None else "the difference is negative"
            orr.refute(f, r.stmt, r.stmt, f"{K} returns `{src(r.value)}` although {why}: expected None (no capacity / no information)")
            okt = False
        elif not none_expected and got != ('acc', sa):
            what = "exactly zero" if sa == 0 else SIGN_NAME[sa]
            orr.refute(f, r.stmt, r.stmt, f"{K} returns `{src(r.value)}` when the result is {what}: expected the computed value "
                                          f"(None means 'no information' and lets an enclosing operator skip this operand)")
            okt = False
    if okt:
        orr.site(f, tail[-1] if tail and not synthetic else f.node, f"{K}: " + ("None iff empty or < 0" if want is ast.Sub else "accumulator returned unchanged"))



# ====================================================================================================== validation
def _name(x, n):
    return isinstance(x, ast.Name) and x.id == n


def _range_cover(clause, var):
    """which of the bounds of 0..6 a clause of a raise condition enforces on var.
    -> (covered set of 'lo'/'hi', [messages about wrong constants])"""
    cov, bad = set(), []
    for a, pol in clause:
        c = U.compare_atom(a, pol)
        if c is not None:
            l, op, r = c
            if _name(r, var) and facts.const_num(l) is not None:
                l, op, r = r, U._FLIP[op], l
            k = facts.const_num(r)
            if _name(l, var) and k is not None:
                if op in ('<', '<='):
                    lim = k if op == '<' else k + 1          # rejected: var < lim
                    if lim == 0:
                        cov.add('lo')
                    else:
                        bad.append(f"`{src(a)}` rejects week days below {lim}, expected below 0")
                elif op in ('>', '>='):
                    lim = k if op == '>' else k - 1          # rejected: var > lim
                    if lim == 6:
                        cov.add('hi')
                    else:
                        bad.append(f"`{src(a)}` rejects week days above {lim}, expected above 6")
            continue
        t, p = a, pol
        while isinstance(t, ast.UnaryOp) and isinstance(t.op, ast.Not):
            t, p = t.operand, not p
        m = (match("$v not in $s", t) if p else match("$v in $s", t))
        if m and _name(m['v'], var):
            s = m['s']
            vals = None
            mr = match("range($*a)", s)
            if mr and all(facts.const_num(x) is not None for x in mr['a']) and 1 <= len(mr['a']) <= 3:
                vals = set(range(*[int(facts.const_num(x)) for x in mr['a']]))
            elif isinstance(s, (ast.List, ast.Tuple, ast.Set)) and all(facts.const_num(x) is not None for x in s.elts):
                vals = {facts.const_num(x) for x in s.elts}
            if vals is not None:
                if vals == set(range(7)):
                    cov |= {'lo', 'hi'}
                else:
                    bad.append(f"`{src(a)}` accepts the week days {sorted(vals)}, expected 0..6")
            continue
        if isinstance(t, ast.Compare) and len(t.ops) == 2 and not p and _name(t.comparators[0], var):
            lo, hi = facts.const_num(t.left), facts.const_num(t.comparators[1])
            o1, o2 = type(t.ops[0]), type(t.ops[1])
            if lo is not None and hi is not None and o1 in (ast.Lt, ast.LtE) and o2 in (ast.Lt, ast.LtE):
                lo_ok = lo == 0 if o1 is ast.LtE else lo == -1
                hi_ok = hi == 6 if o2 is ast.LtE else hi == 7
                if lo_ok and hi_ok:
                    cov |= {'lo', 'hi'}
                else:
                    bad.append(f"`{src(t)}` is not the range 0..6")
    return cov, bad


def _atom_key(a, pol):
    while isinstance(a, ast.UnaryOp) and isinstance(a.op, ast.Not):
        a, pol = a.operand, not pol
    na = U.none_atom(a, pol)
    if na is not None:
        return ('none', src(na[0]), na[1])
    c = U.compare_atom(a, pol)
    if c is not None and c[1] in ('>', '>='):
        c = (c[2], U._FLIP[c[1]], c[0])
    if c is not None:
        return ('cmp', src(c[0]), c[1], src(c[2]))
    return ('atom', src(a), pol)


def _never_none(a, pol):
    """`X is not None` for an X that is a fresh collection (list(..), a literal, a comprehension): always true"""
    na = U.none_atom(a, pol)
    if na is None or na[1]:
        return False
    x = na[0]
    return isinstance(x, (ast.List, ast.Dict, ast.Set, ast.Tuple, ast.ListComp, ast.DictComp, ast.SetComp)) or (
        isinstance(x, ast.Call) and isinstance(x.func, ast.Name) and x.func.id in ('list', 'sorted', 'set', 'tuple', 'dict', 'frozenset'))


def _derefs(stmt, name):
    """the statement cannot complete when `name` is None: it reads an attribute / item of it unconditionally"""
    def walk(n):
        if isinstance(n, ast.IfExp):
            return walk(n.test)
        if isinstance(n, ast.BoolOp):
            return walk(n.values[0])
        if isinstance(n, ast.Lambda):
            return False
        if isinstance(n, (ast.ListComp, ast.SetComp, ast.DictComp, ast.GeneratorExp)):
            return walk(n.generators[0].iter)
        if isinstance(n, (ast.Attribute, ast.Subscript)) and _name(n.value, name):
            return True
        return any(walk(c) for c in ast.iter_child_nodes(n))
    if isinstance(stmt, (ast.If, ast.While)):
        return walk(stmt.test)
    if isinstance(stmt, ast.For):
        return walk(stmt.iter)
    return isinstance(stmt, ast.AST) and walk(stmt)


def _evaluated_before(ctx, f, an, sn, _depth=0):
    """the guard evaluated at cfg node `an` is evaluated on every path that reaches `sn`: `an` dominates `sn`, or the
    branches that lead to `an` but not to `sn` (a validator spliced as `if days is None: pass / else: <check>`) are
    decided before `sn` and their outcome is implied by the path condition of `sn`"""
    cfg = cfg_of(f)
    if cfg.dominates(an, sn):
        return True
    ex = Expander(ctx.prog, f, ctx.typer)
    fl = flow_of(f)
    cs = cfg.conditions(sn)
    sids = {(id(t), p) for t, p in cs}
    have = set()
    for t, pol in cs:
        for cl in U.cnf(ex.expand(t, cfg.node_containing(t)), pol):
            if len(cl) == 1:
                have.add(_atom_key(*cl[0]))
    extras = [(t, pol) for t, pol in U.live_conditions(cfg, an, True) if (id(t), pol) not in sids]
    if not extras or not cfg.can_reach(an, sn):
        return False                    # nothing but plain dominance could have put `an` before `sn`
    for t, pol in extras:
        bn = cfg.node_containing(t)
        if bn is None or _depth > 4 or not _evaluated_before(ctx, f, bn, sn, _depth + 1):
            return False
        for cl in U.cnf(ex.expand(t, bn), pol):
            if len(cl) != 1:
                return False
            a, p = cl[0]
            if _never_none(a, p):
                continue
            na = U.none_atom(a, p)
            if na is not None and not na[1] and isinstance(na[0], ast.Name) and sn.ast is not None and _derefs(sn.ast, na[0].id) \
                    and all(d.kind == 'param' for d in fl.defs_of(na[0].id)):
                continue                # `x is not None`, and the statement at sn reads x.attr: it only completes when x is not None
            if _atom_key(a, p) not in have:
                return False
            if any(d.kind != 'param' for n in names_in(a) for d in fl.defs_of(n)):
                return False
    return True


_BUILTIN_CALLS = {'isinstance', 'type', 'len', 'list', 'sorted', 'set', 'tuple', 'dict', 'range', 'any', 'all', 'min', 'max', 'iter',
                  'enumerate', 'zip', 'int', 'float', 'str', 'repr', 'bool', 'abs', 'sum', 'RuntimeError', 'ValueError', 'TypeError',
                  'datetime', 'timedelta', 'frozenset', 'reversed', 'map', 'filter', 'print', 'id', 'hash', 'getattr', 'hasattr'}


def _unfollowed(ctx, f, names):
    """calls in f that receive one of `names` and whose body the guard collection did not look into (a call of a
    package function that is not a same-class / inherited / module helper with plain arguments, or any call the rule
    cannot resolve): 'no guard found' is only a refutation when there is none"""
    out = []
    cfg = cfg_of(f)
    for c in [n for n in walk_no_nested(f.node) if isinstance(n, ast.Call)]:
        args = list(c.args) + [k.value for k in c.keywords]
        if not any(U.mentions(a, n) for a in args for n in names):
            continue
        fn = c.func
        if isinstance(fn, ast.Name) and fn.id in _BUILTIN_CALLS:
            continue
        if isinstance(fn, ast.Attribute) and not (isinstance(fn.value, ast.Name) and (fn.value.id in ('self', 'cls') or fn.value.id in ctx.prog.classes)) \
                and not (isinstance(fn.value, ast.Call) and _name(fn.value.func, 'super')):
            continue                    # a method of some value (d.keys(), x.weekday() ..): not a validator of ours
        h = U.helper_of(ctx.prog, f, c)
        followed = h is not None and not any(isinstance(a, ast.Starred) for a in c.args) and not any(k.arg is None for k in c.keywords)
        if isinstance(fn, ast.Name) and fn.id in ctx.prog.classes and h is None:
            continue                    # building another object does not validate this one's arguments
        if not followed:
            out.append(c)
    return out


def _branch_form(ctx, init, stmt):
    """'list' / 'dict' when the path condition of a statement of WeeklyCalendar.__init__ says which form of the
    arguments it serves (`days is not None` / `days is None`), else None"""
    try:
        cls = U.path_clauses(ctx.prog, init, stmt, ctx.typer)
    except Exception:
        return None
    got = set()
    for cl in cls:
        if len(cl) != 1:
            continue
        na = U.none_atom(*cl[0])
        if na is not None and _name(na[0], 'days'):
            got.add('dict' if na[1] else 'list')
    return next(iter(got)) if len(got) == 1 else None


def _weekday_guard(ctx, o, f, gs, subject, what, keys: bool):
    """a RuntimeError raise, universally bound over `subject` (a list of week days / the keys of a mapping)"""
    cov = set()
    hits = []
    for g in gs:
        for tgt, it in g.binders:
            b = U.items_binding(tgt, it)
            if b is None or b[0] is None or b[1] is not None and not keys:
                continue
            k, v, D = b
            if not _name(D, subject):
                continue
            if keys and not (v is not None or match("$d.keys()", it) or match("list($d.keys())", it) or match("sorted($d.keys())", it)
                             or match("set($d.keys())", it) or _name(it, subject) or match("list($d)", it) or match("sorted($d)", it)
                             or match("set($d)", it)):
                continue
            for cl in g.clauses:
                c, bad = _range_cover(cl, k)
                if not c and not bad:
                    continue
                rest = [x for x in g.clauses if x is not cl]
                extra = [x for x in rest if not U.is_mode_clause(x, ('days', 'units_per_day'))]
                if extra:
                    o.undecided(g.func, g.raise_node, g.raise_node, f"{what}: range check is conditional on " +
                                '; '.join(U.clause_text(x) for x in extra))
                    return
                for b_ in bad:
                    o.refute(g.func, g.raise_node, g.raise_node, f"{what}: {b_}")
                    return
                if g.exc != 'RuntimeError':
                    o.refute(g.func, g.raise_node, g.raise_node, f"{what}: rejected with {g.exc}, expected RuntimeError")
                    return
                cov |= c
                hits.append(g)
    if cov == {'lo', 'hi'}:
        # the check must lie on every path that builds the day table from this argument
        vf = _value_field(ctx, 'WeeklyCalendar')
        cfg = cfg_of(f)
        stores = []
        for S in (_field_stores(ctx, f, vf[0], 'mapping') if vf else []):
            ens = [S.entry(en) for en in (S.entries or [])]
            bf = _branch_form(ctx, f, S.outer) if S.outer_func is f else None
            if (bf is not None and (bf == 'dict') == keys and any(en.kind not in ('empty', 'state') for en in ens)) or (bf is None and any(
                    en.value is not None and (U.mentions(en.value, 'days') != keys) and U.mentions(en.value, 'units_per_day') for en in ens)):
                if not any(S.outer is x for x in stores):
                    stores.append(S.outer)
        if not stores:
            o.undecided(f, f.node, f"table:{what}", f"{what}: the store that builds the day table from this argument was not found")
            return
        for st in stores:
            sn = cfg.node_of(st)
            lo_hi = set()
            for g in hits:
                an = g.dom
                if an is not None and sn is not None and (_evaluated_before(ctx, f, an, sn) or (
                        cfg.dominates(sn, an) and [(id(t), p) for t, p in U.live_conditions(cfg, an, True)] ==
                        [(id(t), p) for t, p in U.live_conditions(cfg, sn, True)])):
                    for cl in g.clauses:
                        lo_hi |= _range_cover(cl, next((U.items_binding(t, it)[0] for t, it in g.binders
                                                        if U.items_binding(t, it) and _name(U.items_binding(t, it)[2], subject)), ''))[0]
            if lo_hi != {'lo', 'hi'}:
                o.refute(f, st, f"unchecked-path:{what}", f"{what}: the 0..6 check is not on the path that fills the day table at line "
                         f"`{src(st).splitlines()[0][:60]}`: on that path week days outside 0..6 are accepted")
                return
        g = hits[0]
        o.site(f, g.anchor, f"{what}: outside 0..6 -> RuntimeError" + (f" (via {g.func.name})" if g.via is not None else ''))
        return
    if cov:
        miss = 'week days above 6' if 'hi' not in cov else 'negative week days'
        o.refute(hits[0].func, hits[0].raise_node, hits[0].raise_node, f"{what}: {miss} are accepted (only one bound of 0..6 is checked)")
        return
    # nothing recognised: is the subject examined in a shape this rule does not understand?
    for g in gs:
        for cl in g.clauses:
            for a, p in cl:
                if U.mentions(a, subject) and not U.is_mode_atom(a, p) and U.sign_atom(a, p) is None:
                    o.undecided(g.func, g.raise_node, a, f"{what}: a raise depends on `{subject}` in an unrecognised way")
                    return
        for tgt, it in g.binders:
            if U.mentions(it, subject) and (keys or _name(it, subject)):
                if not any(U.sign_atom(a, p) for cl in g.clauses for a, p in cl):
                    o.undecided(g.func, g.raise_node, it, f"{what}: a check iterates `{src(it)}` in an unrecognised way")
                    return
    un = _unfollowed(ctx, f, [subject])
    if un:
        o.undecided(f, un[0], un[0], f"{what}: no 0..6 guard found, but `{src(un[0])[:60]}` receives `{subject}` and was not looked into")
        return
    o.refute(f, f.node, f"missing:{what}", f"{what}: no RuntimeError guard rejects values outside 0..6 "
             f"({'keys of the units_per_day mapping' if keys else 'the days list'} are never range checked on the way to the day table)")


def _difference_compare(c):
    """a comparison of the difference of two values with zero, rewritten as the comparison of the two values:
    `(x - y) OP timedelta(0)`, `(x - y).total_seconds() OP 0`, `(x - y).days < 0` / `>= 0` (days is the floor, so its
    sign test against 0 from below is exact) -> ((x, OP, y), False).  `(x - y).days > 0` / `>= 1` (true only from a
    whole day on) -> ((x, '>', y), True); `.days <= 0` / `< 1` -> ((x, '<=', y), True).  Anything else: (c, False)."""
    l, op, r = c

    def zero(x):
        k = facts.const_num(x)
        if k is not None:
            return k == 0
        m = match("timedelta($*a)", x) or match("datetime.timedelta($*a)", x)
        if m is not None and isinstance(x, ast.Call):
            return all(facts.const_num(v) == 0 for v in list(x.args) + [k_.value for k_ in x.keywords])
        return False
    one = facts.const_num(r) == 1 and not isinstance(getattr(r, 'value', None), bool)
    if zero(l) and not zero(r):
        l, op, r = r, U._FLIP[op], l
        one = False
    m = match("($x - $y).days", l)
    if m and (zero(r) or one):
        if one:
            if op == '>=':
                return (m['x'], '>', m['y']), True
            if op == '<':
                return (m['x'], '<=', m['y']), True
            return c, False
        if op in ('<', '>='):
            return (m['x'], op, m['y']), False
        if op in ('>', '<='):
            return (m['x'], op, m['y']), True
        return c, False
    if not zero(r):
        return c, False
    m = match("($x - $y).total_seconds()", l)
    if m is None and not isinstance(r, ast.Constant):
        m = match("$x - $y", l)                      # a timedelta against timedelta(0)
    if m:
        return (m['x'], op, m['y']), False
    return c, False


def _start_end_guard(ctx, o, f, gs, cls):
    hit = False
    for g in gs:
        for cl in g.clauses:
            for a, p in cl:
                c = U.compare_atom(a, p)
                if c is None:
                    continue
                c, whole_days = _difference_compare(c)
                l, op, r = c
                if _name(l, 'end') and _name(r, 'start'):
                    l, op, r = r, U._FLIP[op], l
                if not (_name(l, 'start') and _name(r, 'end')):
                    continue
                hit = True
                if whole_days and op == '>':
                    # `(start - end).days > 0`: timedelta.days is the difference rounded *down* to whole days
                    o.refute(g.func, g.raise_node, a, f"{cls}: the check compares the whole days of the difference (`{src(a)[:60]}`), which rejects only "
                                                      f"a start that lies at least 24 hours after the end: a start after the end by less than a "
                                                      f"day is accepted, expected `start > end` -> RuntimeError")
                    return
                if len(cl) > 1 and any(not (x is a) and not U.is_mode_atom(x, q) for x, q in cl):
                    o.undecided(g.func, g.raise_node, g.raise_node, f"{cls}: start/end test is part of a larger disjunction")
                    return
                extra = [x for x in g.clauses if x is not cl and not U.is_mode_clause(x, ('start', 'end'))]
                if extra and all(U.is_mode_clause(x) for x in extra):
                    o.refute(g.func, g.raise_node, g.raise_node, f"{cls}: the start/end check only runs when " +
                             '; '.join(U.clause_text(x) for x in extra) + ": in the other configurations start after end is accepted")
                    return
                if extra:
                    o.undecided(g.func, g.raise_node, g.raise_node, f"{cls}: start/end check is conditional on " +
                                '; '.join(U.clause_text(x) for x in extra))
                    return
                if op == '>':
                    if g.exc != 'RuntimeError':
                        o.refute(g.func, g.raise_node, g.raise_node, f"{cls}: start after end is rejected with {g.exc}, expected RuntimeError")
                    else:
                        o.site(f, g.anchor, f"{cls}: start > end -> RuntimeError" + (f" (via {g.func.name})" if g.via is not None else ''))
                elif op == '>=':
                    o.refute(g.func, g.raise_node, g.raise_node, f"{cls}: `start >= end` is rejected: a validity of one instant (start == end) is not 'start after end'")
                elif op in ('<', '<='):
                    o.refute(g.func, g.raise_node, g.raise_node, f"{cls}: the check rejects start {op} end, i.e. the valid definitions, and lets start after end through")
                else:
                    o.undecided(g.func, g.raise_node, a, f"{cls}: start/end compared with `{op}`")
                return
    for g in gs:
        for cl in g.clauses:
            for a, p in cl:
                if U.mentions(a, 'start') and U.mentions(a, 'end') and not U.is_mode_atom(a, p):
                    o.undecided(g.func, g.raise_node, a, f"{cls}: a raise relates start and end in an unrecognised way")
                    return
    un = _unfollowed(ctx, f, ['start', 'end'])
    if un:
        o.undecided(f, un[0], un[0], f"{cls}: no start/end guard found, but `{src(un[0])[:60]}` receives the bounds and was not looked into")
        return
    o.refute(f, f.node, f"missing:{cls}:start>end", f"{cls}: no reachable RuntimeError guard compares start with end: "
             f"a validity interval with start after end is accepted")


def _zero_test_on_promoted(ctx, o, f, g, other):
    """the `== 0` test of the division guard is applied to the operand *after* promotion: for a number that is a
    calendar object (`FixedCalendar(other) == 0`), which never equals 0 unless the class defines __eq__.  True after
    a refutation"""
    prog = ctx.prog
    for cl in g.clauses:
        for a, p in cl:
            c = U.compare_atom(a, p)
            if c is None or c[1] != '==':
                continue
            for X, k in ((c[0], c[2]), (c[2], c[0])):
                if facts.const_num(k) is None or facts.const_num(k) != 0:
                    continue
                for conds, leaf in _ret_leaves(X):
                    if isinstance(leaf, ast.Call) and isinstance(leaf.func, ast.Name) and leaf.func.id in prog.classes and \
                            any(ci.name == 'IWorkCalendar' for ci in prog.mro(leaf.func.id)) and U.mentions(leaf, other) and \
                            not any('__eq__' in ci.methods for ci in prog.mro(leaf.func.id)):
                        o.refute(f, g.raise_node, a, f"the division guard tests the operand after promotion: for a number it compares "
                                                     f"`{src(leaf)}` (a calendar object, no __eq__) with 0, which is never equal - "
                                                     f"`calendar / 0` is accepted; test `{other} == 0` before promoting")
                        return True
    return False


def _scalar_units_guard(ctx, o, f, gs):
    """WeeklyCalendar(days=[..], units_per_day=<number>): the number itself is rejected when negative, whatever `days`
    holds.  A check of the *entries* of a table derived from it (`{d: units_per_day for d in days}`) is vacuous for an
    empty days list."""
    p = 'units_per_day'
    numeric = any(isinstance(n, ast.Compare) or isinstance(n, ast.Call) for n in walk_no_nested(f.node)
                  if (match("type($x) is $t", n) or match("type($x) in $t", n) or match("isinstance($x, $t)", n) or match("type($x) == $t", n))
                  and any(isinstance(y, ast.Name) and y.id in ('int', 'float') for y in ast.walk(n)))
    if not numeric:
        return

    def direct(a):
        return any((isinstance(n, ast.Compare) and not any(isinstance(o_, (ast.In, ast.NotIn)) for o_ in n.ops)
                    and any(_name(x, p) for x in [n.left] + n.comparators))
                   or (isinstance(n, ast.Call) and any(_name(x, p) for x in n.args)
                       and not (isinstance(n.func, ast.Name) and n.func.id in ('type', 'isinstance', 'len', 'list', 'dict'))) for n in ast.walk(a))
    odd = None
    for g in gs:
        for cl in g.clauses:
            for a, pol in cl:
                sa = U.sign_atom(a, pol)
                if sa is not None and _name(sa[0], p):
                    if len(cl) == 1 and sa[1] == '<' and g.exc == 'RuntimeError' and \
                            all(U.is_mode_clause(c, ('days', p)) for c in g.clauses if c is not cl):
                        o.site(f, g.anchor, f"WeeklyCalendar: a negative number as {p} -> RuntimeError" + (f" (via {g.func.name})" if g.via is not None else ''))
                        return
                    odd = odd or (g, a)          # judged by units_nonnegative (wrong comparator / exception / extra conditions)
                elif not U.is_mode_atom(a, pol) and direct(a):
                    odd = odd or (g, a)
    if odd is not None:
        return
    un = _unfollowed(ctx, f, [p])
    if un:
        o.undecided(f, un[0], un[0], f"WeeklyCalendar: no `{p} < 0` guard on the number found, but `{src(un[0])[:60]}` receives it and was not looked into")
        return
    o.refute(f, f.node, f"missing:{p} < 0", f"WeeklyCalendar(days=[..], {p}=<number>): no RuntimeError guard tests the number itself for `< 0`; "
             f"checking only the entries of a table built from it is vacuous when `days` is empty, so a negative number is accepted")


def _validation(ctx):
    prog = ctx.prog
    o = ctx.ob('validation', 'R2', "RuntimeError guards: week days outside 0..6 (days list and units_per_day keys), start after "
               "end (WeeklyCalendar, FixedCalendar), division by the number zero", floor=5)

    def body(o):
        f = prog.func('calendar.WeeklyCalendar.__init__')
        for p in ('start', 'end', 'days', 'units_per_day'):
            if p not in f.params:
                o.fail(f"WeeklyCalendar.__init__ has no parameter {p}")
                return
        gs = U.guard_facts(prog, ctx.typer, f)
        _weekday_guard(ctx, o, f, gs, 'days', 'WeeklyCalendar(days=[..])', keys=False)
        _weekday_guard(ctx, o, f, gs, 'units_per_day', 'WeeklyCalendar(units_per_day={weekday: ..})', keys=True)
        _start_end_guard(ctx, o, f, gs, 'WeeklyCalendar')
        _scalar_units_guard(ctx, o, f, gs)
        f = prog.func('calendar.FixedCalendar.__init__')
        for p in ('start', 'end', 'units'):
            if p not in f.params:
                o.fail(f"FixedCalendar.__init__ has no parameter {p}")
                return
        _start_end_guard(ctx, o, f, U.guard_facts(prog, ctx.typer, f), 'FixedCalendar')
        # ---- division by the number zero
        f = prog.func('calendar.IWorkCalendar.__truediv__')
        other = f.params[1]
        gs = U.guard_facts(prog, ctx.typer, f)
        fired = None
        unknown = None
        for g in gs:
            res = {}
            try:
                for s in (-1, 0, 1):
                    ev = Ev([(_e(other), s, 'sign')])
                    res[s] = all(any(ev.truth(a) == p for a, p in cl) for cl in g.clauses if not U.is_mode_clause(cl))
            except (U.Unknown, U.WouldRaise) as u:
                if any(U.mentions(a, other) for cl in g.clauses for a, _ in cl):
                    unknown = (g, u)
                continue
            if res[0]:
                fired = (g, res)
                break
        if fired:
            g, res = fired
            modes = [cl for cl in g.clauses if U.is_mode_clause(cl)]
            nts = [_num_types(cl, other) for cl in modes]
            if any(nt is None for nt in nts):
                o.undecided(f, g.raise_node, g.raise_node, "the division guard is restricted by a type / None test the rule does not understand")
            elif any(not {'int', 'float'} <= nt for nt in nts):
                o.refute(f, g.raise_node, g.raise_node, "the division guard only applies to " +
                         '/'.join(sorted(set.intersection(*nts))) + " operands: both the int 0 and the float 0.0 must be rejected")
            elif g.exc != 'RuntimeError':
                o.refute(f, g.raise_node, g.raise_node, f"division by the number zero is rejected with {g.exc}, expected RuntimeError")
            elif res[-1] or res[1]:
                o.refute(f, g.raise_node, g.raise_node, "the division guard also rejects non-zero numbers")
            else:
                o.site(f, g.raise_node, f"`{other} == 0` -> RuntimeError")
        elif unknown and _zero_test_on_promoted(ctx, o, f, unknown[0], other):
            pass
        elif unknown:
            o.undecided(f, unknown[0].raise_node, unknown[0].raise_node, f"division guard: {unknown[1].why}")
        elif _unfollowed(ctx, f, [other]) and not all(
                isinstance(c.func, ast.Attribute) and c.func.attr.endswith('prepare_calendar') for c in _unfollowed(ctx, f, [other])):
            un = _unfollowed(ctx, f, [other])[0]
            o.undecided(f, un, un, f"no `{other} == 0` guard found, but `{src(un)[:60]}` receives `{other}` and was not looked into")
        else:
            o.refute(f, f.node, 'missing:other == 0', "`calendar / 0` is accepted: no RuntimeError guard on `other == 0` "
                     "(the quotient calendar would raise ZeroDivisionError at query time)")
    ctx.guarded(o, body)


# ====================================================================================================== units >= 0
def _value_field(ctx, cls):
    """(field, 'scalar'|'mapping') of the attribute get_available_units of cls reads its answer from"""
    f = ctx.prog.func(f'calendar.{cls}.get_available_units')
    ex = Expander(ctx.prog, f, ctx.typer)
    out = set()

    def leaf(v):
        if isinstance(v, ast.IfExp):
            leaf(v.body)
            leaf(v.orelse)
            return
        m = match("self.$f[$k]", v) or match("self.$f.get($*k)", v)
        if m:
            out.add((m['f'], 'mapping'))
            return
        m = match("self.$f", v)
        if m:
            out.add((m['f'], 'scalar'))
    fl = flow_of(f)
    for r in [n for n in walk_no_nested(f.node) if isinstance(n, ast.Return) and n.value is not None]:
        v = ex.expand(r.value)
        defs = [d for d in fl.defs_of(v.id) if d.kind == 'assign' and d.value is not None] if isinstance(v, ast.Name) else []
        if defs:
            # single exit: `available = ..` in every arm of an if/elif/else, `return available`
            for d in defs:
                leaf(ex.expand(d.value, d.node))
        else:
            leaf(v)
    if len(out) != 1:
        return None
    return next(iter(out))


class _Store:
    """one store into the unit table / unit field.  func/stmt: where the entries are written (the method itself, or
    a same-class helper that builds the table and returns it); sub: helper parameter -> caller expression;
    outer: the statement of the method through which the entries reach the field"""

    def __init__(self, func, stmt, entries, sub, outer_func, outer):
        self.func, self.stmt, self.entries, self.sub, self.outer_func, self.outer = func, stmt, entries, sub, outer_func, outer

    def entry(self, en):
        """entry with the helper's parameters replaced by the caller's arguments"""
        if not self.sub:
            return en
        from sa.flow import subst
        sb = lambda x: subst(x, self.sub) if x is not None else None
        out = U.Entry(en.kind, key=sb(en.key), value=sb(en.value), target=en.target, it=sb(en.it), expr=sb(en.expr), node=en.node)
        out.ifs = [sb(c) for c in en.ifs]
        return out

    def binds(self, ctx, en):
        """(target, iterable) of the comprehension / enclosing loops that bind the entry's key and value"""
        from sa.flow import subst
        cfg = cfg_of(self.func)
        ex = Expander(ctx.prog, self.func, ctx.typer)
        out = [(en.target, en.it)] if en.kind == 'comp' else []
        sn = cfg.node_of(self.stmt) or cfg.node_containing(self.stmt)
        for fo in (cfg.enclosing_fors(sn) if sn is not None else []):
            out.append((fo.target, ex.expand(fo.iter, cfg.node_of(fo))))
        return out


def _stores_in(ctx, f, is_target, kind, field):
    """[(stmt, [Entry] or None)] for every store into the target (self.<field> or a local table) in f"""
    ex = Expander(ctx.prog, f, ctx.typer)
    cfg = cfg_of(f)
    out = []
    consumed = set()

    def cond_store(st):
        """`if c: T[k] = A / else: T[k] = B` (any depth of elif) as one store of `A if c else B`: (key, value) or None"""
        if isinstance(st, ast.Assign) and len(st.targets) == 1 and isinstance(st.targets[0], ast.Subscript) and is_target(st.targets[0].value):
            cn = cfg.node_of(st)
            return ex.expand(st.targets[0].slice, cn), ex.expand(st.value, cn), [st]
        if isinstance(st, ast.If) and len(st.body) == 1 and len(st.orelse) == 1:
            a, b = cond_store(st.body[0]), cond_store(st.orelse[0])
            if a is not None and b is not None and same(a[0], b[0]):
                t = ex.expand(st.test, cfg.node_of(st))
                return a[0], ast.IfExp(test=t, body=a[1], orelse=b[1]), a[2] + b[2]
        return None
    for n in walk_no_nested(f.node):
        if isinstance(n, ast.If) and id(n) not in consumed:
            cs = cond_store(n)
            if cs is not None:
                consumed |= {id(x) for x in cs[2]} | {id(x) for x in ast.walk(n) if isinstance(x, ast.If)}
                v = ast.fix_missing_locations(ast.copy_location(cs[1], n))
                out.append((n, [U.Entry('pair', key=cs[0], value=v, node=n)]))
                continue
        if id(n) in consumed:
            continue
        if isinstance(n, (ast.Assign, ast.AnnAssign)):
            tgts = n.targets if isinstance(n, ast.Assign) else [n.target]
            for t in tgts:
                if is_target(t) and n.value is not None:
                    v = ex.expand(n.value, cfg.node_of(n))
                    out.append((n, [U.Entry('pair', value=v, node=n)] if kind == 'scalar' else U.dict_entries(v, field)))
                elif isinstance(t, ast.Subscript) and is_target(t.value):
                    out.append((n, [U.Entry('pair', key=ex.expand(t.slice, cfg.node_of(n)), value=ex.expand(n.value, cfg.node_of(n)), node=n)]))
                elif isinstance(t, (ast.Tuple, ast.List)) and any(is_target(x) or (isinstance(x, ast.Subscript) and is_target(x.value))
                                                                  for x in ast.walk(t)):
                    out.append((n, None))
        elif isinstance(n, ast.AugAssign):
            if is_target(n.target):
                if kind == 'mapping' and isinstance(n.op, ast.BitOr):
                    out.append((n, U.dict_entries(ex.expand(n.value, cfg.node_of(n)), field)))
                else:
                    out.append((n, None))
            elif isinstance(n.target, ast.Subscript) and is_target(n.target.value):
                out.append((n, None))
        elif isinstance(n, ast.Call) and isinstance(n.func, ast.Attribute) and is_target(n.func.value):
            name = n.func.attr
            st = cfg.node_containing(n)
            if name == 'update' and len(n.args) == 1 and not n.keywords:
                out.append((st.ast if st is not None else n, U.dict_entries(ex.expand(n.args[0], st), field)))
            elif name in ('setdefault', '__setitem__', 'update'):
                out.append((st.ast if st is not None else n, None))
    return out


def _helper_table(ctx, f, outer, call, h):
    """`self.<field> = K.__helper(args)` where the helper fills a local table and returns it -> stores inside the helper"""
    if any(isinstance(a, ast.Starred) for a in call.args):
        return None
    ba = facts.bound_args(call, h)
    params = list(h.params)[1:] if h.kind == 'method' else list(h.params)
    sub = {p: a for p, a in zip(params, ba) if a is not None}
    exh = Expander(ctx.prog, h, ctx.typer)
    rets = [n for n in walk_no_nested(h.node) if isinstance(n, ast.Return)]
    if not rets:
        return None
    out = []
    locals_ = set()
    for r in rets:
        if isinstance(r.value, ast.Name) and r.value.id not in h.params:
            locals_.add(r.value.id)
            continue
        ens = U.dict_entries(exh.expand(r.value), '') if r.value is not None else None
        if ens is None or any(e.kind == 'whole' for e in ens):
            return None
        out.append(_Store(h, r, ens, sub, f, outer))
    for L in locals_:
        st = _stores_in(ctx, h, lambda x, L=L: isinstance(x, ast.Name) and x.id == L, 'mapping', '')
        if not st or any(ens is None or any(e.kind == 'whole' for e in ens) for _, ens in st):
            return None
        out += [_Store(h, stmt, ens, sub, f, outer) for stmt, ens in st]
    return out


_local_depth = [0]


def _field_stores(ctx, f, field, kind):
    """[_Store] for every store into self.<field> in f; scalar stores come as one 'pair' entry.  A table built by a
    same-class helper (`self.F = K.__build(..)`) is followed into the helper."""
    def is_field(x):
        return isinstance(x, ast.Attribute) and x.attr == field and _name(x.value, f.params[0] if f.params else 'self')
    out = []
    for stmt, ens in _stores_in(ctx, f, is_field, kind, field):
        if kind == 'mapping' and ens:
            # entries that come from a table-building helper (`K.__build(..)`, also as one side of `state | K.__build(..)`)
            # are read inside the helper; the rest stays with the statement
            rest, followed = [], []
            for en in ens:
                recs = None
                if en.kind == 'whole' and isinstance(en.expr, ast.Call):
                    h = U.helper_of(ctx.prog, f, en.expr) or _module_helper(ctx.prog, f, en.expr)
                    recs = _helper_table(ctx, f, stmt, en.expr, h) if h is not None else None
                elif en.kind == 'whole' and isinstance(en.expr, ast.Name) and en.expr.id not in f.params and _local_depth[0] < 2:
                    # a local table filled before it is stored into the field (`t = {}; for ..: t[k] = v; self.F = t`)
                    L = en.expr.id
                    _local_depth[0] += 1
                    try:
                        st = _stores_in(ctx, f, lambda x, L=L: isinstance(x, ast.Name) and x.id == L, 'mapping', field)
                    finally:
                        _local_depth[0] -= 1
                    cfg = cfg_of(f)
                    sn = cfg.node_of(stmt)
                    if st and all(e2 is not None and not any(e.kind == 'whole' and not (isinstance(e.expr, ast.Name) and e.expr.id in f.params)
                                                             for e in e2) for _, e2 in st) and sn is not None and \
                            all(cfg.node_of(s2) is not None and cfg.can_reach(cfg.node_of(s2), sn) for s2, _ in st):
                        recs = [_Store(f, s2, e2, {}, f, s2) for s2, e2 in st]
                if recs:
                    followed += recs
                else:
                    rest.append(en)
            if followed:
                out += followed
                if any(en.kind not in ('state', 'empty') for en in rest):
                    out.append(_Store(f, stmt, rest, {}, f, stmt))
                continue
        out.append(_Store(f, stmt, ens, {}, f, stmt))
    return out


def _module_helper(prog, f, call):
    """module-level function of the same module called by its bare name"""
    if isinstance(call.func, ast.Name) and call.func.id not in prog.classes:
        return prog.module_func(f.module.name, call.func.id)
    return None


def _vleaves(v):
    if isinstance(v, ast.IfExp):
        return _vleaves(v.body) + _vleaves(v.orelse)
    if isinstance(v, ast.BoolOp):
        return [x for y in v.values for x in _vleaves(y)]
    m = match("$d.get($k, $c)", v)
    if m:
        return [_e(f"{src(m['d'])}[{src(m['k'])}]")] + _vleaves(m['c'])
    return [v]


def _elem_of(leaf, bindings):
    if isinstance(leaf, ast.Name):
        for tgt, it in bindings:
            b = U.items_binding(tgt, it)
            if b and b[1] == leaf.id:
                return b[2]
        return None
    m = match("$d[$k]", leaf) or match("$d.get($k)", leaf)
    if m and isinstance(m['d'], (ast.Name, ast.Attribute)):
        return m['d']
    return None


def _delegated_writes(ctx, mf, field, kind):
    """calls `self.<writer>(args)` in mf where <writer> is another method of the class that stores into the field:
    [(call node, writer, True when every argument is a parameter of mf handed on unchanged)]"""
    out = []
    if not mf.cls or not mf.params:
        return out
    fl = flow_of(mf)
    for c in [n for n in walk_no_nested(mf.node) if isinstance(n, ast.Call)]:
        fn = c.func
        if not (isinstance(fn, ast.Attribute) and _name(fn.value, mf.params[0])):
            continue
        w = ctx.prog.find_method(mf.cls, unmangle(fn.attr))
        if w is None or w.qual == mf.qual or w.kind != 'method':
            continue
        if not any(S.entries is None or any(en.kind not in ('state', 'empty') for en in S.entries)
                   for S in _field_stores(ctx, w, field, kind)):
            continue
        args = list(c.args) + [k.value for k in c.keywords]
        plain = all(isinstance(a, ast.Name) and a.id in mf.params and not [d for d in fl.defs_of(a.id) if d.kind != 'param'] for a in args)
        out.append((c, w, plain))
    return out


def _live_store(stmt, f, field):
    """stmt writes into the object's own table (self.<field>[k] = v, self.<field> |= .., self.<field>.update(..)), not
    into a local copy"""
    me = f.params[0] if f.params else 'self'

    def is_field(x):
        return isinstance(x, ast.Attribute) and x.attr == field and _name(x.value, me)
    if isinstance(stmt, ast.Assign):
        return any(isinstance(t, ast.Subscript) and is_field(t.value) for t in stmt.targets)
    if isinstance(stmt, ast.AugAssign):
        return is_field(stmt.target) or (isinstance(stmt.target, ast.Subscript) and is_field(stmt.target.value))
    if isinstance(stmt, ast.Expr) and isinstance(stmt.value, ast.Call) and isinstance(stmt.value.func, ast.Attribute):
        return is_field(stmt.value.func.value)
    return False


def _nonneg(ctx):
    prog = ctx.prog
    o = ctx.ob('units_nonnegative', 'R3', "every unit value stored into calendar state (Weekly day table, Fixed units, Direct "
               "table in __init__ and set_units) is dominated by `value < 0 -> raise RuntimeError` on that same value", floor=5)

    def prove_path(f, stmt, X, gs):
        """'ok' | ('bad', msg, node) | None  - X >= 0 follows from the path condition of stmt through a RuntimeError raise"""
        cls = U.path_clauses(prog, f, stmt, ctx.typer)
        for cl in cls:
            if len(cl) != 1:
                continue
            sa = U.sign_atom(*cl[0])
            if sa is None or not same(sa[0], X):
                continue
            if sa[1] == '>':
                return ('bad', f"`{src(X)[:60]}` is only stored when `> 0`: zero units (a day off) are rejected or dropped", cl[0][0])
            if sa[1] != '>=':
                continue
            # the branch taken for X < 0 must raise RuntimeError
            for g in gs:
                if g.via is not None:
                    continue
                for gcl in g.clauses:
                    if any((U.sign_atom(a, p) or (None, None))[1] == '<' and same(U.sign_atom(a, p)[0], X) for a, p in gcl):
                        rest = [c for c in g.clauses if c is not gcl and not U.is_mode_clause(c)]
                        have = {U.clause_text(c) for c in cls}
                        if all(U.clause_text(c) in have for c in rest) and all(
                                (U.sign_atom(a, p) or (None, None))[1] == '<' or U.is_mode_atom(a, p) for a, p in gcl):
                            if g.exc != 'RuntimeError':
                                return ('bad', f"negative `{src(X)[:60]}` is rejected with {g.exc}, expected RuntimeError", g.raise_node)
                            return 'ok'
            return ('bad', f"negative `{src(X)[:60]}` is filtered out silently: no RuntimeError is raised on that branch", cl[0][0])
        return None

    def prove_guarded(f, stmt, X, gs, ctor):
        """X >= 0 at stmt because a guard `X < 0 -> raise` (possibly inside a helper validator) is evaluated before"""
        cfg = cfg_of(f)
        sn = cfg.node_of(stmt) or cfg.node_containing(stmt)
        for g in gs:
            bound = set()
            for t, _ in g.binders:
                bound |= names_in(t)
            if bound & names_in(X):
                continue
            for cl in g.clauses:
                hit = [U.sign_atom(a, p) for a, p in cl if U.sign_atom(a, p) is not None and same(U.sign_atom(a, p)[0], X)]
                if not hit:
                    continue
                if len(cl) > 1 or any(not U.is_mode_clause(c, names_in(X)) for c in g.clauses if c is not cl):
                    return ('unk', "the value check is part of a larger condition", g.raise_node)
                op = hit[0][1]
                if op == '<=':
                    return ('bad', f"`{src(X)[:50]}` equal to 0 is rejected (`<= 0`): zero units are a legal definition", g.raise_node)
                if op != '<':
                    continue
                if g.exc != 'RuntimeError':
                    return ('bad', f"negative `{src(X)[:50]}` is rejected with {g.exc}, expected RuntimeError", g.raise_node)
                an = g.dom
                if an is not None and sn is not None and _evaluated_before(ctx, f, an, sn):
                    return 'ok'
                if ctor and an is not None and sn is not None and cfg.dominates(sn, an) and \
                        [(id(t), p) for t, p in U.live_conditions(cfg, an, True)] == [(id(t), p) for t, p in U.live_conditions(cfg, sn, True)]:
                    return 'ok'
                return ('bad', f"the `< 0` check of `{src(X)[:50]}` does not come before the store on every path", g.anchor)
        return None

    def prove_all(f, stmt, D, gs, ctor):
        """every value of mapping D is >= 0 at stmt"""
        cfg = cfg_of(f)
        sn = cfg.node_of(stmt) or cfg.node_containing(stmt)
        for g in gs:
            for tgt, it in g.binders:
                b = U.items_binding(tgt, it)
                if not b or b[1] is None or not same(b[2], D):
                    continue
                for cl in g.clauses:
                    sas = [(U.sign_atom(a, p), a) for a, p in cl]
                    hit = [s for s, a in sas if s is not None and _name(s[0], b[1])]
                    if not hit:
                        continue
                    if len(cl) > 1 or any(not U.is_mode_clause(c, names_in(D)) for c in g.clauses if c is not cl):
                        return ('unk', "the value check is part of a larger condition", g.raise_node)
                    op = hit[0][1]
                    if op == '<=':
                        return ('bad', f"values of `{src(D)}` equal to 0 are rejected (`<= 0`): zero units are a legal definition", g.raise_node)
                    if op != '<':
                        return ('bad', f"values of `{src(D)}` are rejected when `{op} 0`, expected `< 0`", g.raise_node)
                    if g.exc != 'RuntimeError':
                        return ('bad', f"negative values of `{src(D)}` are rejected with {g.exc}, expected RuntimeError", g.raise_node)
                    an = g.dom
                    if an is not None and sn is not None and _evaluated_before(ctx, f, an, sn):
                        return 'ok'
                    if ctor and an is not None and sn is not None and cfg.dominates(sn, an) and \
                            [(id(t), p) for t, p in U.live_conditions(cfg, an, True)] == [(id(t), p) for t, p in U.live_conditions(cfg, sn, True)]:
                        return 'ok'
                    return ('bad', f"the `< 0` check of `{src(D)}` does not come before the store on every path: "
                                   f"state is changed before / without validation", g.anchor)
        return None

    def body(o):
        for cls in ('WeeklyCalendar', 'FixedCalendar', 'DirectCalendar'):
            vf = _value_field(ctx, cls)
            if vf is None:
                o.undecided(prog.func(f'calendar.{cls}.get_available_units'), None, cls, "cannot tell which field holds the unit values")
                continue
            field, kind = vf
            ci = prog.cls(cls)
            for mf in list(ci.methods.values()) + list(ci.setters.values()):
                stores = _field_stores(ctx, mf, field, kind)
                for c, w, plain in _delegated_writes(ctx, mf, field, kind):
                    if plain:
                        o.site(mf, c, f"{cls}.{mf.name} stores through {w.name}({', '.join(src(a) for a in c.args)}), checked there")
                    else:
                        o.undecided(mf, c, c, f"{cls}.{mf.name} hands computed values to {w.name}")
                if not stores:
                    continue
                ctor = mf.name == '__init__'
                if not ctor and mf.name.startswith('__') and not mf.name.endswith('__'):
                    # a private writer that only the constructor calls works on an object nobody can see yet
                    callers = [m_ for m_ in list(ci.methods.values()) + list(ci.setters.values()) + list(ci.getters.values())
                               if m_ is not mf and any(isinstance(c_, ast.Call) and isinstance(c_.func, ast.Attribute)
                                                       and unmangle(c_.func.attr) == mf.name for c_ in walk_no_nested(m_.node))]
                    if callers and all(m_.name == '__init__' for m_ in callers):
                        ctor = True
                for S in stores:
                    f, stmt, entries = S.func, S.stmt, S.entries
                    gs = U.guard_facts(prog, ctx.typer, f)
                    cfg = cfg_of(f)
                    if entries is None:
                        o.undecided(f, stmt, stmt, f"store into {unmangle(field)} in a shape the rule does not understand")
                        continue
                    verdicts = []
                    for en in entries:
                        if en.kind in ('state', 'empty'):
                            continue
                        if en.kind == 'whole' and not isinstance(en.expr, (ast.Name, ast.Attribute)):
                            verdicts.append((('unk', f"the table is taken from `{src(en.expr)[:60]}`, which the rule cannot look into", en.expr),
                                             '', en.expr))
                            continue
                        if en.kind == 'whole':
                            r = prove_all(f, stmt, en.expr, gs, ctor)
                            if r is None and isinstance(en.expr, ast.Name) and en.expr.id not in f.params:
                                r = ('unk', f"the table is taken from the local `{en.expr.id}`, whose construction the rule could not follow", en.expr)
                            verdicts.append((r, f"all values of `{src(en.expr)}`", en.expr))
                            continue
                        binds = S.binds(ctx, en)
                        r = prove_path(f, stmt, en.value, gs)
                        if r is not None:
                            verdicts.append((r, f"`{src(en.value)[:50]}`", en.value))
                            continue
                        def examined(gs, X, values_of):
                            """a raise of gs looks at X (or at the values of the mapping X) in a way no proof step understood"""
                            for g in gs:
                                for t, it in g.binders:
                                    b = U.items_binding(t, it)
                                    if values_of and b and b[1] is not None and same(b[2], X):
                                        return g
                                for cl in g.clauses:
                                    for a, p in cl:
                                        if U.is_mode_atom(a, p) or not (names_in(X) and names_in(X) <= names_in(a)):
                                            continue
                                        if values_of and not any(isinstance(n, ast.Attribute) and n.attr in ('values', 'items') for n in ast.walk(a)) \
                                                and not any(isinstance(n, ast.Subscript) and same(n.value, X) for n in ast.walk(a)):
                                            continue
                                        if not values_of and not any(
                                                (isinstance(n, ast.Compare) and not any(isinstance(o_, (ast.In, ast.NotIn)) for o_ in n.ops)
                                                 and any(same(x, X) for x in [n.left] + n.comparators))
                                                or (isinstance(n, ast.Call) and any(same(x, X) for x in n.args)
                                                    and not (isinstance(n.func, ast.Name) and n.func.id in ('type', 'isinstance', 'len')))
                                                for n in ast.walk(a)):
                                            continue
                                        return g
                            return None

                        def judge(f, stmt, lf, gs, binds):
                            r = prove_path(f, stmt, lf, gs)
                            if r is None:
                                r = prove_guarded(f, stmt, lf, gs, ctor)
                            if r is None:
                                D = _elem_of(lf, binds)
                                g_ = examined(gs, D, True) if D is not None else examined(gs, lf, False)
                                if D is not None and prove_all(f, stmt, D, gs, ctor) is None and g_ is not None:
                                    return ('unk', f"a raise examines the values of `{src(D)}` in a way the rule does not understand "
                                                   f"(`{U.clause_text(g_.clauses[0])[:60] if g_.clauses else ''}`)", lf)
                                if D is None and g_ is not None:
                                    return ('unk', f"a raise examines `{src(lf)[:40]}` in a way the rule does not understand "
                                                   f"(`{U.clause_text(g_.clauses[0])[:60] if g_.clauses else ''}`)", lf)
                                if D is not None:
                                    r = prove_all(f, stmt, D, gs, ctor)
                                    if r is None:
                                        r = ('bad', f"values of `{src(D)}` reach {cls}.{unmangle(field)} without a `< 0 -> RuntimeError` check: "
                                                    f"negative units are accepted", lf)
                                elif isinstance(lf, ast.Name) and lf.id in f.params:
                                    r = ('bad', f"`{lf.id}` is stored into {cls}.{unmangle(field)} without a `{lf.id} < 0 -> RuntimeError` "
                                                f"check on every path: negative units are accepted", lf)
                                else:
                                    r = ('unk', f"stored value `{src(lf)[:60]}` is not a parameter or an element of one", lf)
                            return r
                        for lf in _vleaves(en.value):
                            k = facts.const_num(lf)
                            if k is not None:
                                if k < 0:
                                    verdicts.append((('bad', f"the negative constant {k} is stored as a unit value", lf), '', lf))
                                continue
                            r = judge(f, stmt, lf, gs, binds)
                            if r != 'ok' and S.sub and S.outer_func is not f:
                                # stored inside a table-building helper: the caller may have checked the argument before the call
                                from sa.flow import subst
                                r2 = judge(S.outer_func, S.outer, subst(lf, S.sub), U.guard_facts(prog, ctx.typer, S.outer_func),
                                           [(t, subst(it, S.sub)) for t, it in binds])
                                if r2 == 'ok' or (r2[0] == 'bad' and r[0] != 'bad') or (r2[0] == 'unk' and r[0] == 'bad'):
                                    r = r2
                            verdicts.append((r, f"`{src(lf)[:50]}`", lf))
                    if any(v[0] is None for v in verdicts):
                        for r, what, node in verdicts:
                            if r is None:
                                o.refute(f, stmt, stmt, f"{what} reach {cls}.{unmangle(field)} without a `< 0 -> RuntimeError` check: "
                                                        f"negative units are accepted")
                        continue
                    bad = [v for v in verdicts if v[0] != 'ok']
                    for r, what, node in bad:
                        un = []
                        if r[0] == 'bad' and 'without a' in r[1]:
                            nm = sorted(names_in(node) & (set(f.params) | set(S.outer_func.params)))
                            un = (_unfollowed(ctx, f, nm) + (_unfollowed(ctx, S.outer_func, nm) if S.outer_func is not f else [])) if nm else []
                        if un:
                            o.undecided(f, stmt, stmt, f"{cls}.{f.name}: no `< 0` check found for {what}, but `{src(un[0])[:60]}` receives it and was not looked into")
                        elif r[0] == 'bad':
                            o.refute(f, stmt, stmt, f"{cls}.{f.name}: {r[1]}")
                        else:
                            o.undecided(f, stmt, stmt, f"{cls}.{f.name}: {r[1]}")
                    if verdicts and not bad and not ctor and S.func is mf and not S.sub and _live_store(stmt, mf, field):
                        # validated and stored entry by entry: the raise that rejects the definition sits in the same loop as
                        # the store into the live table, so the entries before the offending one are already stored
                        loops = U.fors_around(mf, stmt)
                        cfg_ = cfg_of(mf)
                        rs = [n for n in walk_no_nested(mf.node) if isinstance(n, ast.Raise) and cfg_.node_of(n) is not None
                              and cfg_.is_reachable(cfg_.node_of(n)) and loops and any(x is loops[0] for x in U.fors_around(mf, n))]
                        if rs:
                            o.refute(mf, stmt, stmt, f"{cls}.{mf.name} validates and stores entry by entry (`{src(stmt)[:50]}` and "
                                                     f"`{src(rs[0])[:40]}` are in the same loop): a definition rejected with RuntimeError "
                                                     f"because of a negative value has already changed the calendar for the entries before it - "
                                                     f"state is changed before validation is complete")
                            continue
                    if verdicts and not bad:
                        o.site(f, stmt, f"{cls}.{unmangle(field)} <- " + ', '.join(v[1] for v in verdicts) + " proved >= 0")
    ctx.guarded(o, body)


# ====================================================================================================== dead validators
def _dead_validators(ctx):
    prog = ctx.prog
    o = ctx.ob('dead_validator', 'R5', "every private __check_* method of a calendar/resource class is called (reachable call "
               "site) in the reach of that class's __init__ / set_units", floor=3)

    def body(o):
        for ci in prog.classes.values():
            if ci.module.name not in ('calendar', 'resource'):
                continue
            checks = [m for n, m in ci.methods.items() if n.startswith('__check') and not n.endswith('__')]
            if not checks:
                continue
            roots = [m for n, m in ci.methods.items() if n in ('__init__', 'set_units')]
            seen, todo, called = set(), list(roots), {}
            while todo:
                f = todo.pop()
                if f.qual in seen:
                    continue
                seen.add(f.qual)
                cfg = cfg_of(f)
                for c in [n for n in walk_no_nested(f.node) if isinstance(n, ast.Call)]:
                    h = U.helper_of(prog, f, c)
                    if h is None:
                        continue
                    cn = cfg.node_containing(c)
                    if cn is None or not cfg.is_reachable(cn):
                        continue
                    called.setdefault(h.qual, (f, c))
                    todo.append(h)
            for m in checks:
                if m.qual in called:
                    f, c = called[m.qual]
                    o.site(f, c, f"{ci.name}.{m.name} is called from {f.name}")
                else:
                    o.refute(m, m.node, m.name, f"validator {ci.name}.{m.name} is defined but never called from "
                             f"{' / '.join(r.name for r in roots) or 'any constructor'}: the definitions it rejects are accepted")
        # checks written (or folded by the normaliser) directly into a constructor / set_units are alive by construction:
        # they count as matched sites, so that merging a validator into its caller does not make the rule vacuous
        for ci in prog.classes.values():
            if ci.module.name not in ('calendar', 'resource'):
                continue
            for n, m in ci.methods.items():
                if n not in ('__init__', 'set_units'):
                    continue
                cfg = cfg_of(m)
                rs = [x for x in walk_no_nested(m.node) if isinstance(x, ast.Raise) and cfg.node_of(x) is not None
                      and cfg.is_reachable(cfg.node_of(x))]
                if rs:
                    o.site(m, rs[0], f"{ci.name}.{n}: {len(rs)} check(s) written in place")
    ctx.guarded(o, body)


# ====================================================================================================== leaf calendars
def _param_field(ctx, init, param, _depth=0):
    """field of self that __init__ stores the (unchanged) parameter into; None if there is not exactly one"""
    ex = Expander(ctx.prog, init, ctx.typer)
    cfg = cfg_of(init)
    hits = []
    for st, tgt, val in facts.attr_stores(init):
        if val is not None and _name(tgt.value, init.params[0]) and _name(ex.expand(val, cfg.node_of(st)), param):
            hits.append((st, tgt.attr))
    if not hits and _depth < 2:
        # the parameter handed on unchanged to an inherited / same-class initialiser that stores it
        for c in [n for n in walk_no_nested(init.node) if isinstance(n, ast.Call)]:
            h = U.helper_of(ctx.prog, init, c)
            if h is None or h.kind != 'method' or any(isinstance(a, ast.Starred) for a in c.args):
                continue
            for q, a in zip(list(h.params)[1:], facts.bound_args(c, h)):
                if a is not None and _name(ex.expand(a, cfg.node_containing(c)), param):
                    sub = _param_field(ctx, h, q, _depth + 1)
                    if sub is not None:
                        hits.append((cfg.node_containing(c).ast if cfg.node_containing(c) is not None else c, sub[1]))
    return hits[0] if len(hits) == 1 else None


def _bounded(ctx, o, cls, out_value, in_check):
    """get_available_units of a calendar with a validity [start, end]: in_check(value expr) inside (bounds included),
    the constant out_value outside; an absent bound does not restrict"""
    prog = ctx.prog
    init = prog.func(f'calendar.{cls}.__init__')
    f = prog.func(f'calendar.{cls}.get_available_units')
    fs, fe = _param_field(ctx, init, 'start'), _param_field(ctx, init, 'end')
    if fs is None or fe is None:
        o.undecided(init, init.node, f'{cls}:bounds', "start / end are not stored unchanged into one field each")
        return
    date = f.params[1]
    ex = Expander(prog, f, ctx.typer)
    S, E = _e(f"{f.params[0]}.{fs[1]}"), _e(f"{f.params[0]}.{fe[1]}")
    pos_name = {5: 'before start', 10: 'exactly at start', 15: 'strictly inside', 20: 'exactly at end', 25: 'after end'}
    ok = True
    for s, e, d in itertools.product((None, 10), (None, 20), (5, 10, 15, 20, 25)):
        inside = (s is None or d >= s) and (e is None or d <= e)
        case = f"date {pos_name[d]}" + (", no start" if s is None else '') + (", no end" if e is None else '')
        r = run_block(f.body, Ev([(S, s, 'exact'), (E, e, 'exact'), (_e(date), d, 'exact')]), ex)
        if r.kind == 'unknown':
            # a validity bound compared with a *truncated / shifted* date instead of the date asked about is a wrong
            # construct whatever the rest looks like: on the boundary day the time of day no longer decides
            for n in walk_no_nested(f.node):
                tests = [n.test] if isinstance(n, (ast.If, ast.IfExp, ast.While)) else ([n.value] if isinstance(n, ast.Return) and n.value is not None else [])
                for t in tests:
                    cn = cfg_of(f).node_containing(t)
                    xt = ex.expand(t, cn) if cn is not None else t
                    for c in [x for x in ast.walk(xt) if isinstance(x, ast.Compare) and len(x.ops) == 1
                              and isinstance(x.ops[0], (ast.Lt, ast.LtE, ast.Gt, ast.GtE))]:
                        for bound, other in ((c.left, c.comparators[0]), (c.comparators[0], c.left)):
                            if not (same(bound, S) or same(bound, E)) or _name(other, date):
                                continue
                            d0 = U.midnight_arg(other)
                            md = match("$d.date()", other)
                            if (d0 is not None and _name(d0, date)) or (md and _name(md['d'], date)) or (
                                    isinstance(other, ast.Call) and isinstance(other.func, ast.Attribute) and other.func.attr == 'replace'
                                    and _name(other.func.value, date)):
                                o.refute(f, n, c, f"{cls}.get_available_units compares its validity bound `{unmangle(src(bound))}` with "
                                                  f"`{src(other)[:60]}` (the date cut to its day) instead of the date asked about: at a time "
                                                  f"of day on the boundary day the calendar answers as if the whole day were inside / outside")
                                return
            o.undecided(f, r.stmt, r.stmt, f"{cls}.get_available_units ({case}): {r.why}")
            return
        if r.kind == 'wouldraise':
            o.refute(f, r.stmt, r.stmt, f"{cls}.get_available_units raises TypeError ({case}): {r.why}")
            return
        if r.kind != 'return':
            o.refute(f, f.node, f"{cls}:{case}", f"{cls}.get_available_units returns nothing ({case})")
            return
        if inside:
            msg = in_check(r.value, f)
            if msg is not None:
                kind, text = msg
                (o.refute if kind == 'bad' else o.undecided)(
                    f, r.stmt, r.stmt, f"{cls} ({case}) returns `{src(r.value)[:60]}`: {text}")
                return
        else:
            v = r.value
            good = isinstance(v, ast.Constant) and not isinstance(v.value, bool) and (
                (out_value is None and v.value is None) or (out_value is not None and v.value is not None and v.value == out_value))
            if not good:
                o.refute(f, r.stmt, r.stmt, f"{cls} ({case}) returns `{src(v)[:60]}` outside its validity, expected {out_value}")
                return
    if ok:
        o.site(f, f.node, f"{cls}: configured value on [start, end] (bounds included, absent bound = unbounded), {out_value} outside")


def _weekly_table(ctx, o, field):
    prog = ctx.prog
    init = prog.func('calendar.WeeklyCalendar.__init__')
    stores = _field_stores(ctx, init, field, 'mapping')
    n = 0
    for S in stores:
        f, stmt, entries = S.func, S.stmt, S.entries
        if entries is None:
            o.undecided(f, stmt, stmt, "store into the day table in a shape the rule does not understand")
            continue
        for en0 in entries:
            if en0.kind in ('empty', 'state'):
                continue
            if en0.kind == 'comp' and en0.ifs:
                o.undecided(f, stmt, stmt, "day table built by a filtered comprehension")
                continue
            if en0.kind in ('comp', 'pair'):
                binds = S.binds(ctx, en0)
                en = S.entry(en0)
            else:
                o.undecided(f, stmt, stmt, "day table copied wholesale from another mapping")
                continue
            key = en.key
            b = next(((t, it) for t, it in binds if isinstance(t, ast.Name) and _name(key, t.id)), None)
            if b is None:
                o.undecided(f, stmt, stmt, "day table key is not a loop variable")
                continue
            i = b[0].id
            mr = match("range($*a)", b[1])
            if not mr or not all(facts.const_num(x) is not None for x in mr['a']):
                o.undecided(f, stmt, b[1], "day table is not filled over a constant range")
                continue
            days = list(range(*[int(facts.const_num(x)) for x in mr['a']]))
            if sorted(days) != list(range(7)):
                o.refute(f, stmt, b[1], f"the day table is filled for week days {days}, expected 0..6 (get_available_units indexes it by weekday())")
                continue
            form = 'list' if U.mentions(en.value, 'days') else 'dict'
            bf = _branch_form(ctx, init, S.outer) if S.outer_func is init else None
            if bf is not None and bf != form:
                o.undecided(f, stmt, stmt, f"day table entry `{src(en.value)[:40]}` in the {bf} form branch does not read "
                                           f"{'the days list' if bf == 'list' else 'the units_per_day mapping'}: shape not followed")
                continue
            pcs = U.path_clauses(prog, f, stmt, ctx.typer, drop_raising=True) if f is init else []
            memb = [a for cl in pcs for a, _ in cl if any(isinstance(x, ast.Compare) and any(isinstance(o_, (ast.In, ast.NotIn)) for o_ in x.ops)
                                                          for x in ast.walk(a))]
            if memb:
                o.undecided(f, stmt, stmt, f"day table entry stored under the condition `{src(memb[0])[:50]}`: shape not followed")
                continue
            cont = 'days' if form == 'list' else 'units_per_day'
            want_in = _e('units_per_day') if form == 'list' else _e(f'units_per_day[{i}]')
            res = {}
            bad = None
            for member in (True, False):
                env = [(_e(f"{i} in {cont}"), member, 'exact'), (_e(f"{i} not in {cont}"), not member, 'exact'),
                       (_e(f"{i} in {cont}.keys()"), member, 'exact'), (_e(f"{i} not in {cont}.keys()"), not member, 'exact')]
                try:
                    leaf = Ev(env).select(en.value)
                except (U.Unknown, U.WouldRaise) as u:
                    bad = ('unk', u.why)
                    break
                m = match("$d.get($k, $c)", leaf)
                if m and form == 'dict' and _name(m['d'], 'units_per_day') and _name(m['k'], i):
                    leaf = want_in if member else m['c']
                res[member] = leaf
            if bad:
                o.undecided(f, stmt, stmt, f"day table value: {bad[1]}")
                continue
            k0 = facts.const_num(res[False])
            if same(res[True], want_in) and k0 is not None and k0 == 0:
                o.site(f, stmt, f"day table ({form} form): {src(want_in)} for configured week days, 0 otherwise, over 0..6")
                n += 1
            elif same(res[False], want_in) and facts.const_num(res[True]) == 0:
                o.refute(f, stmt, stmt, f"day table ({form} form) is inverted: configured week days get 0 and the others get the units")
            elif same(res[True], want_in):
                o.refute(f, stmt, stmt, f"day table ({form} form): week days that are not configured get `{src(res[False])}`, expected 0")
            elif facts.const_num(res[True]) is not None or isinstance(res[True], ast.Name) or isinstance(res[True], ast.Subscript):
                o.refute(f, stmt, stmt, f"day table ({form} form): configured week days get `{src(res[True])}`, expected `{src(want_in)}`")
            else:
                o.undecided(f, stmt, stmt, f"day table ({form} form) value `{src(en.value)[:70]}`")
    if n == 0 and not o.refuted and not o.unknown:
        o.refute(init, init.node, 'day table', "WeeklyCalendar.__init__ never fills the day table")


class _MemberEv(Ev):
    """membership of any key in the given mapping field is the sample; remembers the keys that were tested"""

    def __init__(self, field_expr, member):
        super().__init__([])
        self.field_expr, self.member, self.keys = field_expr, member, []

    def lookup(self, e):
        if isinstance(e, ast.Compare) and len(e.ops) == 1 and isinstance(e.ops[0], (ast.In, ast.NotIn)):
            c = e.comparators[0]
            m = match("$d.keys()", c)
            if same(c, self.field_expr) or (m and same(m['d'], self.field_expr)):
                self.keys.append(e.left)
                return (self.member if isinstance(e.ops[0], ast.In) else not self.member), 'exact'
        return None


def _eafp_lookup(stmts, F):
    """`try: return F[k] / except KeyError: <handler>` (also `x = F[k]` with an else part; KeyError / LookupError, no
    finally) read as `if k in F: <try body + else> else: <handler>`: the only statement of the try body is the
    subscript of the table itself, whose KeyError says exactly "k is not a key".  Anything else stays a Try."""
    out = []
    for st in stmts:
        if isinstance(st, ast.If):
            st2 = ast.If(test=st.test, body=_eafp_lookup(st.body, F), orelse=_eafp_lookup(st.orelse, F))
            out.append(ast.copy_location(st2, st))
            continue
        if isinstance(st, ast.Try) and not st.finalbody and len(st.handlers) == 1 and len(st.body) == 1 and \
                isinstance(st.handlers[0].type, ast.Name) and st.handlers[0].type.id in ('KeyError', 'LookupError'):
            b = st.body[0]
            v = b.value if isinstance(b, (ast.Return, ast.Assign)) else None
            if isinstance(b, ast.Assign) and not (len(b.targets) == 1 and isinstance(b.targets[0], ast.Name)):
                v = None
            if isinstance(v, ast.Subscript) and same(v.value, F) and not any(
                    isinstance(n, ast.Subscript) or (isinstance(n, ast.Call) and U.midnight_arg(n) is None
                                                     and not (isinstance(n.func, ast.Name) and n.func.id == '_day_start'))
                    for n in ast.walk(v.slice)):
                test = ast.Compare(left=v.slice, ops=[ast.In()], comparators=[v.value])
                st2 = ast.If(test=test, body=[b] + list(st.orelse), orelse=list(st.handlers[0].body))
                out.append(ast.fix_missing_locations(ast.copy_location(st2, st)))
                continue
        out.append(st)
    return out


def _direct(ctx, o, field):
    prog = ctx.prog
    f = prog.func('calendar.DirectCalendar.get_available_units')
    date = f.params[1]
    ex = Expander(prog, f, ctx.typer)
    F = _e(f"{f.params[0]}.{field}")
    fbody = _eafp_lookup(f.body, F)

    def midnight_of(x, name):
        d = U.midnight_arg(x)
        return d is not None and _name(d, name)
    good = True
    for member in (True, False):
        ev = _MemberEv(F, member)
        r = run_block(fbody, ev, ex)
        if r.kind in ('unknown', 'wouldraise'):
            o.undecided(f, r.stmt, r.stmt, f"DirectCalendar.get_available_units: {r.why}")
            return
        if r.kind != 'return':
            o.refute(f, f.node, 'direct:return', "DirectCalendar.get_available_units does not return a value")
            return
        v = r.value
        keys = list(ev.keys)
        m = match("$d.get($k)", v) or match("$d.get($k, None)", v)
        if m and same(m['d'], F):
            keys.append(m['k'])
            covered_both = True
        else:
            covered_both = False
            if member:
                m = match("$d[$k]", v)
                if not (m and same(m['d'], F)):
                    o.refute(f, r.stmt, r.stmt, f"DirectCalendar returns `{src(v)[:60]}` for a stored day, expected the stored value")
                    return
                keys.append(m['k'])
            elif not (isinstance(v, ast.Constant) and v.value is None):
                o.refute(f, r.stmt, r.stmt, f"DirectCalendar returns `{src(v)[:60]}` for a day without an entry, expected None")
                return
        if not keys:
            o.undecided(f, r.stmt, r.stmt, "DirectCalendar lookup without a recognisable key")
            return
        for k in keys:
            if not midnight_of(k, date):
                if U.wrong_day_key(k, date):
                    o.refute(f, r.stmt, k, f"DirectCalendar looks the date up as `{src(k)[:60]}`, expected midnight({date}): "
                                           f"a query with a time of day misses the entry of its day")
                else:
                    o.undecided(f, r.stmt, k, f"DirectCalendar looks the date up as `{src(k)[:60]}`: not a recognised spelling of midnight({date})")
                return
        if covered_both:
            break
    o.site(f, f.node, f"DirectCalendar: value stored for midnight({date}), None without an entry")
    # ---- writers key by midnight
    ci = prog.cls('DirectCalendar')
    for w in list(ci.methods.values()) + list(ci.setters.values()):
        stores = _field_stores(ctx, w, field, 'mapping')
        for c, w2, plain in _delegated_writes(ctx, w, field, 'mapping'):
            if plain:
                o.site(w, c, f"DirectCalendar.{w.name} fills the table through {w2.name}")
            else:
                o.undecided(w, c, c, f"DirectCalendar.{w.name} hands a computed mapping to {w2.name}")
        for S in stores:
            stmt, entries = S.outer, S.entries
            if entries is None:
                o.undecided(w, stmt, stmt, "store into the table in a shape the rule does not understand")
                continue
            okk, n = True, 0
            for en0 in entries:
                if en0.kind in ('empty', 'state'):
                    continue
                n += 1
                en = S.entry(en0)
                if en.kind == 'whole':
                    okk = False
                    if isinstance(en.expr, ast.Name) and en.expr.id in w.params:
                        o.refute(w, stmt, stmt, f"DirectCalendar.{w.name} stores the keys of `{src(en.expr)}` as given: dates with a time of "
                                                f"day are not normalised to midnight, so get_available_units never finds them")
                    else:
                        o.undecided(w, stmt, stmt, f"table filled from `{src(en.expr)[:60]}`")
                    continue
                from sa.flow import subst
                binds = [(t, subst(it, S.sub) if S.sub else it) for t, it in S.binds(ctx, en0)]
                kv = None
                for t, it in binds:
                    b = U.items_binding(t, it)
                    if b and b[0] is not None and b[1] is not None:
                        kv = b
                if kv is None:
                    okk = False
                    o.undecided(w, stmt, stmt, "table entries are not taken from `for k, v in <mapping>.items()`")
                    continue
                k, v, D = kv
                if en.ifs:
                    cond = en.ifs[0] if len(en.ifs) == 1 else ast.BoolOp(op=ast.And(), values=list(en.ifs))
                    dropped = None
                    try:
                        for sgn in (0, 1):
                            if not Ev([(_e(v), sgn, 'sign')]).truth(cond):
                                dropped = sgn
                                break
                    except (U.Unknown, U.WouldRaise) as u_:
                        okk = False
                        o.undecided(w, stmt, stmt, f"table entries are filtered by `{src(cond)[:50]}`: {u_.why}")
                        continue
                    if dropped is not None:
                        okk = False
                        o.refute(w, stmt, cond, f"DirectCalendar.{w.name} stores only the entries with `{src(cond)[:50]}`: a configured value that is "
                                                f"{SIGN_NAME[dropped]} is dropped, so the day reads back as None (no information) instead of the "
                                                f"configured value" + (" and does not override an earlier entry" if w.name != '__init__' else ''))
                        continue
                if midnight_of(en.key, k) and _name(en.value, v):
                    continue
                okk = False
                if _name(en.key, k):
                    o.refute(w, stmt, stmt, f"DirectCalendar.{w.name} stores the key `{k}` as given: dates with a time of day are not "
                                            f"normalised to midnight, so get_available_units never finds them")
                elif not _name(en.value, v) and midnight_of(en.key, k):
                    o.refute(w, stmt, stmt, f"DirectCalendar.{w.name} stores `{src(en.value)[:50]}` instead of the configured value `{v}`")
                else:
                    o.undecided(w, stmt, stmt, f"table key `{src(en.key)[:60]}`")
            if okk and n:
                o.site(w, stmt, f"DirectCalendar.{w.name}: entries keyed by midnight(date), values as given")


def _leaf_semantics(ctx):
    prog = ctx.prog
    o = ctx.ob('leaf_semantics', 'R8', "Weekly: day table[weekday] inside validity / None outside, table = units on configured week "
               "days and 0 otherwise over 0..6; Fixed: units inside / 0 outside; Direct: value stored for midnight(date) / None; "
               "constructor and set_units key by midnight", floor=8)

    def body(o):
        # ---- Weekly
        vf = _value_field(ctx, 'WeeklyCalendar')
        if vf is None or vf[1] != 'mapping':
            o.undecided(prog.func('calendar.WeeklyCalendar.get_available_units'), None, 'Weekly', "day table field not recognised")
        else:
            wf = vf[0]

            def in_weekly(v, f):
                m = match("self.$f[$k]", v)
                if isinstance(v, ast.Constant):
                    return ('bad', "inside its validity (bounds included) the calendar must answer with its day table entry")
                if not m or m['f'] != wf:
                    return ('unk', "not an entry of the day table")
                mk = match("$d.weekday()", m['k'])
                if mk and _name(mk['d'], f.params[1]):
                    return None
                if match("$d.$m()", m['k']) or (isinstance(m['k'], ast.BinOp)):
                    return ('bad', f"the day table (keys 0 = Monday .. 6) is indexed by `{src(m['k'])}`, expected {f.params[1]}.weekday()")
                return ('unk', "unrecognised index")
            _bounded(ctx, o, 'WeeklyCalendar', None, in_weekly)
            _weekly_table(ctx, o, wf)
        # ---- Fixed
        init = prog.func('calendar.FixedCalendar.__init__')
        fu = _param_field(ctx, init, 'units')
        if fu is None:
            o.undecided(init, init.node, 'Fixed:units', "units is not stored unchanged into one field")
        else:
            o.site(init, fu[0], f"FixedCalendar.{unmangle(fu[1])} = units")

            def in_fixed(v, f):
                m = match("self.$f", v)
                if m and m['f'] == fu[1]:
                    return None
                if isinstance(v, ast.Constant) or m:
                    return ('bad', "inside its validity (bounds included) the calendar must answer with the configured units")
                return ('unk', "not the configured units")
            _bounded(ctx, o, 'FixedCalendar', 0, in_fixed)
        # ---- Direct
        vf = _value_field(ctx, 'DirectCalendar')
        if vf is None or vf[1] != 'mapping':
            o.undecided(prog.func('calendar.DirectCalendar.get_available_units'), None, 'Direct', "table field not recognised")
        else:
            _direct(ctx, o, vf[0])
        # ---- the validated table is not handed out: a method that returns the mapping itself (not a copy) lets a caller
        # reconfigure the calendar without any validation
        for cls in (('WeeklyCalendar', 'DirectCalendar') if str(getattr(o, 'id', '')).startswith('C17') else ()):
            # (only under C17: the scheduler properties that share this check do not speak about who may edit a calendar)
            vf = _value_field(ctx, cls)
            if vf is None or vf[1] != 'mapping':
                continue
            ci = prog.cls(cls)
            for m_ in list(ci.methods.values()) + list(ci.getters.values()):
                if m_.name.startswith('__') or m_.kind == 'static' or not m_.params:
                    continue
                exm = Expander(prog, m_, ctx.typer)
                for rt in [n for n in walk_no_nested(m_.node) if isinstance(n, ast.Return) and n.value is not None]:
                    for _, leaf in _ret_leaves(exm.expand(rt.value)):
                        if isinstance(leaf, ast.Attribute) and leaf.attr == vf[0] and _name(leaf.value, m_.params[0]):
                            o.refute(m_, rt, rt, f"{cls}.{m_.name} returns the internal table `{unmangle(vf[0])}` itself, not a copy: a caller "
                                                 f"editing the returned dict changes what the calendar answers, without the 0..6 / "
                                                 f">= 0 validation of its definition")
    ctx.guarded(o, body)


# ====================================================================================================== Resource: None -> 0
def _is_abstract_stub(f):
    body = [st for st in f.body if not (isinstance(st, ast.Expr) and isinstance(st.value, ast.Constant))]
    return all(isinstance(st, ast.Pass) for st in body) or any(
        getattr(d, 'id', getattr(d, 'attr', '')) == 'abstractmethod' for d in f.node.decorator_list)


def _resource_defs(prog, name):
    """every concrete definition of method `name` in IResource and its subclasses (base first)"""
    out = []
    for ci in [prog.cls('IResource')] + prog.subclasses('IResource'):
        m = ci.methods.get(name)
        if m is not None and not _is_abstract_stub(m):
            out.append(m)
    return out


def _copy_call(g):
    """the constructor call a copy method returns (`return K(..)`), else None"""
    rets = [n for n in walk_no_nested(g.node) if isinstance(n, ast.Return)]
    if len(rets) == 1 and isinstance(rets[0].value, ast.Call) and isinstance(rets[0].value.func, ast.Name):
        return rets[0].value
    return None


def _copy_loses(ctx, g):
    """g = a method of calendar class K of the shape `return K(args)`: the fields that K.get_available_units reads and
    that the copy does not take over from self (every constructor parameter that feeds the field is absent from the
    call or bound to a constant).  [] when every such field is handed over; None when g is not in that shape."""
    prog = ctx.prog
    call = _copy_call(g)
    if call is None or not g.cls or call.func.id != g.cls or not g.params:
        return None
    if any(isinstance(a, ast.Starred) for a in call.args) or any(k.arg is None for k in call.keywords):
        return None
    init = prog.find_method(g.cls, '__init__')
    q = prog.find_method(g.cls, 'get_available_units')
    if init is None or q is None or not q.params or not init.params:
        return None
    read = []
    for n in walk_no_nested(q.node):
        if isinstance(n, ast.Attribute) and isinstance(n.ctx, ast.Load) and _name(n.value, q.params[0]) and n.attr not in read \
                and facts.attr_stores(init, n.attr):
            read.append(n.attr)
    params = list(init.params)[1:]
    args = dict(zip(params, facts.bound_args(call, init)))
    lost = []
    exi = Expander(prog, init, ctx.typer)
    cfgi = cfg_of(init)
    for fld in read:
        feeding = set()
        vals = [(st, val) for st, tgt, val in facts.attr_stores(init, fld) if val is not None]
        for n in walk_no_nested(init.node):             # entries of a table field: `self.F[k] = v`
            if isinstance(n, ast.Assign) and len(n.targets) == 1 and isinstance(n.targets[0], ast.Subscript) and \
                    isinstance(n.targets[0].value, ast.Attribute) and n.targets[0].value.attr == fld and _name(n.targets[0].value.value, init.params[0]):
                vals.append((n, n.value))
        for st, val in vals:
            try:
                val = exi.expand(val, cfgi.node_of(st))
            except Exception:
                pass
            feeding |= {n.id for n in ast.walk(val) if isinstance(n, ast.Name) and n.id in params}
        if not feeding:
            return None
        if all(args.get(p_) is None or isinstance(args.get(p_), ast.Constant) for p_ in feeding):
            lost.append(fld)
    return lost


def _none_zero(ctx):
    prog = ctx.prog
    o = ctx.ob('none_is_zero', 'R8', "Resource.get_available_units returns 0 where the calendar has no information, the calendar "
               "value otherwise, for the date asked, and writes no state (no memo)", floor=2)

    def body(o):
        prog.func('resource.Resource.get_available_units')          # anchor
        for f in _resource_defs(prog, 'get_available_units'):
            one(o, f)
        truthiness(o)
        if str(getattr(o, 'id', '')).startswith('C17'):
            # (only under C17: the scheduler properties that share this check take the resource's calendar as it is)
            derived_calendar(o)

    def derived_calendar(o):
        """the resource's calendar is the calendar it was given: a constructor that keeps `calendar.clone()` (or
        another object derived from the argument) answers from that object.  A clone method that builds the copy
        without handing over every field the class's get_available_units reads (WeeklyCalendar.clone: only the day
        table, not start / end) makes the resource answer with capacity outside the given calendar's validity."""
        for ci in [prog.cls('IResource')] + prog.subclasses('IResource'):
            init = ci.methods.get('__init__')
            if init is None or len(init.params) < 2:
                continue
            exi = Expander(prog, init, ctx.typer)
            cfgi = cfg_of(init)
            for st, tgt, val in facts.attr_stores(init, 'calendar'):
                if val is None or not _name(tgt.value, init.params[0]):
                    continue
                for _, leaf in _ret_leaves(exi.expand(val, cfgi.node_of(st))):
                    if not isinstance(leaf, ast.Call):
                        continue
                    ps = [n.id for n in ast.walk(leaf) if isinstance(n, ast.Name) and n.id in init.params[1:]]
                    if not ps:
                        continue
                    if match("copy.copy($x)", leaf) or match("copy.deepcopy($x)", leaf) or match("deepcopy($x)", leaf):
                        continue            # a faithful copy answers like the original
                    m = match("$x.$m()", leaf)
                    if not (m and isinstance(m['x'], ast.Name) and m['x'].id in init.params[1:]):
                        o.undecided(init, st, leaf, f"{ci.name} keeps `{src(leaf)[:60]}` as its calendar: an object derived from the "
                                                    f"argument, not followed")
                        continue
                    meth = unmangle(leaf.func.attr)
                    defs = [c.methods[meth] for c in prog.subclasses('IWorkCalendar') if meth in c.methods]
                    if not defs:
                        o.undecided(init, st, leaf, f"{ci.name} keeps `{src(leaf)[:60]}` as its calendar: no calendar class of the "
                                                    f"package defines {meth}")
                        continue
                    for g in defs:
                        lost = _copy_loses(ctx, g)
                        if lost is None:
                            o.undecided(init, st, leaf, f"{ci.name} keeps `{src(leaf)[:60]}` as its calendar; {g.cls}.{meth} is not "
                                                        f"`return {g.cls}(<fields of self>)`: not followed")
                        elif lost:
                            o.refute(init, st, leaf, f"{ci.name} answers from `{src(leaf)[:60]}` instead of the calendar it was given, and "
                                                     f"{g.cls}.{meth} builds the copy without {', '.join(unmangle(x).lstrip('_') for x in lost)} "
                                                     f"(`{src(_copy_call(g))[:70]}`): the copy does not answer like the given calendar "
                                                     f"(outside its validity the resource reports capacity instead of 0, and the availability "
                                                     f"search returns dates there)")

    def stale_alias(o, f):
        """the answer is taken through an attribute that __init__ derived from the calendar argument (`self._cal =
        calendar`, `self._units = calendar.get_available_units`) while the class also keeps the public, assignable
        `self.calendar`: a calendar assigned later is ignored.  True after a refutation"""
        init = prog.find_method(f.cls, '__init__') if f.cls else None
        if init is None or not f.params or not init.params:
            return False
        exi = Expander(prog, init, ctx.typer)
        cfgi = cfg_of(init)
        src_param, aliases = None, {}
        for st, tgt, val in facts.attr_stores(init):
            if val is None or not _name(tgt.value, init.params[0]):
                continue
            v = exi.expand(val, cfgi.node_of(st))
            if tgt.attr == 'calendar':
                roots = [n.id for n in ast.walk(v) if isinstance(n, ast.Name) and n.id in init.params[1:]]
                src_param = roots[0] if roots else src_param
            else:
                aliases[tgt.attr] = (st, v)
        if src_param is None:
            return False
        for c in [n for n in walk_no_nested(f.node) if isinstance(n, ast.Call)]:
            fn = c.func
            root = fn
            while isinstance(root, ast.Attribute) and not _name(root.value, f.params[0]):
                root = root.value
            if not (isinstance(root, ast.Attribute) and _name(root.value, f.params[0]) and root.attr in aliases):
                continue
            st, v = aliases[root.attr]
            if (_name(v, src_param) or match(f"{src_param}.get_available_units", v)) and \
                    not facts.attr_stores(f, root.attr) and len(facts.attr_stores(init, root.attr)) == 1:
                if any(m_ is not init and facts.attr_stores(m_, root.attr) for m_ in prog.cls(f.cls).methods.values()) or \
                        any(facts.attr_stores(m_, root.attr) for m_ in prog.cls(f.cls).setters.values()):
                    continue            # the alias is refreshed somewhere (e.g. by a calendar setter): not decided here
                o.refute(f, c, c, f"{f.cls}.get_available_units answers through `self.{unmangle(root.attr)}`, which __init__ derived once from the "
                                  f"calendar argument (`{src(st)[:70]}`), instead of asking `self.calendar`: a calendar assigned to the "
                                  f"resource later is ignored, the answer is not its calendar's value for the date")
                return True
        return False

    def truthiness(o):
        """the resource's calendar is the one it was given: a truth test of a calendar object (`calendar or DEFAULT`,
        `if not self.calendar`) replaces / ignores a calendar whose class defines __len__ or __bool__ when it is empty"""
        falsy = [(ci, m) for ci in prog.subclasses('IWorkCalendar') for m in ('__bool__', '__len__') if m in ci.methods]
        if not falsy:
            return
        for ci in [prog.cls('IResource')] + prog.subclasses('IResource'):
            for name in ('__init__', 'get_available_units'):
                f = ci.methods.get(name)
                if f is None or not f.params:
                    continue
                me = f.params[0]

                def is_cal(x):
                    return (isinstance(x, ast.Name) and x.id == 'calendar' and x.id in f.params) or \
                        (isinstance(x, ast.Attribute) and x.attr == 'calendar' and _name(x.value, me))
                for n in walk_no_nested(f.node):
                    tested = []
                    if isinstance(n, ast.BoolOp):
                        tested += n.values[:-1]
                    if isinstance(n, (ast.If, ast.IfExp, ast.While)):
                        tested.append(n.test)
                    for t in tested:
                        while isinstance(t, ast.UnaryOp) and isinstance(t.op, ast.Not):
                            t = t.operand
                        if is_cal(t):
                            cn, mn = falsy[0][0].name, falsy[0][1]
                            o.refute(f, n, n, f"{ci.name}.{name} tests the truth value of its calendar (`{src(n)[:60]}`), and {cn} defines "
                                              f"{mn}: a {cn} that is empty is falsy, so the resource replaces / ignores the calendar it was "
                                              f"given instead of reporting 0 where that calendar has no information (use `is None`)")
                            return

    def one(o, f):
        date = f.params[1]
        eff = Effects(prog, ctx.typer, ctx.cg)
        ws = [w for w in eff.direct_writes(f) if w.root != 'fresh']
        for w in ws:
            o.refute(f, w.node, w.node, f"Resource.get_available_units writes state ({unmangle(w.field)}): the answer for a date is "
                                        f"frozen/shared across queries (memo) instead of being the calendar's value for that date")
        if ws:
            return
        o.site(f, f.node, "no state written")
        ex = Expander(prog, f, ctx.typer)
        calls = [c for c in walk_no_nested(f.node) if isinstance(c, ast.Call) and isinstance(c.func, ast.Attribute)
                 and c.func.attr == 'get_available_units']
        if stale_alias(o, f):
            return
        if len(calls) != 1:
            o.undecided(f, f.node, 'calendar query', f"{len(calls)} calendar queries")
            return
        c = ex.expand(calls[0])
        m = match("self.calendar.get_available_units($d)", c)
        if not m:
            o.undecided(f, calls[0], calls[0], f"{f.cls}: the query is not self.calendar.get_available_units(date)")
            return
        if not _name(m['d'], date):
            o.refute(f, calls[0], calls[0], f"the calendar is asked about `{src(m['d'])[:60]}` instead of the date `{date}`")
            return
        for s in (None, 0, 1):
            r = run_block(f.body, Ev([(c, s, 'sign')]), ex)
            if r.kind in ('unknown',):
                # a return path that computes the answer from the calendar's internals / the date in another way than
                # through the calendar's own get_available_units(date) is a wrong construct whatever its condition is
                for rt in [n for n in walk_no_nested(f.node) if isinstance(n, ast.Return) and n.value is not None]:
                    for conds, leaf in _ret_leaves(ex.expand(rt.value)):
                        asks = any(isinstance(x, ast.Call) and isinstance(x.func, ast.Attribute) and x.func.attr == 'get_available_units'
                                   for x in ast.walk(leaf))
                        if not asks and facts.const_num(leaf) is None and not isinstance(leaf, ast.Constant) and \
                                (U.mentions(leaf, date) or any(isinstance(x, ast.Attribute) and x.attr == 'calendar' for x in ast.walk(leaf))):
                            cl = U.path_clauses(prog, f, rt, ctx.typer)
                            o.refute(f, rt, rt, f"Resource.get_available_units answers `{src(leaf)[:60]}`"
                                     + (" when " + ' and '.join(U.clause_text(c) for c in cl) if cl else '') +
                                     f" without asking its calendar's get_available_units({date}): the answer is not the calendar's value "
                                     f"for the date (validity bounds, combinators and overrides are bypassed)")
                            return
                o.undecided(f, r.stmt, r.stmt, f"Resource.get_available_units: {r.why}")
                return
            if r.kind != 'return':
                o.refute(f, r.stmt or f.node, r.stmt or 'return', f"Resource.get_available_units does not return a value when the calendar says {SIGN_NAME[s]} ({r.kind})")
                return
            v = r.value
            k = facts.const_num(v)
            if s is None:
                if not (k is not None and k == 0 and not isinstance(getattr(v, 'value', 0), bool)):
                    o.refute(f, r.stmt, r.stmt, f"Resource reports `{src(v)[:50]}` where its calendar has no information, expected 0")
                    return
            elif not (same(v, c) or (s == 0 and k is not None and k == 0)):
                o.refute(f, r.stmt, r.stmt, f"Resource reports `{src(v)[:50]}` when the calendar value is {SIGN_NAME[s]}, expected the calendar value")
                return
        o.site(f, calls[0], "None -> 0, value otherwise")
    ctx.guarded(o, body)


# ====================================================================================================== availability search
def _lin_dir(x, direction):
    """x as a multiple of `direction` -> ('dir', k) | a constant -> ('const', k) | None"""
    k = facts.const_num(x)
    if k is not None:
        return ('const', k)
    if _name(x, direction):
        return ('dir', 1)
    if isinstance(x, ast.UnaryOp) and isinstance(x.op, ast.USub):
        r = _lin_dir(x.operand, direction)
        return (r[0], -r[1]) if r else None
    if isinstance(x, ast.BinOp) and isinstance(x.op, ast.Mult):
        a, b = _lin_dir(x.left, direction), _lin_dir(x.right, direction)
        if a and b and 'const' in (a[0], b[0]):
            kind = 'dir' if 'dir' in (a[0], b[0]) else 'const'
            return (kind, a[1] * b[1])
    return None


def _day_step(v, direction):
    """timedelta expression in days as ('dir', k) / ('const', k)"""
    if isinstance(v, ast.UnaryOp) and isinstance(v.op, ast.USub):
        r = _day_step(v.operand, direction)
        return (r[0], -r[1]) if r else None
    if isinstance(v, ast.BinOp) and isinstance(v.op, ast.Mult):
        for a, b in ((v.left, v.right), (v.right, v.left)):
            t, l = _day_step(a, direction), _lin_dir(b, direction)
            if t and l and 'const' in (t[0], l[0]):
                return ('dir' if 'dir' in (t[0], l[0]) else 'const', t[1] * l[1])
        return None
    if isinstance(v, ast.Call) and _name(v.func, 'timedelta'):
        if len(v.args) == 1 and not v.keywords:
            return _lin_dir(v.args[0], direction)
        if not v.args and len(v.keywords) == 1:
            kw = v.keywords[0]
            r = _lin_dir(kw.value, direction)
            if r is None:
                return None
            scale = {'days': 1.0, 'weeks': 7.0, 'hours': 1 / 24.0, 'minutes': 1 / 1440.0, 'seconds': 1 / 86400.0}.get(kw.arg)
            if scale is None:
                return None
            return (r[0], r[1] * scale)
    return None


def _search_bounded(ctx, f):
    """-> ('refute', [(node, construct, message)]) | ('ok', [(node, note)]) | ('unknown', why)"""
    prog = ctx.prog
    if 'direction' not in f.params or 'max_days' not in f.params or len(f.params) < 2:
        return 'unknown', "parameters direction / max_days not found"
    loops = [n for n in walk_no_nested(f.node) if isinstance(n, (ast.For, ast.While))]
    anchor = loops[0] if loops else f.node
    found = {}
    notes = {}
    for N in (1, 2, 3, 4):
        for direction in (1, -1):
            span = list(range(-(N + 2), N + 3))
            oracles = [set(), set(span)] + [{x} for x in span] + [{x, x + direction} for x in span]
            for avail in oracles:
                shift = -1 if direction < 0 else 0
                exp = next((k for k in range(N) if k * direction + shift in avail), None)
                sim = U.SearchSim(prog, f, avail, direction, N)
                try:
                    kind, val = sim.run()
                except U.SimUnknown as u:
                    return 'unknown', f"{u.why or 'unsupported construct'} (`{src(u.node)[:50]}`)" if isinstance(u.node, ast.AST) else (u.why or '?')
                dname = 'forward' if direction == 1 else 'backward'
                days = "no day" if not avail else ("every day" if len(avail) > 2 else "only " + ' and '.join(f"start{x:+d}d" for x in sorted(avail)))
                case = f"max_days={N}, {dname} (direction={direction:+d}), positive capacity on {days}"
                tested = "the date itself" if direction == 1 else "the day before the date"
                cat = msg = None
                if kind == 'timeout':
                    cat, msg = 'no-termination', f"{case}: the search does not end (the horizon is never enforced)"
                elif kind == 'fall' or (kind == 'return' and not isinstance(val, U.SDate)):
                    if exp is None:
                        cat, msg = 'no-error', f"{case}: the search returns `{val}` instead of raising RuntimeError"
                    else:
                        cat, msg = 'no-date', f"{case}: the search returns `{val}`, expected the date start{exp * direction:+d}d"
                elif kind == 'raise':
                    if exp is not None:
                        cat, msg = 'gives-up-early', (f"{case}: raises {val} after probing {len(sim.probes)} date(s) although start{exp * direction:+d}d "
                                                      f"(candidate {exp + 1} of {N}; {tested} has capacity) lies within the horizon")
                    elif val != 'RuntimeError':
                        cat, msg = 'wrong-exception', f"{case}: an exhausted search raises {val}, expected RuntimeError"
                else:
                    if exp is None:
                        cat, msg = 'beyond-horizon', (f"{case}: returns {val!r} after probing {len(sim.probes)} date(s), expected RuntimeError - "
                                                      f"no candidate within max_days whole-day steps has capacity on {tested} "
                                                      f"(the horizon is max_days examined dates; a horizon test that comes after the probe examines one more)")
                    elif abs(val.off - exp * direction) > 1e-9:
                        cat, msg = 'wrong-date', (f"{case}: returns {val!r}, expected start{exp * direction:+d}d (the earliest candidate at a whole-day "
                                                  f"offset for which {tested} has positive capacity, returned unmodified)")
                if cat is not None:
                    found.setdefault(cat, msg)
                else:
                    notes.setdefault(('ret' if exp is not None else 'exhausted', direction), case)
    if found:
        return 'refute', [(anchor, f"bounded:{c}", "search evaluated on a small input - " + m) for c, m in sorted(found.items())]
    # no deviation on the small inputs.  That only generalises when the function is linear in its inputs with unit
    # constants: every number written in it (outside the error message) must be 0 or 1
    skip = set()
    for n in walk_no_nested(f.node):
        if isinstance(n, ast.Raise) or (isinstance(n, ast.Expr) and isinstance(n.value, ast.Constant)):
            skip |= {id(x) for x in ast.walk(n)}
    for st in f.body:
        for n in [st] + list(walk_no_nested(st)):
            if isinstance(n, ast.Constant) and id(n) not in skip and isinstance(n.value, (int, float)) and not isinstance(n.value, bool) \
                    and n.value not in (0, 1):
                return 'unknown', f"no deviation for max_days 1..4, but the constant {n.value!r} keeps that from generalising"
    out = []
    for direction in (1, -1):
        out.append((anchor, f"bounded evaluation, direction {direction:+d}: the earliest candidate with capacity is returned unmodified"))
        out.append((anchor, f"bounded evaluation, direction {direction:+d}: whole-day steps, the tested day is " + ("the date" if direction == 1 else "date - 1 day")))
        out.append((anchor, f"bounded evaluation, direction {direction:+d}: exactly max_days candidates, then RuntimeError"))
    out.append((anchor, "bounded evaluation: max_days 1..4, capacity on no / one / two adjacent / all days"))
    return 'ok', out


def _search(ctx):
    prog = ctx.prog
    o = ctx.ob('search', 'R8', "get_nearest_availability_date: counter from 0, `while counter < max_days`; forward tests the current "
               "date, backward tests date - 1 day, capacity > 0; returns the unmodified current date; date += direction days and "
               "counter += 1 once per iteration after the last use of the date; RuntimeError after the loop", floor=7)

    def body(o):
        base = prog.func('resource.IResource.get_nearest_availability_date')
        for f in _resource_defs(prog, 'get_nearest_availability_date'):
            if f is base or f.qual == base.qual:
                one(o, f)
            else:
                override(o, f, base)

    def override(o, f, base):
        """an override must keep the search: either it is the search loop itself, or it only delegates to the inherited
        search with the caller's start date, direction and horizon"""
        if any(isinstance(n, (ast.While, ast.For)) for n in walk_no_nested(f.node)):
            one(o, f)
            return
        fl = flow_of(f)
        ex = Expander(prog, f, ctx.typer)
        rets = [n for n in walk_no_nested(f.node) if isinstance(n, ast.Return)]
        if not rets:
            o.refute(f, f.node, f.cls, f"{f.cls} overrides get_nearest_availability_date and never returns a date")
            return
        names = list(base.params[1:])
        ok = True
        for r in rets:
            v = ex.expand(r.value) if r.value is not None else None
            m = v is not None and (match("super().get_nearest_availability_date($*a)", v)
                                   or match("IResource.get_nearest_availability_date(self, $*a)", v))
            if not m or any(isinstance(x, ast.Starred) for x in m['a']):
                if isinstance(v, (ast.Name, ast.Constant, ast.BinOp)) or v is None:
                    o.refute(f, r, r, f"{f.cls}.get_nearest_availability_date returns `{src(v) if v is not None else None}` without searching: "
                                      f"the result is not the nearest date with positive capacity")
                else:
                    o.undecided(f, r, r, f"{f.cls} overrides get_nearest_availability_date in a shape the rule does not understand")
                ok = False
                continue
            call = v
            given = dict(zip(names, m['a']))
            for k in call.keywords:
                given[k.arg] = k.value
            for p in names:
                role = {'max_days': 'horizon', 'direction': 'direction'}.get(p, 'start date')
                if p not in f.params:
                    o.undecided(f, r, r, f"{f.cls} override has no parameter {p}")
                    ok = False
                    continue
                redef = [d for d in fl.defs_of(p) if d.kind != 'param']
                if redef:
                    o.refute(f, redef[0].stmt, redef[0].stmt, f"{f.cls} overrides get_nearest_availability_date and changes the {role} "
                                                              f"`{p}` before delegating to the inherited search: the search no longer covers the caller's "
                                                              f"{role} (RuntimeError must be raised exactly when no date exists within the horizon)")
                    ok = False
                elif p not in given:
                    if p == 'max_days':
                        o.refute(f, r, r, f"{f.cls} override does not pass the caller's max_days on: the inherited default horizon is used")
                        ok = False
                elif not _name(given[p], p):
                    o.refute(f, r, given[p], f"{f.cls} overrides get_nearest_availability_date and passes `{src(given[p])[:50]}` as {role} "
                                              f"instead of the caller's `{p}`")
                    ok = False
        # "only delegates": a raise on the way to the delegation is an answer given without searching
        cfg_ = cfg_of(f)
        for rs in [n for n in walk_no_nested(f.node) if isinstance(n, ast.Raise) and cfg_.node_of(n) is not None and cfg_.is_reachable(cfg_.node_of(n))]:
            cl = U.path_clauses(prog, f, rs, ctx.typer)
            when = ' and '.join(U.clause_text(c) for c in cl)[:120]
            if any(isinstance(x, ast.Attribute) and x.attr == 'get_available_units' for c in cl for a, _ in c for x in ast.walk(a)) or \
                    any(U.mentions(a, 'direction') for c in cl for a, _ in c):
                o.undecided(f, rs, rs, f"{f.cls} override raises before delegating when {when}: a shortcut that looks at the capacity / "
                                       f"the direction itself, not followed")
            else:
                o.refute(f, rs, rs, f"{f.cls} overrides get_nearest_availability_date and raises without searching"
                         + (f" when {when}" if when else '') + ": RuntimeError must be raised exactly when no date with positive capacity "
                         "exists within the horizon in the search direction, and this condition consults neither the capacity nor the direction "
                         "(e.g. a backward search from after a calendar's end walks back into its validity)")
            ok = False
        if ok:
            # the defaults of the override must agree with the base (max_days=100000)
            o.site(f, f.node, f"{f.cls} override only delegates to the inherited search with unchanged arguments")

    def one(o, f):
        rec = _Rec()
        strict(rec, f)
        if rec.bad() or rec.refuted():
            # the loop is not in the armed `while counter < max_days` shape (or the shape rule found fault with it):
            # evaluate the function as written on small inputs (every horizon 1..4, both directions, capacity on
            # no / one / two adjacent / all days).  A refutation needs a concrete deviating input when the function
            # can be evaluated; a shape complaint that no input confirms is dropped.
            kind, data = _search_bounded(ctx, f)
            if kind == 'refute' and not rec.refuted():
                for node, construct, msg in data:
                    o.refute(f, node, construct, msg)
                return
            if kind == 'ok':
                for node, note in data:
                    o.site(f, node, note)
                return
            if kind == 'unknown' and not rec.refuted():
                rec.undecided(f, f.node, 'bounded evaluation', f"bounded evaluation of the search not possible: {data}")
        rec.replay(o)

    def strict(o, f):
        for p in ('direction', 'max_days'):
            if p not in f.params:
                o.fail(f"get_nearest_availability_date has no parameter {p}")
                return
        D = f.params[1]
        stmts = [s for s in f.body if not (isinstance(s, ast.Expr) and isinstance(s.value, ast.Constant))]
        idx = [i for i, s in enumerate(stmts) if isinstance(s, ast.While)]
        loops = [n for n in walk_no_nested(f.node) if isinstance(n, (ast.For, ast.While))]
        if len(idx) != 1 or len(loops) != 1 or stmts[idx[0]].orelse:
            o.undecided(f, f.node, 'loop', "the search is not a single top-level while loop")
            return
        pre, loop, tail = stmts[:idx[0]], stmts[idx[0]], stmts[idx[0] + 1:]
        cfg = cfg_of(f)
        fl = flow_of(f)
        ex = Expander(prog, f, ctx.typer)
        # the date variable: the start date parameter itself, or a local copy of it taken before the loop
        stored_in_loop = set()
        for n in walk_no_nested(loop):
            if isinstance(n, (ast.Assign, ast.AugAssign)):
                for t in (n.targets if isinstance(n, ast.Assign) else [n.target]):
                    if isinstance(t, ast.Name):
                        stored_in_loop.add(t.id)
        if D not in stored_in_loop:
            copies = [st.targets[0].id for st in pre if isinstance(st, ast.Assign) and len(st.targets) == 1
                      and isinstance(st.targets[0], ast.Name) and _name(st.value, D) and st.targets[0].id in stored_in_loop]
            if len(copies) == 1 and not [d for d in fl.defs_of(D) if d.kind != 'param'] and \
                    len([d for d in fl.defs_of(copies[0]) if d.node is not None and not any(d.stmt is x for x in ast.walk(loop))]) == 1:
                D = copies[0]
        # ---- (a) horizon test
        c = U.compare_atom(loop.test, True)
        if c is None:
            o.undecided(f, loop, loop.test, "loop test is not a comparison")
            return
        l, op, r = c
        if _name(l, 'max_days'):
            l, op, r = r, U._FLIP[op], l
        if isinstance(l, ast.Name) and isinstance(r, ast.BinOp) and isinstance(r.op, (ast.Add, ast.Sub, ast.Mult, ast.FloorDiv, ast.Div)) \
                and U.mentions(r, 'max_days') and (facts.const_num(r.left) is not None or facts.const_num(r.right) is not None):
            o.refute(f, loop, loop.test, f"the horizon is `{src(r)}` instead of max_days")
            return
        if not (isinstance(l, ast.Name) and _name(r, 'max_days')):
            o.undecided(f, loop, loop.test, "loop test does not compare a counter with max_days")
            return
        K = l.id
        redef = [d for d in fl.defs_of('max_days') if d.kind != 'param']
        if redef:
            o.refute(f, redef[0].stmt, redef[0].stmt, "the horizon `max_days` is changed inside the search: RuntimeError must be raised "
                                                      "exactly when no date exists within the caller's horizon")
            return
        simple = (ast.Assign, ast.AnnAssign, ast.AugAssign, ast.Expr, ast.Pass)
        early = [st for st in pre if not isinstance(st, simple)]
        if early:
            o.undecided(f, early[0], early[0], "code before the search loop can leave the function or branch: the loop shape alone does not decide the result")
        if op == '<':
            pass
        elif op == '<=':
            o.refute(f, loop, loop.test, f"`{src(loop.test)}` examines max_days + 1 dates: the horizon is max_days whole days (`{K} < max_days`)")
            return
        elif op in ('>', '>=', '=='):
            o.refute(f, loop, loop.test, f"`{src(loop.test)}`: the loop must run while the counter is below the horizon (`{K} < max_days`)")
            return
        else:
            o.undecided(f, loop, loop.test, f"loop test uses `{op}`")
            return
        inits = [s for s in pre if isinstance(s, ast.Assign) and any(_name(t, K) for t in s.targets)]
        if len(inits) != 1:
            o.undecided(f, loop, K, "the counter is not initialised exactly once before the loop")
            return
        k0 = facts.const_num(inits[0].value)
        if k0 is None:
            o.undecided(f, inits[0], inits[0], "counter start is not a constant")
            return
        if k0 != 0:
            o.refute(f, inits[0], inits[0], f"the counter starts at {k0}: the search examines max_days - {k0} dates instead of max_days")
            return
        o.site(f, loop, f"{K} = 0; while {K} < max_days")
        # ---- capacity queries
        calls = []
        for st in loop.body:
            for n in ast.walk(st):
                if isinstance(n, ast.Call) and isinstance(n.func, ast.Attribute) and n.func.attr == 'get_available_units':
                    calls.append(n)
        if not calls:
            o.refute(f, loop, 'capacity', "the search never asks the resource for its capacity")
            return
        xcalls = []
        for n in calls:
            xc = ex.expand(n)
            if not _name(xc.func.value, f.params[0]) or not xc.args or xc.keywords and any(k.arg == 'date' for k in xc.keywords):
                o.undecided(f, n, n, "capacity query in an unrecognised shape")
                return
            xcalls.append((n, xc))
        # "positive capacity" is `> 0`: a comparison of the capacity with another positive number is a threshold
        for n in walk_no_nested(loop):
            t = n.test if isinstance(n, (ast.If, ast.While, ast.IfExp)) else None
            if t is None:
                continue
            cn = cfg.node_containing(t)
            xt = ex.expand(t, cn) if cn is not None else t
            for c in [x for x in ast.walk(xt) if isinstance(x, ast.Compare) and len(x.ops) == 1]:
                for capx, lim, flip in ((c.left, c.comparators[0], False), (c.comparators[0], c.left, True)):
                    k = facts.const_num(lim)
                    if k is None or k <= 0 or not any(same(capx, xc) for _, xc in xcalls):
                        continue
                    opn = U._OPS.get(type(c.ops[0]))
                    if opn is not None:
                        o.refute(f, n, c, f"the search compares the capacity with {k!r} (`{src(c)[:60]}`), not with 0: a date whose "
                                          f"positive capacity does not exceed that threshold is not taken as available")
                        return

        def offsets(direction):
            """{day offset from the current date: [expanded capacity queries]} for one direction; None after a verdict"""
            out = {}
            for n, xc in xcalls:
                try:
                    a = Ev([(_e('direction'), direction, 'exact')]).select(xc.args[0])
                except (U.Unknown, U.WouldRaise) as u:
                    o.undecided(f, n, n, f"capacity query argument: {u.why}")
                    return None
                off = None
                if _name(a, D):
                    off = 0
                elif isinstance(a, ast.BinOp) and isinstance(a.op, (ast.Add, ast.Sub)) and _name(a.left, D):
                    st = _day_step(a.right, 'direction')
                    if st:
                        k = st[1] * (direction if st[0] == 'dir' else 1)
                        off = k if isinstance(a.op, ast.Add) else -k
                if off is None:
                    o.undecided(f, n, n, f"capacity is queried for `{src(a)[:60]}`")
                    return None
                if float(off).is_integer():
                    off = int(off)
                out.setdefault(off, []).append(xc)
            return out
        # ---- (b) one iteration, over direction x capacities
        need = {1: 0, -1: -1}
        problems = False
        seen_ok = set()
        for direction in (1, -1):
            env_calls = offsets(direction)
            if env_calls is None:
                return
            offs = sorted(env_calls)
            for caps in itertools.product((0, 1), repeat=len(offs)):
                env = [(_e('direction'), direction, 'exact')]
                for off, cap in zip(offs, caps):
                    for xc in env_calls[off]:
                        env.append((xc, cap, 'sign'))
                r = run_block(loop.body, Ev(env), ex)
                capd = dict(zip(offs, caps))
                dname = 'forward (direction=+1)' if direction == 1 else 'backward (direction=-1)'
                tested = 'the current date' if direction == 1 else 'the day before the current date'
                if r.kind == 'unknown':
                    o.undecided(f, r.stmt, r.stmt, f"search iteration, {dname}: {r.why}")
                    return
                if r.kind == 'wouldraise':
                    o.refute(f, r.stmt, r.stmt, f"search iteration, {dname}: {r.why}")
                    return
                if need[direction] not in capd:
                    o.refute(f, loop, f"tested-day:{direction}",
                             f"{dname} search never tests the capacity of {tested} (it queries day offsets {offs} from the current date)")
                    problems = True
                    break
                want_ret = capd[need[direction]] == 1
                if want_ret:
                    if r.kind != 'return':
                        others = {k: v for k, v in capd.items() if k != need[direction]}
                        o.refute(f, loop, f"accept:{direction}", f"{dname} search does not stop although {tested} has positive capacity"
                                 + (f" (it depends on day offset(s) {sorted(others)} instead)" if others else ''))
                        problems = True
                        break
                    if not _name(r.value, D):
                        o.refute(f, r.stmt, r.stmt, f"{dname} search returns `{src(r.value)[:60]}` instead of the unmodified current date `{D}` "
                                                    f"(whole-day offset, same time of day)")
                        problems = True
                        break
                    seen_ok.add(('ret', direction))
                    continue
                if r.kind == 'return':
                    o.refute(f, r.stmt, r.stmt, f"{dname} search accepts a date although {tested} has no positive capacity "
                                                f"(capacity by day offset: {capd})")
                    problems = True
                    break
                if r.kind != 'fall' and r.kind != 'continue':
                    o.refute(f, r.stmt, r.stmt, f"{dname} search leaves the loop ({r.kind}) on a date without capacity instead of stepping on")
                    problems = True
                    break
                # the step
                dsteps, ksteps = [], []
                for st in r.executed:
                    tg = st.targets if isinstance(st, ast.Assign) else ([st.target] if isinstance(st, ast.AugAssign) else [])
                    if any(_name(t, D) for t in tg):
                        dsteps.append(st)
                    if any(_name(t, K) for t in tg):
                        ksteps.append(st)
                if r.kind == 'continue' or len(dsteps) != 1 or len(ksteps) != 1:
                    if len(dsteps) == 0:
                        o.refute(f, loop, f"nostep:{direction}", f"{dname} search: an iteration without capacity does not move the date")
                    elif len(ksteps) == 0:
                        o.refute(f, loop, f"nocount:{direction}", f"{dname} search: an iteration does not advance the counter `{K}`: the max_days horizon is not enforced")
                    else:
                        o.refute(f, loop, f"steps:{direction}", f"{dname} search: the date / the counter is changed {len(dsteps)} / {len(ksteps)} times in one iteration")
                    problems = True
                    break
                st = dsteps[0]
                delta = None
                if isinstance(st, ast.AugAssign) and isinstance(st.op, (ast.Add, ast.Sub)):
                    delta = (_day_step(ex.expand(st.value), 'direction'), 1 if isinstance(st.op, ast.Add) else -1)
                elif isinstance(st, ast.Assign):
                    v = ex.expand(st.value, stop={D})
                    if isinstance(v, ast.BinOp) and isinstance(v.op, (ast.Add, ast.Sub)) and _name(v.left, D):
                        delta = (_day_step(v.right, 'direction'), 1 if isinstance(v.op, ast.Add) else -1)
                    elif isinstance(v, ast.BinOp) and isinstance(v.op, ast.Add) and _name(v.right, D):
                        delta = (_day_step(v.left, 'direction'), 1)
                if delta is None or delta[0] is None:
                    o.undecided(f, st, st, "date step is not `date +/- timedelta(..)` in days of direction")
                    return
                (kind, k), sign = delta
                moved = sign * k * (direction if kind == 'dir' else 1)
                if moved != direction:
                    o.refute(f, st, st, f"{dname} search moves the date by {moved:g} day(s) per iteration, expected {direction:+d} "
                                        f"(whole days, one at a time, in the search direction)")
                    problems = True
                    break
                st = ksteps[0]
                inc = None
                if isinstance(st, ast.AugAssign) and isinstance(st.op, ast.Add):
                    inc = facts.const_num(st.value)
                elif isinstance(st, ast.Assign):
                    m = match(f"{K} + $c", st.value) or match(f"$c + {K}", st.value)
                    inc = facts.const_num(m['c']) if m else None
                if inc is None:
                    o.undecided(f, st, st, "counter update is not `counter += constant`")
                    return
                if inc != 1:
                    o.refute(f, st, st, f"the counter advances by {inc:g} per examined date: the horizon is max_days dates, expected += 1")
                    problems = True
                    break
                seen_ok.add(('step', direction))
            if problems:
                break
        if problems:
            return
        for tag in sorted(seen_ok):
            o.site(f, loop, {'ret': "returns the current date on capacity > 0 of the tested day",
                             'step': "date += direction days, counter += 1"}[tag[0]] + f" (direction {tag[1]:+d})")
        # ---- (c) the step comes after the last use of the date in an iteration
        tn = cfg.node_of(loop)
        for n in walk_no_nested(loop):
            if isinstance(n, (ast.Assign, ast.AugAssign)):
                tg = n.targets if isinstance(n, ast.Assign) else [n.target]
                if any(_name(t, D) for t in tg):
                    sn = cfg.node_of(n)
                    after = cfg._reachable_from(sn, avoid={tn.id}) - {sn.id}
                    for i in after:
                        a = cfg.nodes[i].ast
                        if a is None or cfg.nodes[i] is tn:
                            continue
                        if i in (cfg.exit.id, cfg.raise_exit.id):
                            continue
                        if isinstance(a, ast.Return) or any(isinstance(x, ast.Name) and x.id == D and isinstance(x.ctx, ast.Load)
                                                             for x in U._walk(a)):
                            if not cfg.can_reach(cfg.nodes[i], tn) and not isinstance(a, ast.Return):
                                continue          # code after the loop (the error message)
                            o.refute(f, n, n, f"the date is moved before it is tested / returned in the same iteration "
                                              f"(`{src(a).splitlines()[0][:60]}` runs after `{src(n)}`): the search tests or returns the wrong day")
                            return
        o.site(f, loop, "date step is the last use of the date in an iteration")
        # ---- (d) after the loop
        r = run_block(tail, Ev([]), ex)
        if r.kind == 'raise':
            from sa.effects import exc_name
            if exc_name(r.stmt) == 'RuntimeError':
                o.site(f, r.stmt, "RuntimeError after the horizon")
            else:
                o.refute(f, r.stmt, r.stmt, f"an exhausted search raises {exc_name(r.stmt)}, expected RuntimeError")
        elif r.kind in ('return', 'fall'):
            o.refute(f, r.stmt or f.node, r.stmt or 'after-loop', "an exhausted search returns a value instead of raising RuntimeError")
        else:
            o.undecided(f, r.stmt, r.stmt, f"code after the loop: {r.why}")
    ctx.guarded(o, body)
