"""C10 - clone and subtree produce faithful, independent copies.   (DESIGN.md section 5, C10)

Decided structurally (anchors: WBS.__clone_tasks, WBS.__clone, WBS.clone, WBS.subtree, WBS.__init__, WBS.roots.setter,
Task.clone, Task.__init__, Task._attach):

  provenance  the clone map is {t.id: t.clone()} over the given roots + all_children; outside tasks enter it only via
              setdefault(x.id, x) under `x.wbs != self`; every relation assignment has a receiver map[t.id] (a copy) and
              arguments that are clone-map lookups; no store / setter / mutator has a source-side receiver
  fields      Task.clone hands every private data field of Task.__init__ to the constructor and copies every public
              instance attribute with a loop whose only filter is `not k.startswith('_')`
  relations   all four relations are rebuilt for every copy from the source's relation of the same name, order kept,
              dependency lists filtered only by `id in map`
  owner       the copies are attached through WBS().roots = [map[r.id] for r in roots]; the sentinel is attached to the
              new WBS in WBS.__init__, roots.setter stores into the sentinel's children, _attach stores the owner and
              recurses (the propagation through the setters is C11's claim)
  wbs-attrs   public attributes of the source WBS are copied (same loop shape) on the path shared by clone() and subtree()
  once        one clone() per selected id, one __clone_tasks / WBS() / __clone per copy, one Task(...) per Task.clone;
              subtree() hands __clone a materialised list (_to_list / list() / [task]): __clone traverses its roots twice, so
              the caller's object itself (or iter(..) / a generator over it) is REFUTED unless it is known to be a list/tuple
              (isinstance guard) or __clone materialises it first
  every-copy  (part of 'relations') a relation store that is skipped under a condition over the emptiness of the source
              task's own relations is accepted only if the skipped cases are exactly "source relation empty" (judged over all
              16 emptiness combinations, if/else stores jointly); `parent` / dependency stores skipped for a non-empty source
              relation are REFUTED, a partially skipped `children` store is UNDECIDED (the children's own parent assignments
              may rebuild it)

Accepted idioms (all exercised by scratch refactorings, see rules/README.md): renamed / hoisted locals, one-line helpers
(inlined by the Expander), `if c: continue`, swapped operands, `is not self`, merged external scan over
`predecessors + successors`, `.items()` loops, the clone map or the selection filled by a statement loop instead of a
comprehension, the selection / the external registration / the attribute copy extracted into one private helper, a
generator helper yielding the public attribute names, `if parent: c.parent = .. else: c.parent = None`, logging, and
Task.clone written as `copy.copy(self)` followed by a reset of EVERY relation/owner field (a missing reset is REFUTED:
the shallow copy shares that list with the source).
Round 3: `if x.id not in map: map[x.id] = x` instead of setdefault (a plain store WITHOUT that guard stays REFUTED); the new
roots / a relation list built by an accumulate loop (`acc = []; for ..: [if ..] acc.append(map[..])`, also inside the wiring
loop) instead of a comprehension; __clone_tasks folded into __clone (inlined by hand, or moved to a module level helper that
the normaliser splices back): one function then plays both roles ("merged" mode of clone_common); read-only aliases of the
clone map; `if t.R: copy.R = [...]` guards and `else: copy.R = []` branches; `roots = _to_list(roots)` inside __clone;
tuple-unpacked constructor arguments in Task.clone.
Round 4: owner propagation written as one flat loop `for m in [self] + self.__get_all_children(): m.__wbs = wbs` (also
[self, *..], chain(..); REFUTED when self or the deeper descendants are missing from the iterable); __clone_tasks keeping the
map to itself and returning the roots of the copy (its return expression is judged in place of `.roots = [...]`); attribute
copy loops fed by a (name, value) pair stream `((k, V(k)) for k in X.__dict__ if ..)`; a copy loop that stores
copy.copy / copy.deepcopy of the VALUE is REFUTED (the copy must carry the same attribute values; C10-r43).
Round 5: copy loops over `{k: V for k in X.__dict__[.items()] if ..}.items()`; a filter that only leaves out names which are
properties of the class (never keys of __dict__) is neutral, any other name exclusion is REFUTED (C10-r53: harmless on Task,
wrong on WBS); `if <no roots>: return WBS()` in __clone is understood as an early exit: REFUTED when the returned WBS did
not go through the attribute copy loop (C10-r51), accepted when it did, UNDECIDED when the guard is not an emptiness test of
the roots. Parent assignment guarded by the truth value of an id is REFUTED (ids are opaque; C06-r32); a relation store
that keeps only the part of the source list outside the selection is REFUTED (C02-r31).

Round 6: obligation `independence` - the dependency setters take the task out of the mirror lists of its former links by
OBJECT (`.remove(self)`, also through a hoisted alias of the list, or a rebuild filtered by `is not self`); a rebuild filtered by
id (`t.id != self.id`) is REFUTED (copy and source share the id and both stay linked to outside tasks; C10-r62); anything
else UNDECIDED.  Outside tasks staged in a local dict (`D[x.id] = x` under the owner test, then `for k, v in D.items():
map.setdefault(k, v)`) are judged where D is filled, so a scan that misses the roots / the descendants is REFUTED (C10-r63).
Copy loops fed by a generator METHOD yielding (name, value) pairs; roots.setter with the sentinel / value hoisted into locals.

Round 7: the outside-task dict built and returned by a private helper (`for k, v in self.__outer(tasks).items():
map.setdefault(k, v)`, also bound to a local first) - the helper's fills are judged inside the helper with the caller's
labels; an accumulator that is a MUTABLE DEFAULT ARGUMENT the call does not pass is REFUTED (shared by all calls; C10-r72).
"No registration scans the R of every selected task" is REFUTED only when the rebuild of R is made of clone-map lookups
(otherwise UNDECIDED: a rebuild that returns outside tasks directly needs no registration).
F39: obligation `outside_links_by_identity` - ids are unique inside one WBS only, so an outside link end must reach the copy
as itself: `[x if x.wbs != self else map[x.id] for x in src.R if x.wbs != self or x.id in map]` (either branch order, `is not`,
De Morgan forms, `id in <selection by id>`, hoisted pre-filter, if/elif accumulator, outside test in a one-line helper) is
PROVED - element and filter are judged as a truth table over (outside, id in map); every registration of a non-clone in the
clone map (`setdefault(x.id, x)`, guarded store, staged dict) is REFUTED there, as is a rebuild that looks every link end up by
id when nothing is registered.  The older clauses still analyse the registration form (owner test, coverage) so that seeded
changes of that form keep their verdicts.
Rounds 8/9: own state of WBS in a PUBLIC attribute holding a mutable container / tasks is REFUTED in wbs-attrs (the copy loop
hands it to every copy; C10-r81); a constructor parameter that Task.__init__ replaces by a value derived from ANOTHER parameter
before storing it is REFUTED in fields (Task(estimate=self.estimate, ..) is then not the identity; C10-r83); guards of relation
stores that test `t.id in <id set built from the selection>` are interpreted (C10-r82); link lists built by a private method or a
local closure with an append loop (if/elif, guard clause + continue, body locals) are executed symbolically into the
comprehension they compute (clone_common._loop_as_comprehension), so `map.get(x.id)`-first helpers are REFUTED as "outside task
looked up by id" (C10-r91); attribute names memoised on the class are REFUTED (C10-r92); worklist form of _attach.
Round 10: `independence` also REFUTES a validation of incoming link ends by id in the dependency setters (`v.id in <ids of the
ancestors>`; C10-r103) and follows a mirror-list alias chosen by a constant flag (spliced `forward` parameter);
`outside_links_by_identity` REFUTES an owner test written with `!=` / `==` once WBS defines `__eq__` (C10-r101);
`WBS(**<the source's own __dict__>)` is REFUTED in wbs-attrs (kwargs go to the hidden root task; C10-r42), other keyword-only
constructor calls are an empty new WBS, `**` of unknown origin is UNDECIDED (no claim: C07-r102).
Round 11: `fields` - a private field whose public setter stores a value DERIVED from its argument (`self.__milestone =
bool(value)`, C04-r112) is still fed by the constructor parameter of that name: REFUTED when Task.clone does not pass it,
accepted when the conversion is idempotent (bool/int/float/str, None-guarded) and the getter's value is handed back, UNDECIDED
for any other conversion.  (A consistently renamed private field is mapped back by the normaliser, not by this module.)
Not decided (C10-r71): duplicate / overlapping roots handed to the children setter - the outcome depends on the counting
logic of task._has_id_intersection (id-uniqueness check, C05), which this module does not read.

Not decided: id collisions between an outside task and a member (the map is keyed by id); mutable attribute values
shared by reference; overlapping root selections in subtree(); the numeric/behavioural outcome of the setters (C01,
C11); a private field of Task that is not fed by a constructor parameter (reported as UNDECIDED, never passed); the
hierarchy rebuilt through only one of parent/children (UNDECIDED); copy.deepcopy / __new__ based clones (UNDECIDED);
__clone itself moved out of the class (anchor wbs.WBS.__clone missing -> ANALYSIS-ERROR, exit 2).
The analysis itself lives in rules/clone_common.py (shared with C02 and C06, which call clone_provenance / c10._fields).
"""
from __future__ import annotations

import ast

from sa import facts
from sa.cfg import cfg_of
from sa.effects import Effects
from sa.flow import Expander
from sa.model import walk_no_nested, src, unmangle
from sa.pat import match, same
from .clone_common import clone_provenance, _self_stores, task_clone_shape



def check(ctx):
    prog = ctx.prog

    o = ctx.ob('provenance', 'R9',
               "in __clone_tasks/__clone the clone map is {t.id: t.clone()} over roots + descendants, outside tasks reach the copy "
               "only under `x.wbs != self` (as themselves; an id-keyed registration in the clone map is judged by "
               "outside_links_by_identity), every relation assignment has a copy as receiver and clone-map lookups / guarded outside "
               "tasks as arguments, and nothing is written through a source object", floor=11)
    ctx.guarded(o, lambda o: clone_provenance(ctx, o, ('map', 'externals', 'receivers', 'no-source-writes')))

    o = ctx.ob('fields', 'R9',
               "Task.clone passes every private data field of Task.__init__ to the constructor and copies every public instance "
               "attribute with the only filter `not k.startswith('_')`; it writes nothing on the source", floor=11)
    ctx.guarded(o, lambda o: _fields(ctx, o))

    o = ctx.ob('relations', 'R9',
               "all four relations of every copy are assigned from the source's relation of the same name through the clone map, "
               "list order preserved, dependency lists filtered only by `id in clone map`", floor=4)
    ctx.guarded(o, lambda o: clone_provenance(ctx, o, ('relations',)))

    o = ctx.ob('outside_links_by_identity', 'R9',
               "a link end outside the source WBS (`x.wbs != self`) is handed to the copy AS ITSELF, never through a lookup keyed by its "
               "id in the map that holds the member clones (ids are unique inside one WBS only, C05): dependency lists are rebuilt as "
               "`[x if x.wbs != self else map[x.id] for x in src.R if x.wbs != self or x.id in map]`", floor=2)
    ctx.guarded(o, lambda o: clone_provenance(ctx, o, ('outside-identity',)))

    o = ctx.ob('owner', 'R4',
               "the copies are attached through WBS().roots = [map[r.id] for r in roots]; WBS.__init__ attaches the sentinel to "
               "the new WBS, roots.setter stores into the sentinel, _attach stores the owner and recurses into children", floor=8)
    ctx.guarded(o, lambda o: _owner(ctx, o))

    o = ctx.ob('wbs-attrs', 'R9',
               "public attributes of the source WBS are copied with the only filter `not k.startswith('_')` on the path shared by "
               "clone() and subtree()", floor=3)
    ctx.guarded(o, lambda o: clone_provenance(ctx, o, ('wbs-attrs',)))

    o = ctx.ob('independence', 'R9',
               "the dependency setters drop the mirror entry of an old link by OBJECT (list.remove(self) / `is not self`), never by id: "
               "a copy and its source share their id, so an id comparison also erases the other side's entry on a shared outside task",
               floor=2)
    ctx.guarded(o, lambda o: _independence(ctx, o))

    o = ctx.ob('once', 'R13',
               "one clone() per selected id (inside the clone-map comprehension), one __clone_tasks and one WBS() per copy, "
               "clone()/subtree() call __clone once with self.roots / the given roots, Task.clone constructs one Task", floor=6)
    ctx.guarded(o, lambda o: _once(ctx, o))


# ---------------------------------------------------------------------------------------------------------------------
def _fields(ctx, o):
    """Task.clone is a faithful, independent copy of one task (also used by C02 / C06); implemented in clone_common"""
    clone_provenance(ctx, o, ('fields',))


# ---------------------------------------------------------------------------------------------------------------------
def _owner(ctx, o):
    prog = ctx.prog
    clone_provenance(ctx, o, ('assembly',))
    # WBS.__init__: sentinel created and attached to the new WBS, unconditionally
    wi = prog.func('wbs.WBS.__init__')
    cfg = cfg_of(wi)
    sn = wi.self_name
    root_store = [(st, val) for st, attr, val in _self_stores(wi) if attr == '_WBS__root']
    rv = root_store[0][1] if len(root_store) == 1 else None
    root_alias = None
    if isinstance(rv, ast.Name) and len(Expander(prog, wi, ctx.typer).flow.defs_of(rv.id)) == 1:
        # sentinel built through a hoisted local:  root = Task(EMPTY_TASK_ID, ..); self.__root = root; root._attach(self)
        root_alias = rv.id
        rv = Expander(prog, wi, ctx.typer).expand(rv, cfg.node_of(root_store[0][0]))
    if not (isinstance(rv, ast.Call) and isinstance(rv.func, ast.Name) and rv.func.id == 'Task' and rv.args
            and isinstance(rv.args[0], ast.Name) and rv.args[0].id == 'EMPTY_TASK_ID') or cfg.conditions(cfg.node_of(root_store[0][0])):
        o.undecided(wi, wi.node, '__root', "WBS.__init__ does not create its sentinel as `self.__root = Task(EMPTY_TASK_ID, ...)`")
    else:
        o.site(wi, root_store[0][0], "sentinel root created")
        att = [c for c in facts.calls_named(wi, '_attach') if match(f"{sn}._WBS__root._attach($w)", c) or
               (root_alias and match(f"{root_alias}._attach($w)", c))]
        good = [c for c in att if isinstance(c.args[0], ast.Name) and c.args[0].id == sn and not cfg.conditions(cfg.node_containing(c))
                and cfg.dominates(cfg.node_of(root_store[0][0]), cfg.node_containing(c))]
        if good:
            o.site(wi, good[0], "sentinel attached to the new WBS")
        elif att:
            o.refute(wi, att[0], att[0], "the sentinel of a new WBS is attached conditionally / to something other than the new WBS: "
                                         "tasks put under it do not report the new WBS as owner")
        else:
            o.refute(wi, wi.node, '_attach missing', "WBS.__init__ never attaches its sentinel to the new WBS (`self.__root._attach(self)`): "
                                                     "the copies placed under it report owner None")
    rs = prog.func('wbs.WBS.roots.setter')
    vp = rs.params[1]
    rex = Expander(prog, rs, ctx.typer)
    rcfg = cfg_of(rs)
    st = []
    for s_, t_, v_ in facts.attr_stores(rs, 'children'):
        n_ = rcfg.node_of(s_)
        # the sentinel may be hoisted into a local (hidden_root = self.__root), the value may be an alias of the parameter
        if match(f"{rs.self_name}._WBS__root", rex.expand(t_.value, n_)):
            st.append((s_, rex.expand(v_, n_) if len(rex.flow.defs_of(vp)) == 1 else v_))
    if len(st) == 1 and isinstance(st[0][1], ast.Name) and st[0][1].id == vp and not cfg_of(rs).conditions(cfg_of(rs).node_of(st[0][0])):
        o.site(rs, st[0][0], "roots.setter: self.__root.children = value")
    else:
        o.undecided(rs, rs.node, 'roots.setter', "WBS.roots setter is not `self.__root.children = value`")
    at = prog.func('task.Task._attach')
    _owner_setter(ctx, o, at, at.params[1], 0)
    eff = Effects(prog, ctx.typer, ctx.cg)
    reach = {f.qual for f in eff.reach([prog.func('task.Task.children.setter')])}
    if at.qual in reach:
        o.site(prog.func('task.Task.children.setter'), None, "children.setter reaches Task._attach (owner propagation, C11.attach)")
    else:
        o.refute(prog.func('task.Task.children.setter'), None, 'children.setter !-> _attach',
                 "assigning children never reaches Task._attach: tasks attached under the new WBS's sentinel keep owner None")


def _fold_const(e):
    """`A if <constant> else B` -> the branch taken (left behind when a helper with a boolean parameter was spliced)"""
    while isinstance(e, ast.IfExp) and isinstance(e.test, ast.Constant):
        e = e.body if e.test.value else e.orelse
    return e


def _independence(ctx, o):
    """clone()/subtree() keep links to tasks outside the source WBS on BOTH the source task and its copy (same id).  When one of
    them is unlinked later, the setter must take exactly that object out of the outside task's mirror list."""
    prog = ctx.prog
    has_eq = prog.find_method('Task', '__eq__') is not None
    for setter, mirror in (('task.Task.predecessors.setter', '_Task__successors'), ('task.Task.successors.setter', '_Task__predecessors')):
        fn = prog.func(setter)
        sn = fn.self_name
        cfg = cfg_of(fn)
        ex = Expander(prog, fn, ctx.typer)
        seen = False
        for c in walk_no_nested(fn.node):
            if isinstance(c, ast.Call) and isinstance(c.func, ast.Attribute) and c.func.attr in ('remove', 'discard') and len(c.args) == 1:
                recv = _fold_const(ex.expand(c.func.value, cfg.node_containing(c)))   # the mirror list may be hoisted into a local alias
                if isinstance(recv, ast.Name):
                    # alias chosen by a constant flag (spliced `forward` parameter):  mirror = v.__preds if False else v.__succs
                    rd = [d for d in ex.flow.reaching(recv.id, cfg.node_containing(c))]
                    if len(rd) == 1 and rd[0].kind == 'assign' and rd[0].value is not None:
                        recv = _fold_const(rd[0].value)
                if not (isinstance(recv, ast.Attribute) and recv.attr == mirror):
                    continue
                if isinstance(c.args[0], ast.Name) and c.args[0].id == sn and not has_eq:
                    o.site(fn, c, f"old links: {unmangle(mirror)}.remove(self) takes out this very object")
                    seen = True
        for st, tgt, val in facts.attr_stores(fn, mirror):
            if isinstance(tgt.value, ast.Name) and tgt.value.id == sn:
                continue                                    # the setter's own list (of the other relation name) - not a mirror list
            e = ex.expand(val, cfg.node_of(st))
            if not (isinstance(e, ast.ListComp) and len(e.generators) == 1 and isinstance(e.generators[0].target, ast.Name)
                    and isinstance(e.elt, ast.Name) and e.elt.id == e.generators[0].target.id):
                continue                                    # not a "list without ..." rewrite (e.g. the new list): other obligations
            g = e.generators[0]
            if not (isinstance(g.iter, ast.Attribute) and g.iter.attr == mirror and same(g.iter.value, tgt.value)):
                continue
            x = g.target.id
            atoms = []
            for cnd in g.ifs:
                atoms += facts.split_conj(cnd, True)
            for atom, pol in atoms:
                m = match(f"{x}.id != $y.id", atom) or match(f"$y.id != {x}.id", atom) or match(f"{x}.id == $y.id", atom) or \
                    match(f"$y.id == {x}.id", atom)
                if m and isinstance(m['y'], ast.Name) and m['y'].id == sn:
                    o.refute(fn, st, atom, f"`{src(st)[:80]}` rebuilds the other task's {unmangle(mirror)} without every entry whose ID equals "
                                           f"this task's id (`{src(atom)}`): a copy made by clone()/subtree() and its source share the id and "
                                           f"both stay linked to tasks outside the WBS, so unlinking one of them also erases the other "
                                           f"from the outside task's list (a change of the copy shows on the source); drop the entry by "
                                           f"object (`is not self` / remove(self))")
                    seen = True
                    continue
                mi = match(f"{x} is not {sn}", atom) or match(f"{sn} is not {x}", atom) or \
                    (not has_eq and (match(f"{x} != {sn}", atom) or match(f"{sn} != {x}", atom)))
                if mi and pol:
                    o.site(fn, st, f"old links: {unmangle(mirror)} rebuilt without this very object (`{src(atom)}`)")
                    seen = True
        # the link ends handed to the setter may be tasks OUTSIDE the WBS (clone()/subtree() keep them as themselves): a validation
        # that identifies them by id confuses an outside task with a member that has the same id
        for gd in facts.guards_of(prog, fn, ctx.typer):
            bound = {n.id for tg, _ in gd.binders for n in ast.walk(tg) if isinstance(n, ast.Name)}
            for t_, pol_ in gd.conds:
                for atom, apol in facts.split_conj(t_, pol_):
                    m = match("$x.id in $c", atom) or match("$x.id == $y.id", atom) or match("$y.id == $x.id", atom)
                    if m and apol and isinstance(m['x'], ast.Name) and m['x'].id in bound and m['x'].id != sn:
                        o.refute(fn, gd.node, f"{src(atom)[:60]} [link end validated by id]",
                                 f"Task.{fn.name} setter rejects a new link end when `{src(atom)[:70]}`, i.e. by comparing IDS: the link ends "
                                 f"include tasks outside the WBS (clone()/subtree() hand them to the copies as themselves) and ids are unique "
                                 f"inside one WBS only, so an outside task that shares its id with an ancestor / descendant of the task makes "
                                 f"clone()/subtree() of a valid WBS raise; compare the task objects (`v in parents`)")
                        seen = True
        if not seen:
            o.undecided(fn, fn.node, f"{fn.name} unlink", f"cannot see how Task.{fn.name} setter takes the task out of the {unmangle(mirror)} "
                                                          f"of its former links (expected `.remove(self)` or a rebuild filtered by `is not self`)")


def _none_guard_only(conds, wp):
    """split path conditions of an owner store / forward call into (inverted None tests, other conditions)"""
    other = [(t, p) for t, p in conds if not (match(f"{wp} is None", t) and not p or match(f"{wp} is not None", t) and p)]
    inverted = [(t, p) for t, p in other if match(f"{wp} is None", t) and p or match(f"{wp} is not None", t) and not p]
    return inverted, [x for x in other if x not in inverted]


def _descendant_parts(e, sn):
    """operands of a `+` / list display that make up the iterable of a flat owner loop -> {'self', 'desc', 'child', '?'}"""
    if isinstance(e, ast.BinOp) and isinstance(e.op, ast.Add):
        return _descendant_parts(e.left, sn) | _descendant_parts(e.right, sn)
    if isinstance(e, ast.Call) and isinstance(e.func, ast.Name) and e.func.id in ('list', 'tuple') and len(e.args) == 1:
        return _descendant_parts(e.args[0], sn)
    if isinstance(e, ast.Call) and getattr(e.func, 'attr', getattr(e.func, 'id', '')) == 'chain' and e.args and not e.keywords:
        out = set()
        for a in e.args:
            out |= _descendant_parts(a, sn)
        return out
    if isinstance(e, (ast.List, ast.Tuple)):
        out = set()
        for x in e.elts:
            if isinstance(x, ast.Starred):
                out |= _descendant_parts(x.value, sn)
            elif isinstance(x, ast.Name) and x.id == sn:
                out.add('self')
            else:
                out.add('?')
        return out
    if match(f"{sn}._Task__get_all_children()", e) or match(f"{sn}.all_children", e):
        return {'desc'}
    if match(f"{sn}.children", e) or match(f"{sn}._Task__children", e):
        return {'child'}
    return {'?'}


def _owner_flat(ctx, o, fn, wp) -> bool:
    """flat form of the owner propagation:  for m in [self] + self.__get_all_children(): m.__wbs = wp   (no recursion).
    Returns True when the function is written in this form (verdict recorded), False when it is not"""
    acfg = cfg_of(fn)
    sn = fn.self_name
    ex = Expander(ctx.prog, fn, ctx.typer)
    found = []
    for s, t, v in facts.attr_stores(fn, '_Task__wbs'):
        cn = acfg.node_of(s)
        fors = acfg.enclosing_fors(cn) if cn is not None else []
        if fors and isinstance(fors[-1].target, ast.Name) and isinstance(t.value, ast.Name) and t.value.id == fors[-1].target.id:
            found.append((s, v, cn, fors))
    if len(found) != 1:
        return False
    s, v, cn, fors = found[0]
    if len(fors) != 1 or not (isinstance(v, ast.Name) and v.id == wp):
        o.undecided(fn, s, s, f"Task.{fn.name} stores the owner inside a loop in a form the rule does not follow")
        return True
    parts = _descendant_parts(ex.expand(fors[0].iter, acfg.node_of(fors[0])), sn)
    inverted, other = _none_guard_only(acfg.conditions(cn), wp)
    if inverted:
        o.refute(fn, s, s, f"Task.{fn.name} stores the owner only when `{wp}` is None (inverted early return): a task attached to a WBS "
                           f"never reports it as owner")
    elif other or '?' in parts:
        o.undecided(fn, s, s, f"Task.{fn.name} stores the owner in a loop over `{src(fors[0].iter)[:60]}` / under a condition the rule does "
                              f"not interpret")
    elif 'self' not in parts:
        o.refute(fn, s, fors[0].iter, f"Task.{fn.name} stores the owner for `{src(fors[0].iter)[:60]}` only: the attached task itself is "
                                      f"left out and does not report the new WBS")
    elif 'desc' not in parts:
        o.refute(fn, s, fors[0].iter, f"Task.{fn.name} stores the owner for `{src(fors[0].iter)[:60]}` only: deeper descendants of the "
                                      f"attached roots keep owner None")
    else:
        o.site(fn, s, f"{fn.name}: m.__wbs = {wp} for m in [self] + all descendants")
        o.site(fn, fors[0], f"{fn.name} covers every descendant (flat loop instead of recursion)")
    return True


def _owner_worklist(ctx, o, fn, wp) -> bool:
    """explicit worklist instead of recursion:
           pending = [self]
           while pending: t = pending.pop(); t.__wbs = wp; pending.extend(reversed(t.__children))
    Returns True when the function is written in this form (verdict recorded)"""
    acfg = cfg_of(fn)
    sn = fn.self_name
    whiles = [n for n in walk_no_nested(fn.node) if isinstance(n, ast.While)]
    stores = facts.attr_stores(fn, '_Task__wbs')
    if len(whiles) != 1 or len(stores) != 1:
        return False
    w = whiles[0]
    s_, t_, v_ = stores[0]
    m = match("len($w) > 0", w.test) or match("len($w)", w.test)
    wl = w.test.id if isinstance(w.test, ast.Name) else (m['w'].id if m and isinstance(m['w'], ast.Name) else None)
    if wl is None or not any(x is s_ for x in ast.walk(w)) or not isinstance(t_.value, ast.Name):
        return False
    cur = t_.value.id
    flow = Expander(ctx.prog, fn, ctx.typer).flow
    pops = [d for d in flow.defs_of(cur) if d.kind == 'assign' and d.value is not None and
            (match(f"{wl}.pop()", d.value) or match(f"{wl}.pop(0)", d.value) or match(f"{wl}.pop(-1)", d.value))]
    inits = [d for d in flow.defs_of(wl) if d.kind == 'assign']
    if len(pops) != 1 or len(flow.defs_of(cur)) != 1 or len(inits) != 1 or not any(x is pops[0].stmt for x in w.body):
        return False
    cn = acfg.node_of(s_)
    inner = [c for c in acfg.conditions(cn) if c[0] is not w.test]
    inverted, other = _none_guard_only(inner, wp)
    feeds = []
    for n in ast.walk(w):
        x = None
        if isinstance(n, ast.Call) and match(f"{wl}.extend($x)", n):
            x = n.args[0]
        elif isinstance(n, ast.AugAssign) and isinstance(n.target, ast.Name) and n.target.id == wl and isinstance(n.op, ast.Add):
            x = n.value
        if x is not None:
            while isinstance(x, ast.Call) and isinstance(x.func, ast.Name) and x.func.id in ('reversed', 'list', 'tuple') and len(x.args) == 1:
                x = x.args[0]
            fc = acfg.node_containing(n) if isinstance(n, ast.Call) else acfg.node_of(n)
            cond_free = not [c for c in acfg.conditions(fc) if c[0] is not w.test and not any(c[0] is i[0] for i in inner)]
            feeds.append((x, cond_free))
    init_parts = _descendant_parts(inits[0].value, sn)
    if not (isinstance(v_, ast.Name) and v_.id == wp) or not any(x is s_ for x in w.body):
        o.undecided(fn, s_, s_, f"Task.{fn.name} stores the owner inside a worklist loop in a form the rule does not follow")
    elif inverted:
        o.refute(fn, s_, s_, f"Task.{fn.name} stores the owner only when `{wp}` is None (inverted early return): a task attached to a WBS "
                             f"never reports it as owner")
    elif other or '?' in init_parts:
        o.undecided(fn, s_, s_, f"Task.{fn.name} stores the owner under a condition / from a start set the rule does not interpret")
    elif 'self' not in init_parts:
        o.refute(fn, s_, inits[0].value, f"the worklist of Task.{fn.name} starts from `{src(inits[0].value)[:50]}`: the attached task itself is "
                                         f"left out and does not report the new WBS")
    elif not any((match(f"{cur}.children", x) or match(f"{cur}._Task__children", x)) and ok for x, ok in feeds):
        if 'desc' in init_parts:
            o.site(fn, s_, f"{fn.name}: m.__wbs = {wp} for every member of the worklist [self] + all descendants")
            o.site(fn, w, f"{fn.name} covers every descendant (worklist seeded with all descendants)")
        elif feeds:
            o.undecided(fn, w, w.test, f"Task.{fn.name}: the worklist is fed with `{src(feeds[0][0])[:50]}`, not unconditionally with the "
                                       f"children of the task just taken")
        else:
            o.refute(fn, w, w.test, f"the worklist of Task.{fn.name} is never fed with the children of the task just taken: descendants of "
                                    f"the attached roots keep owner None")
    else:
        o.site(fn, s_, f"{fn.name}: t.__wbs = {wp} for every task taken from the worklist")
        o.site(fn, w, f"{fn.name} covers every descendant (worklist fed with the children of each task taken)")
    return True


def _owner_setter(ctx, o, fn, wp, depth):
    """fn(self, wp) stores wp into self.__wbs (skipping at most `wp is None`) and does the same for every child - directly or
    through one private helper it forwards (self, wp) to"""
    prog = ctx.prog
    acfg = cfg_of(fn)
    sn = fn.self_name
    ws = [(s, v) for s, t, v in facts.attr_stores(fn, '_Task__wbs') if isinstance(t.value, ast.Name) and t.value.id == sn]
    if not ws and depth == 0:
        # forwarded to a helper:  if wbs is not None: self.__set_owner(wbs)
        fwd = []
        for ci in ctx.cg.calls_in(fn):
            n = ci.node
            if ci.kind == 'call' and len(ci.targets) == 1 and ci.targets[0].cls == fn.cls and ci.targets[0] is not fn and \
                    isinstance(n, ast.Call) and isinstance(n.func, ast.Attribute) and isinstance(n.func.value, ast.Name) and \
                    n.func.value.id == sn and len(n.args) == 1 and isinstance(n.args[0], ast.Name) and n.args[0].id == wp and \
                    len(ci.targets[0].params) == 2:
                fwd.append((n, ci.targets[0]))
        if len(fwd) == 1:
            n, h = fwd[0]
            cn = acfg.node_containing(n)
            inverted, other = _none_guard_only(acfg.conditions(cn), wp)
            if inverted:
                o.refute(fn, n, n, f"{fn.name} forwards the owner only when `{wp}` is None (inverted test): attached tasks never report "
                                   f"their WBS")
            elif other or acfg.enclosing_loops(cn):
                o.undecided(fn, n, n, f"{fn.name} forwards the owner only under a condition the rule does not interpret")
            else:
                _owner_setter(ctx, o, h, h.params[1], 1)
            return
    if not ws and _owner_flat(ctx, o, fn, wp):
        return
    if not ws and _owner_worklist(ctx, o, fn, wp):
        return
    if not ws and facts.attr_stores(fn, '_Task__wbs'):
        o.undecided(fn, fn.node, '_attach store', f"Task.{fn.name} stores the owner through `{src(facts.attr_stores(fn, '_Task__wbs')[0][1])}`, "
                                                  f"in a traversal the rule does not follow")
        return
    if len(ws) == 1 and isinstance(ws[0][1], ast.Name) and ws[0][1].id == wp:
        inverted, other = _none_guard_only(acfg.conditions(acfg.node_of(ws[0][0])), wp)
        if inverted:
            o.refute(fn, ws[0][0], ws[0][0], f"Task.{fn.name} stores the owner only when `{wp}` is None (inverted early return): a task "
                                             f"attached to a WBS never reports it as owner")
        elif other:
            o.undecided(fn, ws[0][0], ws[0][0], f"Task.{fn.name} stores the owner only under a condition the rule does not interpret")
        else:
            o.site(fn, ws[0][0], f"{fn.name}: self.__wbs = {wp}")
    else:
        o.refute(fn, fn.node, '_attach store', f"Task.{fn.name} does not store its argument into self.__wbs: attached copies do not report "
                                               f"the new WBS")
    rec = [c for c in walk_no_nested(fn.node) if isinstance(c, ast.Call) and isinstance(c.func, ast.Attribute)
           and unmangle(c.func.attr) in (fn.name, '_attach') and len(c.args) == 1 and isinstance(c.args[0], ast.Name) and c.args[0].id == wp]
    ok = False
    for c in rec:
        fors = acfg.enclosing_fors(acfg.node_containing(c))
        if fors and isinstance(fors[-1].target, ast.Name) and isinstance(c.func.value, ast.Name) and \
                c.func.value.id == fors[-1].target.id and \
                (match(f"{sn}.children", fors[-1].iter) or match(f"{sn}._Task__children", fors[-1].iter)):
            inverted, other = _none_guard_only(acfg.conditions(acfg.node_containing(c)), wp)
            if not inverted and not other:
                ok = True
                o.site(fn, c, f"{fn.name} recurses into every child")
    if not ok:
        o.refute(fn, fn.node, '_attach recursion', f"Task.{fn.name} does not recurse into self.children: descendants of the attached roots "
                                                   f"keep owner None")


# ---------------------------------------------------------------------------------------------------------------------
def _once(ctx, o):
    clone_provenance(ctx, o, ('once',))
    prog = ctx.prog
    cl = prog.func('task.Task.clone')
    shape = task_clone_shape(ctx)
    cfg = cfg_of(cl)
    if shape.kind is not None and not cfg.enclosing_loops(cfg.node_containing(shape.node)):
        o.site(cl, shape.node, "Task.clone constructs exactly one Task" + (" (Task(...))" if shape.kind == 'ctor' else " (copy.copy(self))"))
    else:
        o.undecided(cl, cl.node, 'Task(...)', "Task.clone does not build its result by exactly one Task(...) / copy.copy(self) outside loops")
