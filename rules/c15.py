"""C15 - a rejected mutation changes nothing.   (DESIGN.md section 5, C15)

Event-order rule over every public mutator: no raise (explicit, through a callee that may raise, or an implicitly raising
list operation) is reachable after the first write of relation state, unless it is exempt:
  E1 pre-validated   the callee's guards were all established by equivalent guards of the caller before its first write;
  E2 safe lookup     list.remove(x) / list.index(y) whose membership (and distinctness from the moved tasks) was validated;
  E3 cannot reject   removal of current members / re-rooting under the own WBS root (assumption table, structurally checked).
Multi-receiver operations (list << x, bulk attribute assignment, the constructor with several relations) are sequences of
independently atomic setter calls: reported, and recorded as known findings.

Dedicated obligations: move() validates everything that can fail after the first list change (requirements as implications over
guard formulas, so any()/guard clauses/hoisted anchors/spliced helpers are the same thing); insert() resolves a bounded anchor from
the list without the task before the attach (conditional expression, if/else diamond, path condition with two attach sites,
accumulator loop); sort() builds the ordering on a copy (list.sort() in place is refuted: a failing comparison leaves the shared
list half sorted); reorder() works on copies; the group id check must count different incoming OBJECTS with equal ids (a
container keyed by task id before the count makes it vacuous: refuted).
Round 11: the duplicate count of the group id check must be reached on every way through the helper - a fast path decided by the
receiving tree alone that answers without it is refuted; re-rooting may be written `self.parent = self.__wbs._root()`; the id
helper may live in the class as a private static method.
Not decided: a negative insert index that is not normalised only fails before the attach (IndexError, nothing changed) - accepted;
anchors computed by try/except; id-count comparisons in other idioms (Counter, sorting) are UNDECIDED.
"""
from __future__ import annotations

import ast

from sa import facts
from sa.cfg import cfg_of
from sa.effects import Effects
from sa.flow import Expander as _EngineExpander, flow_of
from sa.model import src, walk_no_nested, unmangle
from sa.pat import match, same
from sa.types import base
import re
from . import taskrules as T


class Expander(_EngineExpander):
    """the engine's Expander with constant conditional expressions folded (`A if False else B` -> B): what is left of a merged
    helper after the normaliser spliced it with a constant switch"""

    def expand(self, expr, at=None, *a, **k):
        out = T.fold_const(super().expand(expr, at, *a, **k))
        at = at if at is not None else self.flow.node_of_expr(expr)
        if at is None or out is None:
            return out
        # a local that stands for ONE object chosen by such a folded switch (`mirror = v.__x if False else v.__y`) and is then changed
        # in place: the engine keeps "mutated" names opaque unless their definition is a plain attribute path - after folding it is
        sub = {}
        for n in ast.walk(out):
            if isinstance(n, ast.Name) and isinstance(getattr(n, 'ctx', None), ast.Load) and n.id in self._mutated_names() and n.id not in sub:
                d = self.flow.unique_def(n.id, at)
                if d is not None and d.kind == 'assign' and d.value is not None and d.node is not None and d.node is not at and \
                        isinstance(d.value, ast.IfExp):
                    v = T.fold_const(super().expand(d.value, d.node))
                    b = v
                    while isinstance(b, ast.Attribute):
                        b = b.value
                    if isinstance(v, ast.Attribute) and isinstance(b, ast.Name):
                        sub[n.id] = v
        if sub:
            from sa.flow import subst
            out = subst(out, sub)
        return out
from .taskrules import guard_facts, relation_write_nodes, Roles, SETTERS, REL_FIELDS, WBS_FIELD

MUTATORS = [
    'task.Task.parent.setter', 'task.Task.children.setter', 'task.Task.predecessors.setter', 'task.Task.successors.setter',
    'task.Task.__floordiv__', 'task.Task.__lshift__', 'task.Task.__rshift__', 'task.Task.__init__',
    'task._ChildrenList.append', 'task._ChildrenList.remove', 'task._ChildrenList.insert', 'task._ChildrenList.move',
    'task._ChildrenList.sort', 'task._ChildrenList.reorder',
    'task._PredecessorsList.append', 'task._PredecessorsList.remove', 'task._SuccessorsList.append', 'task._SuccessorsList.remove',
    'task._TaskList.remove_all', 'task._ImmutableTaskList.__setattr__', 'task._ImmutableTaskList.__lshift__',
    'task._ImmutableTaskList.__rshift__',
    'wbs.WBS.roots.setter', 'wbs.WBS.remove', 'wbs.WBS.__remove', 'wbs.WBS.remove_all', 'wbs.WBS.__floordiv__', 'wbs.WBS.__init__',
]
FIELDS = REL_FIELDS + (WBS_FIELD, '_list')
# callees that cannot reject in the contexts they are used in (E3); each entry is verified structurally in `cannot_reject`
NON_REJECTING = {'task._ChildrenList.remove', 'wbs.WBS.__remove', 'task.Task._detach', 'task.Task._attach'}


def check(ctx):
    prog = ctx.prog
    eff = Effects(prog, ctx.typer, ctx.cg)
    ctx.assume("a children assignment whose argument is a sub-list of the current children cannot be rejected (every guard quantifies "
               "over elements that are already children; no new ids enter) - used for remove / remove_all / WBS.remove")
    ctx.assume("re-rooting a member under the root task of its own WBS cannot be rejected (same owner, the root task is nobody's "
               "descendant and takes part in no dependency)")

    o = ctx.ob('rejections_are_runtime_errors', 'R6a', "every explicit raise in task.py / wbs.py raises RuntimeError", floor=25)

    def types(o):
        for f in prog.all_funcs():
            if f.module.name not in ('task', 'wbs'):
                continue
            for r, name in eff.direct_raises(f):
                if name == 'RuntimeError':
                    o.site(f, r, 'RuntimeError')
                else:
                    o.refute(f, r, r, f"rejects with {name}")
    ctx.guarded(o, types)

    o = ctx.ob('cannot_reject_table', 'R12',
               "structural side conditions of the E3 assumptions: list removal assigns a filtered sub-list of the live list to the owner; "
               "_attach/_detach raise nothing; re-rooting targets the task's own WBS root", floor=3)
    ctx.guarded(o, lambda o: cannot_reject(ctx, o, eff))

    o = ctx.ob('children_prevalidated', 'R12',
               "children assignment: every guard of the parent setter (called once per element after the old children were released) is "
               "established for every element before the first write: self, descendant, dependency-vs-ancestor, owner, ids incl. duplicates "
               "inside the argument", floor=5)
    ctx.guarded(o, lambda o: prevalidated(ctx, o, eff))

    o = ctx.ob('move_validates_first', 'R12',
               "move(): every lookup that can fail after the first list change (remove(task), index(anchor)) is validated before it: task in "
               "list, anchor in list, exactly one anchor, anchor not among the moved tasks", floor=4)
    ctx.guarded(o, lambda o: move_rule(ctx, o))

    o = ctx.ob('insert_resolves_anchor_first', 'R12',
               "insert(): the anchor is taken from the list without the task, with the index bounded, before the task is attached; the "
               "following move() is called only with that anchor", floor=3)
    ctx.guarded(o, lambda o: insert_rule(ctx, o))

    o = ctx.ob('reorder_works_on_copies', 'R12',
               "reorder(): lookups and removals that can fail operate on copies; the live list is replaced once, after them", floor=1)
    ctx.guarded(o, lambda o: reorder_rule(ctx, o))

    o = ctx.ob('link_facades_write_through_setters', 'R12',
               "the predecessor/successor list facades (and the read-only task lists) wrap the task's LIVE relation list: they never change "
               "it in place - every change is an assignment to the owner's property, whose setter validates before it writes (an in-place "
               "extend/append/remove, e.g. in __iadd__, makes the change before the validation: a rejected `t << x` keeps the link)", floor=4)
    ctx.guarded(o, lambda o: link_facades(ctx, o, eff))

    o = ctx.ob('sort_works_on_a_copy', 'R12',
               "sort(): the ordering (whose key function / comparisons can fail on incomparable values) is computed on a copy by sorted(); "
               "the shared list is replaced only afterwards, in one step", floor=1)
    ctx.guarded(o, lambda o: sort_rule(ctx, o))

    for q in MUTATORS:
        short = q.split('.', 1)[1]
        o = ctx.ob(f'order[{short}]', 'R12', f"{short}: no raising event is reachable after the first write of relation state (modulo E1-E3)", floor=1)
        ctx.guarded(o, lambda o, q=q: order(ctx, o, eff, q))


# ======================================================================================================================
def _events(ctx, f, eff):
    """(writes, raises): lists of (cfg_node, ast_node, text, kind, callee)"""
    prog = ctx.prog
    cfg = cfg_of(f)
    W, R = [], []
    ctor = f.name == '__init__'
    for w in eff.direct_writes(f):
        if w.field in FIELDS and w.root != 'fresh' and not (ctor and w.root == 'self'):
            cn = cfg.node_containing(w.node) or cfg.node_of(w.node)
            if cn is not None:
                W.append((cn, w.node, f"{w.kind} of {unmangle(w.field)}", 'direct', None))
    for n in walk_no_nested(f.node):
        if isinstance(n, ast.Raise):
            cn = cfg.node_of(n)
            if cn is not None and cfg.is_reachable(cn):
                R.append((cn, n, 'raise', 'raise', None))
    for ci in ctx.cg.calls_in(f):
        cn = cfg.node_containing(ci.node)
        if cn is None:
            continue
        cw = {k for k in eff.call_writes(f, ci) if k[0] in FIELDS and not (ctor and k[1] == 'self')}
        for t in ci.targets:
            if t is None:
                continue
            if cw and any(k[0] in FIELDS for k in eff.writes_star(t)):
                W.append((cn, ci.node, f"call of {t.qual}", 'call', t))
            if eff.raises_star(t):
                R.append((cn, ci.node, f"call of {t.qual} (may raise {', '.join(sorted(eff.raises_star(t)))})", 'call', t))
    # dynamic attribute assignment on tasks: may invoke any relation setter
    for n in walk_no_nested(f.node):
        if isinstance(n, ast.Call) and isinstance(n.func, ast.Attribute) and unmangle(n.func.attr) == '__setattr__' and n.args and \
                not isinstance(n.args[0], ast.Constant) and not (isinstance(n.func.value, ast.Call)):
            rt = base(ctx.typer.expr_type(n.func.value, f))
            if rt in ('Task', None):
                cn = cfg.node_containing(n)
                W.append((cn, n, "dynamic attribute assignment on a task", 'dynamic', None))
                R.append((cn, n, "dynamic attribute assignment on a task (any setter may reject)", 'dynamic', None))
        if isinstance(n, ast.Call) and isinstance(n.func, ast.Name) and n.func.id == 'setattr' and len(n.args) == 3 and \
                not isinstance(n.args[1], ast.Constant):
            rt = base(ctx.typer.expr_type(n.args[0], f))
            if rt in ('Task', None):
                cn = cfg.node_containing(n)
                if cn is not None:
                    W.append((cn, n, "dynamic attribute assignment on a task", 'dynamic', None))
                    R.append((cn, n, "dynamic attribute assignment on a task (any setter may reject)", 'dynamic', None))
    # implicitly raising list operations on builtin lists
    for n in walk_no_nested(f.node):
        if isinstance(n, ast.Call) and isinstance(n.func, ast.Attribute) and n.func.attr in ('remove', 'index') and n.args:
            rt = base(ctx.typer.expr_type(n.func.value, f))
            if rt == 'list':
                cn = cfg.node_containing(n)
                R.append((cn, n, f"list.{n.func.attr}() raises ValueError when the element is missing", 'implicit', None))
        if isinstance(n, ast.Call) and isinstance(n.func, ast.Name) and n.func.id == 'next' and len(n.args) == 1:
            cn = cfg.node_containing(n)
            R.append((cn, n, "next() without default raises StopIteration", 'implicit', None))
        if isinstance(n, ast.Subscript) and isinstance(n.ctx, ast.Load) and not isinstance(n.slice, (ast.Constant, ast.Slice)):
            rt = base(ctx.typer.expr_type(n.value, f))
            if rt in ('list',) + tuple(['_ChildrenList', '_ImmutableTaskList', '_TaskList']):
                cn = cfg.node_containing(n)
                R.append((cn, n, "subscript with a computed index raises IndexError", 'implicit', None))
    return W, R


def _wbs_removers(ctx):
    """the functions that take a task out of a WBS by descending the tree: WBS.__remove and the private helpers of wbs.py it
    delegates to - or, when that private method was moved or renamed, the private function(s) WBS.remove delegates to"""
    cached = getattr(ctx, '_c15_removers', None)
    if cached is not None:
        return cached
    prog = ctx.prog
    w = prog.funcs.get('wbs.WBS.__remove')
    if w is not None:
        todo = [w]
    else:
        todo = [t for ci in ctx.cg.calls_in(prog.func('wbs.WBS.remove')) for t in ci.targets
                if t is not None and ci.kind == 'call' and t.module.name == 'wbs' and t.name.startswith('_')]
    seen_f = []
    while todo:
        g = todo.pop()
        if any(g is x for x in seen_f) or len(seen_f) > 6:
            continue
        seen_f.append(g)
        for ci in ctx.cg.calls_in(g):
            for t in ci.targets:
                if t is not None and t.module.name == 'wbs' and t.name.startswith('_') and t.name != '_root' and ci.kind == 'call' \
                        and not (t.name.startswith('__') and t.name.endswith('__')):
                    todo.append(t)
    ctx._c15_removers = seen_f
    return seen_f


def order(ctx, o, eff, q):
    prog = ctx.prog
    if q == 'wbs.WBS.__remove' and q not in prog.funcs and _wbs_removers(ctx):
        f = _wbs_removers(ctx)[0]
    elif q not in prog.funcs and q.count('.') == 2 and prog.classes.get(q.split('.')[1]) is not None and \
            prog.find_method(q.split('.')[1], q.split('.')[2]) is not None:
        f = prog.find_method(q.split('.')[1], q.split('.')[2])      # the method moved into a (new) base class
    else:
        f = prog.func(q)
    cfg = cfg_of(f)
    W, R = _events(ctx, f, eff)
    if not W:
        o.site(f, f.node, "no relation write (delegates nothing / read only)")
        return
    n_ok = 0
    reported = set()
    for rn, rnode, rtext, rkind, rcallee in R:
        before = [w for w in W if (w[0] is not rn and cfg.can_reach(w[0], rn)) or
                  (w[0] is rn and (cfg.can_reach(rn, rn) or (_in_comprehension(f, w[1]) and _in_comprehension(f, rnode))))]
        if not before:
            n_ok += 1
            continue
        w = before[0]
        ex = exempt(ctx, f, eff, w, (rn, rnode, rtext, rkind, rcallee))
        if ex:
            o.site(f, rnode, f"after `{src(w[1])[:40]}`: {ex}")
            continue
        key = _construct(f, w, rnode, rkind, rcallee)
        if w[0] is rn:
            fos = cfg.enclosing_fors(rn) or _in_comprehension(f, rnode)
            key = "multi-receiver loop applying a rejecting setter" if fos else key
        elif ctor_like(f):
            key = "constructor applies several relation setters in sequence"
        elif _only_next_round(cfg, w[0], rn):
            # the raising event belongs to the NEXT receiver/element of the same loop (e.g. `x = t.rel + other; t.rel = x`): the same
            # sequence-of-atomic-setter-calls situation as `t.rel += other`
            key = "multi-receiver loop applying a rejecting setter"
        if key in reported:
            continue
        reported.add(key)
        loop = ' (in a loop over several receivers/elements)' if w[0] is rn else ''
        o.refute(f, rnode, key, f"{rtext} is reachable after the write `{src(w[1])[:60]}` ({w[2]}){loop}: a rejection here leaves the "
                                f"earlier change in place")
    if not o.refuted:
        o.site(f, f.node, f"{len(W)} write event(s), {len(R)} raising event(s): all raising events precede the first write or are exempt")


def _only_next_round(cfg, wn, rn) -> bool:
    """wn and rn sit in the same for loop and rn is reachable from wn only through the loop header (i.e. in a later round)"""
    common = [fo for fo in cfg.enclosing_fors(wn) if any(fo is x for x in cfg.enclosing_fors(rn))]
    if not common:
        return False
    hdr = cfg.node_of(common[-1])
    seen, todo = set(), list(wn.succ)
    while todo:
        n = todo.pop()
        if n.id in seen or n is hdr:
            continue
        seen.add(n.id)
        if n is rn:
            return False
        todo.extend(n.succ)
    return True


def _in_comprehension(f, node) -> bool:
    """node is evaluated once per element of a comprehension / generator expression (an implicit loop inside one statement)"""
    for n in walk_no_nested(f.node):
        if isinstance(n, (ast.ListComp, ast.SetComp, ast.GeneratorExp, ast.DictComp)):
            inner = [n.elt] if not isinstance(n, ast.DictComp) else [n.key, n.value]
            inner += [c for g in n.generators for c in g.ifs] + [g.iter for g in n.generators[1:]]
            if any(x is node for part in inner for x in ast.walk(part)):
                return True
    return False


def ctor_like(f):
    return f.name == '__init__'


def _construct(f, w, rnode, rkind, rcallee):
    if rkind == 'call' and rcallee is not None:
        return f"{rcallee.qual.split('.', 1)[1]} after {_wtext(w)}"
    if rkind == 'dynamic':
        return f"dynamic attribute assignment after {_wtext(w)}"
    if rkind == 'raise':
        return f"raise after {_wtext(w)}"
    return f"{src(rnode)[:50]} after {_wtext(w)}"


def _wtext(w):
    if w[3] == 'call' and w[4] is not None:
        return w[4].qual.split('.', 1)[1]
    if w[3] == 'dynamic':
        return 'dynamic attribute assignment'
    return w[2]


def exempt(ctx, f, eff, w, r):
    rn, rnode, rtext, rkind, rcallee = r
    prog = ctx.prog
    removers = _wbs_removers(ctx)
    if rkind == 'call' and rcallee is not None and (rcallee.qual in NON_REJECTING or any(rcallee is x for x in removers)):
        return f"E3 {rcallee.name} cannot reject here"
    if rkind == 'call' and rcallee is not None and rcallee.name in ('__iter__', '__len__', '__getitem__', '__contains__'):
        if rcallee.name == '__getitem__' and f.qual == 'task._ChildrenList.insert':
            return None
        if not eff.direct_raises(rcallee):
            return "facade read"
    if f.qual == SETTERS['children'] and rkind == 'call' and rcallee is not None and rcallee.qual == SETTERS['parent']:
        return "E1 every guard of the parent setter is established before the first write (obligation children_prevalidated)"
    if rkind == 'call' and rcallee is not None and rcallee.name == 'remove' and rcallee.cls in ('_PredecessorsList', '_SuccessorsList',
                                                                                                '_ChildrenList', '_TaskList') and \
            isinstance(rnode, ast.Call) and len(rnode.args) == 1 and isinstance(rnode.args[0], ast.Name) and rnode.args[0].id == f.self_name:
        return "E3 <list>.remove(self) cannot be rejected (the only rejection is a None argument)"
    if rkind == 'call' and rcallee is not None and rcallee.qual == SETTERS['children'] and f.qual != SETTERS['children']:
        v = _assigned_value(f, rnode)
        tgt = rnode if isinstance(rnode, ast.Attribute) else None
        if v is not None and tgt is not None:
            vx = Expander(prog, f, ctx.typer, inline=False).expand(v, cfg_of(f).node_containing(rnode))
            parts = facts.comp_parts(v) or facts.comp_parts(vx)
            if parts and isinstance(parts[0], ast.Name) and isinstance(parts[1], ast.Name) and parts[0].id == parts[1].id and \
                    isinstance(parts[2], ast.Attribute) and parts[2].attr in ('children', '_Task__children') and same(parts[2].value, tgt.value):
                return "E3 x.children = [c for c in x.children if ..]: a sub-list of the current children cannot be rejected"
    if rkind == 'call' and rcallee is not None and rcallee.qual == SETTERS['parent'] and f.qual != SETTERS['parent']:
        v = _assigned_value(f, rnode)
        if v is not None and isinstance(v, ast.Constant) and v.value is None and _parent_none_cannot_reject(ctx):
            return "E3 `x.parent = None` cannot be rejected (every guard of the parent setter requires a parent; re-rooting is E3)"
    if f.qual == SETTERS['parent'] and rkind == 'call' and rcallee is not None and \
            rcallee.qual in ('task._ChildrenList.append', SETTERS['parent'], 'task._check_not_none') and _is_reroot(ctx, f, rnode):
        return "E3 re-rooting under the own WBS root cannot be rejected"
    if rkind == 'implicit' and isinstance(rnode, ast.Call) and isinstance(rnode.func, ast.Attribute) and rnode.func.attr == 'remove':
        conds = facts.node_conditions(prog, f, rnode, ctx.typer, expand=False)
        x, L = rnode.args[0], rnode.func.value
        for t, p in conds:
            for a, q in facts.split_conj(t, p):
                a, q = facts.norm_cond(a, q)
                if q and isinstance(a, ast.Compare) and len(a.ops) == 1 and isinstance(a.ops[0], ast.In) and same(a.left, x) and \
                        same(a.comparators[0], L):
                    return "E2 remove(x) under `x in list`"
    if f.qual == 'task._ChildrenList.move' and rkind == 'implicit':
        return "E2 lookups validated before the first list change (obligation move_validates_first)"
    if f.qual == 'task._ChildrenList.insert' and rkind == 'call' and rcallee is not None and rcallee.qual in (
            'task._ChildrenList.move', 'task._to_list'):
        return "E1 move() is called with an anchor resolved before the attach (obligation insert_resolves_anchor_first)"
    if (f.qual in ('task._TaskList.remove_all', 'wbs.WBS.remove_all', 'wbs.WBS.remove', 'wbs.WBS.__remove') or any(f is x for x in removers)) \
            and rkind == 'call' and rcallee is not None and \
            (rcallee.qual in NON_REJECTING or (rcallee.name in ('remove', '__remove', '_check_not_none') and
                                               (rcallee.qual != 'wbs.WBS.remove' or _facade_receiver(ctx, f, rnode)))
             or any(rcallee is x for x in removers)):
        return "E3 removal of current members cannot be rejected"
    return None


def _assigned_value(f, node):
    """value of the assignment statement whose target is (or contains) node"""
    for n in walk_no_nested(f.node):
        if isinstance(n, ast.Assign) and any(x is node for t in n.targets for x in ast.walk(t)):
            return n.value
    return None


def _parent_none_cannot_reject(ctx) -> bool:
    """every explicit guard of the parent setter has `parent is not None` among its conditions"""
    cached = getattr(ctx, '_c15_pnone', None)
    if cached is None:
        callee = ctx.prog.func(SETTERS['parent'])
        gfs = T.guard_formulas(ctx, callee)
        cached = bool(gfs) and all(T.implication(g.formula, [T.F_not(T.F_atom('none(arg)'))]) is None for g in gfs)
        ctx._c15_pnone = cached
    return cached


def _facade_receiver(ctx, f, call) -> bool:
    """the call is `<x>.children.remove(..)` / `<x>.roots.remove(..)` (possibly through a hoisted local): a children-list facade, not
    WBS.remove - the call graph offers every `remove` when the receiver's type is unknown"""
    try:
        x = T.expand_call(ctx.prog, f, ctx.typer, call)
    except Exception:
        return False
    return bool(match("$c.children.remove($t)", x) or match("$c.roots.remove($t)", x))


def _is_reroot(ctx, f, node) -> bool:
    """node is (after expanding hoisted locals) `self.__wbs._root().children.append(self)` - or the target of the assignment that this
    append performs, `self.parent = self.__wbs._root()`"""
    if isinstance(node, ast.Attribute) and node.attr == 'parent' and isinstance(node.value, ast.Name) and node.value.id == f.self_name:
        v = _assigned_value(f, node)
        if v is None:
            return False
        try:
            vx = Expander(ctx.prog, f, ctx.typer, inline=False).expand(v, cfg_of(f).node_containing(node))
        except Exception:
            return False
        return bool(match(f"{f.self_name}._Task__wbs._root()", vx))
    if not isinstance(node, ast.Call):
        return False
    if match("self._Task__wbs._root().children.append(self)", node):
        return True
    try:
        return bool(match("self._Task__wbs._root().children.append(self)", T.expand_call(ctx.prog, f, ctx.typer, node)))
    except Exception:
        return False


# ======================================================================================================================
def cannot_reject(ctx, o, eff):
    prog = ctx.prog
    f0 = prog.funcs.get('task._ChildrenList.remove') or prog.find_method('_ChildrenList', 'remove') or prog.func('task._ChildrenList.remove')
    # template method: remove() of a base class doing the shared checks and delegating the removal itself to a hook of _ChildrenList
    cand = [f0]
    for c in [n for n in walk_no_nested(f0.node) if isinstance(n, ast.Call) and isinstance(n.func, ast.Attribute) and
              isinstance(n.func.value, ast.Name) and n.func.value.id == f0.self_name]:
        h_ = prog.find_method('_ChildrenList', unmangle(c.func.attr))
        if h_ is not None and not any(h_ is x for x in cand):
            cand.append(h_)
    f = next((g for g in cand if any(True for _ in facts.attr_stores(g, 'children'))), f0)
    ok = False
    exf = Expander(prog, f, ctx.typer, inline=True)
    for st, tgt, val in facts.attr_stores(f, 'children'):
        if match(f"self.{_owner_attr(prog)}", exf.expand(tgt.value, cfg_of(f).node_of(st))):
            ok = True
            vx = exf.expand(val, cfg_of(f).node_of(st))
            sub = _sublist_of_live(vx)
            if sub is True:
                o.site(f, st, "owner.children = [t for t in self._list if t != task]: a sub-list of the current children")
            elif sub is False:
                o.refute(f, st, st, f"remove() assigns `{src(vx)[:60]}`, which is not a filtered sub-list of the live child list: the assumption "
                                    f"'removal cannot be rejected' does not hold")
            else:
                o.undecided(f, st, st, f"remove() assigns `{src(vx)[:60]}`: not recognised as a filtered sub-list of the live child list")
    if not ok:
        o.undecided(f, f.node, 'remove', "remove() does not assign the owner's children")
    for q in ('task.Task._attach', 'task.Task._detach'):
        g = prog.funcs.get(q)
        if g is None:
            continue
        rs = eff.raises_star(g)
        if rs:
            o.refute(g, g.node, q, f"{q} may raise {sorted(rs)} although it runs after the relation writes")
        else:
            o.site(g, g.node, f"{g.name} raises nothing")
    p = prog.func(SETTERS['parent'])
    rr = [n for n in facts.calls_named(p, 'append') if _is_reroot(ctx, p, n)] or \
        [tgt for st, tgt, val in facts.attr_stores(p, 'parent') if _is_reroot(ctx, p, tgt)]
    if rr:
        conds = facts.node_conditions(prog, p, rr[0], ctx.typer, expand=True)
        if any(facts.cond_is(t, q, "self._Task__wbs is None", want=False) for t, q in conds):
            o.site(p, rr[0], "re-rooting targets self.__wbs._root()")
        else:
            o.refute(p, rr[0], rr[0], "re-rooting is attempted without a WBS")
    seen_f = _wbs_removers(ctx)
    if not seen_f:
        prog.func('wbs.WBS.__remove')        # anchor missing
    w = seen_f[0]
    hit = False
    for g in seen_f:
        exw = Expander(prog, g, ctx.typer, inline=False)
        if any(match("$c.children.remove($t)", exw.expand(n)) for n in facts.calls_named(g, 'remove')):
            hit = True
    if hit:
        o.site(w, w.node, "WBS.__remove removes through the child list facade")
    else:
        o.undecided(w, w.node, '__remove', "WBS.__remove in an unrecognised form")


def _owner_attr(prog) -> str:
    """the (mangled) attribute in which a _ChildrenList keeps its owner task: what __init__ stores its first parameter in"""
    init = prog.funcs.get('task._ChildrenList.__init__')
    if init is not None and len(init.params) > 1:
        for st, tgt, val in facts.attr_stores(init, None):
            if isinstance(val, ast.Name) and val.id == init.params[1] and isinstance(tgt.value, ast.Name) and tgt.value.id == init.self_name:
                return tgt.attr
    return '_ChildrenList__parent'


def _sublist_of_live(v):
    """True: v is a filtered copy of the live child list (same elements, same order, some left out); False: v positively contains
    something else (concatenation with other elements, mapped elements); None: not recognised"""
    if isinstance(v, ast.BinOp) and isinstance(v.op, ast.Add):
        for a, b in ((v.left, v.right), (v.right, v.left)):
            if isinstance(a, ast.List) and not a.elts:
                return _sublist_of_live(b)
        return False
    m = match("list($x)", v) or match("$x.copy()", v) or match("$x[:]", v)
    if m:
        return True if match("self._list", m['x']) else _sublist_of_live(m['x'])
    m = match("list(filter($f, $x))", v)
    if m and match("self._list", m['x']):
        return True
    parts = facts.comp_parts(v)
    if parts and (match("self._list", parts[2]) or match("self", parts[2])) and isinstance(parts[1], ast.Name):
        if isinstance(parts[0], ast.Name) and parts[0].id == parts[1].id:
            return True
        return False
    return None


def _swap_roles(atom: str) -> str:
    """atom of the parent setter (self = the element, arg = the receiver of the children assignment) in the caller's roles"""
    t = re.sub(r"\bself\b", "\0ELEM", atom)
    t = re.sub(r"\barg\b", "self", t)
    t = t.replace("\0ELEM", "elem")
    m = re.match(r"^(same|wbsneq)\((.*),(.*)\)$", t)
    if m and ',' not in m.group(2) and ',' not in m.group(3):
        a, b = sorted([m.group(2), m.group(3)])
        t = f"{m.group(1)}({a},{b})"
    # the per-element id check is implied by the group check (monotone in its second argument; duplicates inside the argument
    # are part of the group check - verified below)
    if t == 'call:_has_id_intersection(self,[elem])':
        t = 'call:_has_id_intersection(self,arg)'
    return t


def _translate_formula(f):
    k = f[0]
    if k == 'atom':
        return ('atom', _swap_roles(f[1]))
    if k == 'not':
        return ('not', _translate_formula(f[1]))
    if k in ('and', 'or'):
        return (k, [_translate_formula(x) for x in f[1]])
    return f


def prevalidated(ctx, o, eff):
    prog = ctx.prog
    callee = prog.func(SETTERS['parent'])
    caller = prog.func(SETTERS['children'])
    from .c05 import _reaches_under
    writes = relation_write_nodes(ctx, caller, eff)
    callee_locals = {d.var for d in flow_of(callee).defs if d.kind not in ('param', 'entry') and '.' not in d.var}
    for g in T.guard_formulas(ctx, callee):
        if g.exc != 'RuntimeError':
            o.refute(callee, g.node, g.node, f"the parent setter rejects with {g.exc}")
            continue
        R = _translate_formula(g.formula)
        # the argument of the parent setter is the receiver of the children assignment: never None
        R = T.F_and(R, T.F_not(T.F_atom('none(self)')))
        label = "parent-setter guard `" + T.fmt(g.formula)[:70] + "` established for every element before the old children are released"
        from .c01 import _Capture
        cap = _Capture()
        T.require(ctx, cap, caller, label, R, writes, eff, needs_elem=False, mode_filter=_reaches_under)
        # the same helper predicate called with OTHER arguments in the caller (e.g. a longer ancestor list): which of the two calls is
        # the stronger one cannot be read off the atoms
        rcalls = {a.split('(', 1)[0] for a in T.atoms_of(R) if a.startswith('call:')}
        ccalls = {a for g2 in T.guard_formulas(ctx, caller) for a in T.atoms_of(g2.formula) if a.startswith('call:')}
        def extends(ca):
            """caller atom = R's call atom with one list argument extended by concatenation (`[x] + L` / `L + [x]`)"""
            for ra in T.atoms_of(R):
                if not ra.startswith('call:') or ra.split('(', 1)[0] != ca.split('(', 1)[0] or ra == ca:
                    continue
                try:
                    rc_, cc_ = ast.parse(ra[5:], mode='eval').body, ast.parse(ca[5:], mode='eval').body
                except SyntaxError:
                    continue
                if len(rc_.args) != len(cc_.args) or rc_.keywords or cc_.keywords:
                    continue
                def plain(e):
                    m_ = match("[$y for $y in $x]", e) or match("list($x)", e)
                    return plain(m_['x']) if m_ else e
                diff = [(x, y) for x, y in zip(rc_.args, cc_.args) if not same(x, y)]
                if len(diff) == 1 and isinstance(diff[0][1], ast.BinOp) and isinstance(diff[0][1].op, ast.Add) and \
                        (same(plain(diff[0][1].left), plain(diff[0][0])) or same(plain(diff[0][1].right), plain(diff[0][0]))):
                    return True
            return False
        other_args = [a for a in ccalls if a.split('(', 1)[0] in rcalls and a not in T.atoms_of(R) and extends(a)]
        foreign_names = sorted({nm for a in T.atoms_of(R) for nm in re.findall(r"[A-Za-z_]\w*", re.sub(r"^[a-z:]+\(|^opaque:|call:\w+", " ", a))
                                if nm not in ('self', 'arg', 'elem', 'in', 'not', 'is', 'None', 'id', 'all_children', 'all_parents',
                                              'all_predecessors', 'all_successors', 'parent', 'children', 'wbs', 'predecessors', 'successors')
                                and not nm.startswith('_') and nm in callee_locals})
        if cap.refuted and not cap.sites and foreign_names:
            o.undecided(caller, caller.node, label, f"[{label}]: the parent setter's check runs over its own local(s) {', '.join(foreign_names[:3])} "
                                                    f"(a walk), which cannot be restated for the children setter")
        elif cap.refuted and not cap.sites and other_args and all('is missing' in str(a[3]) for a, k in cap.refuted if len(a) > 3):
            o.undecided(caller, caller.node, label, f"[{label}]: the children setter calls the same predicate with a list argument extended by concatenation "
                                                    f"(`{other_args[0][5:][:70]}`); whether that implies the parent setter's check is not decided")
        else:
            cap.replay(o)
    # ids: duplicates inside the argument are part of _has_id_intersection
    # (the module helper may have been moved into the class as a private static method: Task.__has_id_intersection)
    from .c05_util import id_test_func
    h = id_test_func(prog)
    verdict, node, why = _duplicate_id_check(ctx, h)
    if verdict is True:
        o.site(h, h.node, "the group id check also rejects equal ids inside the argument (element k+1 is then compatible with the tree that "
                          "already holds elements 1..k)")
    elif verdict is False:
        o.refute(h, node, why[0], why[1])
    else:
        o.undecided(h, node, 'duplicates inside the argument', why)


def _truth_conditions(ctx, h):
    """[[(test, polarity)]]: the conjunctions (expanded) under which the predicate h returns a true value; None when a return
    value is not understood"""
    prog = ctx.prog
    ex = Expander(prog, h, ctx.typer, inline=True)
    cfg = cfg_of(h)
    out = []

    def value(v, path):
        if isinstance(v, ast.Constant):
            if v.value:
                out.append(path)
            return
        if isinstance(v, ast.IfExp):
            value(v.body, path + facts.split_conj(v.test, True))
            value(v.orelse, path + facts.split_conj(v.test, False))
            return
        if isinstance(v, ast.BoolOp) and isinstance(v.op, ast.Or):
            for x in v.values:
                value(x, path)
            return
        out.append(path + facts.split_conj(v, True))
    for r in [n for n in walk_no_nested(h.node) if isinstance(n, ast.Return)]:
        if r.value is None:
            continue
        value(ex.expand(r.value, cfg.node_of(r)), list(facts.node_conditions(prog, h, r, ctx.typer, expand=True)))
    return out


def _is_global_name(ctx, h, name) -> bool:
    """a builtin or a module-level name (function, class, constant) - not a local or parameter of h"""
    import builtins
    if name in h.params or flow_of(h).defs_of(name):
        return False
    return hasattr(builtins, name) or name in getattr(h.module, 'funcs', {}) or f"{h.module.name}.{name}" in ctx.prog.funcs or \
        name in ctx.prog.classes or name.startswith('_') or name[:1].isupper()


def _raw_condition(ctx, h, expanded):
    """the test of h as written whose expansion is `expanded` (for messages)"""
    ex = Expander(ctx.prog, h, ctx.typer, inline=True)
    cfg = cfg_of(h)
    for n in walk_no_nested(h.node):
        if isinstance(n, (ast.If, ast.While, ast.IfExp)):
            tn = cfg.node_containing(n.test)
            try:
                if tn is not None and same(ex.expand(n.test, tn), expanded):
                    return n.test
            except Exception:
                pass
    return None


def _keyed_by_task_id(e):
    """e is a dict/set built with the task id as key: {t.id: t for ..}, {t.id for ..}, dict((t.id, t) for ..) - or a view of one"""
    m = match("$d.keys()", e) or match("$d.values()", e) or match("list($d)", e) or match("set($d)", e) or match("$d.items()", e)
    if m:
        return _keyed_by_task_id(m['d'])
    if isinstance(e, ast.DictComp) and isinstance(e.key, ast.Attribute) and e.key.attr == 'id' and isinstance(e.key.value, ast.Name):
        return True
    return False


def _duplicate_id_check(ctx, h):
    """does the group id check answer True when two different incoming task objects carry the same id?
    (True, None, None) | (False, node, (construct, msg)) | (None, node, msg)"""
    tcs = _truth_conditions(ctx, h)
    cands = []
    wrong = None
    conditional = []        # (comparison, [(test, polarity)]): the right comparison, but only reached under further conditions

    def nonempty(t2, p2, coll):
        """the condition only says that `coll` has an element"""
        t2, p2 = facts.norm_cond(t2, p2)

        def incoming(x):
            # the counted collection itself, or another collection of incoming tasks (built from the second parameter / a local, not
            # selected by task id): when it is empty there is nothing that could carry a duplicate id
            if same(x, coll):
                return True
            if isinstance(x, ast.Constant) or any(isinstance(n, ast.Attribute) and n.attr == 'id' for n in ast.walk(x)):
                return False
            return any(isinstance(n, ast.Name) and n.id != h.params[0] and not _is_global_name(ctx, h, n.id) for n in ast.walk(x))
        if not isinstance(t2, (ast.Compare, ast.BoolOp, ast.UnaryOp)) and incoming(t2):
            return p2
        m_ = match("len($x) == 0", t2)
        if m_ and incoming(m_['x']):
            return not p2
        m_ = match("len($x) > 0", t2) or match("len($x) != 0", t2) or match("len($x) >= 1", t2) or match("len($x)", t2)
        return bool(m_ and incoming(m_['x']) and p2)
    for path in tcs:
        for t0, p0 in path:
            t, p = facts.norm_cond(t0, p0)
            if not (isinstance(t, ast.Compare) and len(t.ops) == 1):
                continue
            op = type(t.ops[0])
            sides = [t.left, t.comparators[0]]
            lens = [match("len($x)", s_) for s_ in sides]
            if not all(lens):
                continue
            xs = [m['x'] for m in lens]
            # one side counts distinct ids, the other counts tasks
            for ids_side, tasks_side, ids_left in ((xs[0], xs[1], True), (xs[1], xs[0], False)):
                inner = match("set($a)", ids_side)
                idsrc = inner['a'] if inner else (ids_side if isinstance(ids_side, ast.SetComp) else None)
                if idsrc is None:
                    continue
                cands.append(t)
                differs = (op is ast.Eq and not p) or (op in (ast.Lt, ast.Gt) and p and ((op is ast.Lt) == ids_left))
                if _keyed_by_task_id(tasks_side) or _keyed_by_task_id(idsrc):
                    wrong = wrong or (False, h.node, ('duplicates inside the argument',
                                           f"the incoming tasks are collected in a container keyed by task id (`{src(tasks_side)[:70]}`) before "
                                           f"their ids are counted: two different new tasks with the same id collapse into one, the duplicate "
                                           f"check `{src(t)[:60]}` can never fire and the second task is rejected only after the first was attached"))
                    continue
                parts = facts.comp_parts(idsrc)
                if parts and isinstance(parts[0], ast.Attribute) and parts[0].attr == 'id' and isinstance(parts[1], ast.Name) and                         isinstance(parts[0].value, ast.Name) and parts[0].value.id == parts[1].id and not parts[3] and                         same(parts[2], tasks_side):
                    if differs:
                        extras = [(t2, p2) for t2, p2 in path if t2 is not t0 and not nonempty(t2, p2, tasks_side)]
                        if not extras:
                            return True, None, None
                        conditional.append((t, extras))
                        continue
                    wrong = wrong or (False, h.node, ('duplicates inside the argument',
                                           f"the id-count comparison `{'' if p else 'not '}{src(t)[:80]}` does not answer True when the number of "
                                           f"distinct ids is smaller than the number of new tasks: two new tasks with equal ids pass the check "
                                           f"and the second is rejected after the first was attached"))
    if conditional:
        # the comparison is right, but it is not reached on every way through the helper
        t, extras = conditional[0]
        for t_b, extras_b in conditional[1:]:
            if len(extras) == 1 and len(extras_b) == 1 and same(extras[0][0], extras_b[0][0]) and extras[0][1] != extras_b[0][1]:
                return True, None, None        # the same comparison on both sides of one test
        tree_only = [(t2, p2) for t2, p2 in extras
                     if not any(isinstance(n, ast.Name) and n.id not in (h.params[0],) and not _is_global_name(ctx, h, n.id) for n in ast.walk(t2))]
        counting_elsewhere = False
        if tree_only:
            t2, p2 = tree_only[0]
            for path in tcs:
                if any(same(a, t2) and q != p2 for a, q in path):
                    for a, q in path:
                        if not same(a, t2) and any(isinstance(n, ast.Call) and isinstance(n.func, ast.Name) and
                                                   n.func.id in ('len', 'Counter', 'sorted', 'set', 'sum') for n in ast.walk(a)):
                            counting_elsewhere = True
        if tree_only and len(h.params) > 1 and not counting_elsewhere:
            t2, p2 = tree_only[0]
            raw = _raw_condition(ctx, h, t2) or t2
            return False, h.node, ('duplicates inside the argument',
                                   f"the duplicate check `{src(t)[:60]}` is only reached when `{'' if p2 else 'not '}{src(raw)[:70]}`, a condition on "
                                   f"the receiving tree alone: in the other case the helper answers without counting the incoming ids, two new "
                                   f"tasks with equal ids pass the up-front check and the second is rejected after the first was attached")
        return None, h.node, f"the duplicate check `{src(t)[:60]}` is only reached under `{src(extras[0][0])[:70]}`: not decided"
    if wrong:
        return wrong        # no answer of the helper compares the two counts the right way round
    if cands:
        return None, h.node, f"id-count comparison `{src(cands[0])[:80]}` in a form the rule does not recognise"
    # closed world: every answer of the helper was collected and none compares a number of distinct ids with a number of tasks
    pkg_calls = [c for path in tcs for t, p in path for c in ast.walk(t)
                 if isinstance(c, ast.Call) and isinstance(c.func, ast.Name) and c.func.id.startswith('_')
                 and c.func.id not in ('_collect_subtree', '_find_root')]
    if not tcs or pkg_calls:
        return None, h.node, "the answers of the group id check are not fully understood (helper calls / no true answer found)"
    # every size comparison in the answers must be one the rule reads: emptiness (`len(x) == 0`) or the size of an intersection;
    # any other counting argument (e.g. size of the union against tree ids + number of new tasks) may well cover duplicates
    for path in tcs:
        for t, p in path:
            for n in ast.walk(t):
                if isinstance(n, ast.Compare) and any(match("len($x)", z) for z in [n.left] + list(n.comparators)):
                    others = [z for z in [n.left] + list(n.comparators) if not match("len($x)", z)]
                    lens = [match("len($x)", z)['x'] for z in [n.left] + list(n.comparators) if match("len($x)", z)]
                    understood = (bool(others) and all(isinstance(z, ast.Constant) for z in others)) or \
                        any('intersection' in src(z) or (isinstance(z, ast.BinOp) and isinstance(z.op, ast.BitAnd)) for z in lens)
                    if not understood:
                        return None, h.node, f"counting argument `{src(n)[:80]}` not understood: it may cover equal ids inside the argument"
    # running set of taken ids:  S = <ids so far>; for t in NEW: if t.id in S: <answer true>; S.add(t.id)   - a later task with the id
    # of an earlier new task hits the set, so equal ids inside the argument are noticed
    for lp in [n for n in walk_no_nested(h.node) if isinstance(n, ast.For) and isinstance(n.target, ast.Name)]:
        v = lp.target.id
        adds = [st for st in lp.body if isinstance(st, ast.Expr) and match(f"$s.add({v}.id)", st.value)]
        for st in lp.body:
            if isinstance(st, ast.If) and adds and (m_ := match(f"{v}.id in $s", st.test)) and same(m_['s'], match(f"$s.add({v}.id)", adds[0].value)['s']):
                rets = [n for n in ast.walk(st) if isinstance(n, ast.Return) and n.value is not None and
                        not (isinstance(n.value, ast.Constant) and not n.value.value)]
                flags = [n.targets[0].id for n in st.body if isinstance(n, ast.Assign) and len(n.targets) == 1 and
                         isinstance(n.targets[0], ast.Name) and isinstance(n.value, ast.Constant) and n.value.value is True]
                flag_returned = any(isinstance(n, ast.Return) and isinstance(n.value, ast.Name) and n.value.id in flags
                                    for n in walk_no_nested(h.node))
                if rets or flag_returned:
                    return True, None, None
    mutated = [n for n in ast.walk(h.node) if isinstance(n, ast.Call) and isinstance(n.func, ast.Attribute) and
               n.func.attr in ('update', 'add', 'difference_update', 'intersection_update')]
    if mutated:
        return None, h.node, f"id sets are built up in place (`{src(mutated[0])[:60]}`): the answers cannot be read as one expression"
    return False, h.node, ('duplicates inside the argument',
                           "the group id check compares every element with the receiving tree only: two new tasks with equal ids pass it and "
                           "the second is rejected after the first was attached")


def move_requirements(f):
    """what move() must have rejected before it touches the list, as formulas over the canonical atoms (roles: arg = the moved tasks,
    elem = one of them; the anchors keep their parameter names).  The relocation loop uses `before` when given, else `after`.
    -> [(key, label, formula, needs_elem)]"""
    bp, ap = f.params[2], f.params[3]
    A, N, AND = T.F_atom, T.F_not, T.F_and
    lst = 'self._list'
    return [
        ('task_in_list', "every moved task is in the list", N(A(f"in(elem,{lst})")), True),
        ('before_in_list', "`before` is in the list", AND(N(A(f"none({bp})")), N(A(f"in({bp},{lst})"))), False),
        ('after_in_list', "`after` is in the list", AND(A(f"none({bp})"), N(A(f"none({ap})")), N(A(f"in({ap},{lst})"))), False),
        ('anchor_given', "an anchor is given", AND(A(f"none({bp})"), A(f"none({ap})")), False),
        ('before_not_moved', "`before` is not one of the moved tasks", AND(N(A(f"none({bp})")), A(f"in({bp},arg)")), False),
        ('after_not_moved', "`after` is not one of the moved tasks", AND(A(f"none({bp})"), N(A(f"none({ap})")), A(f"in({ap},arg)")), False),
    ]


def move_anchor_rebound(ctx, f):
    """[(assignment stmt, name)]: the anchor looked up by `self._list.index(..)` gets a new value inside a loop of the relocation phase,
    i.e. after the validation of before/after was done"""
    prog = ctx.prog
    cfg = cfg_of(f)
    fl = flow_of(f)
    out = []
    for c in facts.calls_named(f, 'index'):
        if not match("self._list.index($x)", T.expand_call(prog, f, ctx.typer, c)) or not c.args:
            continue
        cn = cfg.node_containing(c)
        todo, seen = [n.id for n in ast.walk(c.args[0]) if isinstance(n, ast.Name)], set()
        while todo:
            nm = todo.pop()
            if nm in seen:
                continue
            seen.add(nm)
            for d in fl.reaching(nm, cn):
                if d.node is None or d.kind in ('for',):
                    continue
                if cfg.enclosing_fors(d.node) and d.stmt is not None and not any(x is d.stmt for x, _ in out):
                    # defined anew in every round of a loop: fine only if it is a plain function of loop-invariant anchors
                    val = d.value
                    if val is not None and all(isinstance(n, ast.Name) and n.id in f.params[2:4] or not isinstance(n, ast.Name)
                                               for n in ast.walk(val)) and not any(isinstance(n, ast.Call) for n in ast.walk(val)):
                        continue
                    out.append((d.stmt, nm))
                elif d.value is not None:
                    todo += [n.id for n in ast.walk(d.value) if isinstance(n, ast.Name)]
    return out


def move_rule(ctx, o):
    prog = ctx.prog
    f = prog.func('task._ChildrenList.move')
    eff = Effects(prog, ctx.typer, ctx.cg)
    for st_, nm in move_anchor_rebound(ctx, f):
        o.refute(f, st_, st_, f"the anchor `{nm}` is re-bound inside the relocation loop (`{src(st_)[:50]}`), after before/after were validated: "
                              f"index() of the new anchor can fail after remove(task) already changed the list")
    writes = [w for w in relation_write_nodes(ctx, f, eff) if isinstance(w[1], ast.AST)]
    if not writes:
        o.undecided(f, f.node, 'move', "no list change found")
        return
    for key, label, R, needs_elem in move_requirements(f):
        T.require(ctx, o, f, f"move() validates that {label} before it changes the list (a failure afterwards leaves a task removed)",
                  R, writes, eff, needs_elem)


def _is_none(e) -> bool:
    return isinstance(e, ast.Constant) and e.value is None


def _lt_len(test, pol, l, i):
    """does the condition (test, polarity) say `i < len(l)`?  True / False (a recognised comparison of i with len(l) that is
    NOT `i < len(l)`, e.g. `<=`) / None (something else)"""
    t, p = test, pol
    while isinstance(t, ast.UnaryOp) and isinstance(t.op, ast.Not):
        t, p = t.operand, not p
    if not (isinstance(t, ast.Compare) and len(t.ops) == 1):
        return None
    a, op, b = t.left, type(t.ops[0]), t.comparators[0]
    ln = ast.Call(func=ast.Name(id='len', ctx=ast.Load()), args=[l], keywords=[])
    flip = {ast.Lt: ast.Gt, ast.Gt: ast.Lt, ast.LtE: ast.GtE, ast.GtE: ast.LtE}
    neg = {ast.Lt: ast.GtE, ast.GtE: ast.Lt, ast.Gt: ast.LtE, ast.LtE: ast.Gt}
    if op not in flip:
        return None
    if same(b, i) and same(a, ln):
        a, b, op = b, a, flip[op]
    # i <= len(l) - 1   /   i + 1 <= len(l)
    if same(a, i) and isinstance(b, ast.BinOp) and isinstance(b.op, ast.Sub) and same(b.left, ln) and facts.const_num(b.right) == 1 \
            and op in (ast.LtE, ast.Gt):
        b, op = ln, (ast.Lt if op is ast.LtE else ast.GtE)
    if not (same(a, i) and same(b, ln)):
        return None
    if not p:
        op = neg[op]
    return op is ast.Lt


def _bounded_lookup(e, path_conds):
    """anchor value `l[i]` guarded by `i < len(l)` (conditional expression with None on the other side, or path condition of the
    statement).  -> ('ok', l, i) | ('bad', l, i, why) | None (shape not recognised)"""
    if isinstance(e, ast.IfExp) and (_is_none(e.body) != _is_none(e.orelse)):
        sub, pol = (e.body, True) if _is_none(e.orelse) else (e.orelse, False)
        if isinstance(sub, ast.Subscript) and not isinstance(sub.slice, ast.Slice):
            l, i = sub.value, sub.slice
            verdicts = [_lt_len(a, q, l, i) for a, q in facts.split_conj(e.test, pol)]
            if any(v is True for v in verdicts):
                return ('ok', l, i)
            if any(v is False for v in verdicts):
                return ('bad', l, i, f"the bound `{src(e.test)}` lets index == len(list) through (IndexError)")
            return None
        return None
    if isinstance(e, ast.Subscript) and not isinstance(e.slice, ast.Slice):
        l, i = e.value, e.slice
        verdicts = [_lt_len(a, q, l, i) for a, q in path_conds]
        if any(v is True for v in verdicts):
            return ('ok', l, i)
        return ('bad', l, i, "the lookup is not bounded by the list length: a bad index raises IndexError")
    return None


def _list_without(l, task_p):
    """True: l is the live child list filtered by `!= task` / `is not task`; False: l is (a plain copy of) the live list itself, which
    may contain the inserted task; None: not recognised"""
    if isinstance(l, ast.BinOp) and isinstance(l.op, ast.Add):      # [] + [..]
        if isinstance(l.left, ast.List) and not l.left.elts:
            return _list_without(l.right, task_p)
        if isinstance(l.right, ast.List) and not l.right.elts:
            return _list_without(l.left, task_p)
        return None
    m = match("list($x)", l) or match("$x.copy()", l) or match("$x[:]", l) or match("tuple($x)", l)
    if m:
        return _list_without(m['x'], task_p)
    if match("self._list", l) or match("self", l):
        return False
    parts = facts.comp_parts(l)
    if parts and isinstance(parts[0], ast.Name) and isinstance(parts[1], ast.Name) and parts[0].id == parts[1].id and \
            (match("self._list", parts[2]) or match("self", parts[2])):
        v = parts[1].id
        if not parts[3]:
            return False
        for c in parts[3]:
            for a, q in facts.split_conj(c, True):
                if facts.cond_is(a, q, f"{v} == {task_p}", False) is not None or facts.cond_is(a, q, f"{task_p} == {v}", False) is not None or \
                        facts.cond_is(a, q, f"{v} is {task_p}", False) is not None or facts.cond_is(a, q, f"{task_p} is {v}", False) is not None:
                    return True
        return None
    return None


def insert_rule(ctx, o):
    prog = ctx.prog
    f = prog.func('task._ChildrenList.insert')
    cfg = cfg_of(f)
    fl = flow_of(f)
    ex = Expander(prog, f, ctx.typer, inline=True)
    eff = Effects(prog, ctx.typer, ctx.cg)
    idx_p, task_p = f.params[1], f.params[2]
    mv = [c for c in facts.calls_named(f, 'move')]
    # the attach: every write of relation state that is not the move() itself
    att = [(cn, n) for cn, n, _ in relation_write_nodes(ctx, f, eff) if not any(n is c for c in mv)]
    if not att:
        o.undecided(f, f.node, 'insert', "insert does not attach the task (no relation write besides move())")
        return
    if not mv:
        o.site(f, att[0][1], "insert only appends")
        return
    neg_seen = None
    for c in mv:
        cn = cfg.node_containing(c)
        before_c = [a for a in att if cfg.can_reach(a[0], cn)]
        ba = facts.bound_args(c, prog.func('task._ChildrenList.move'))
        anchor = ba[1] if len(ba) > 1 else None
        after_arg = ba[2] if len(ba) > 2 else None
        if anchor is None or (after_arg is not None and not _is_none(after_arg)):
            o.undecided(f, c, c, "move() call without a `before` anchor")
            continue
        if not before_c:
            o.undecided(f, c, c, "move() is not preceded by the attach")
            continue
        if not isinstance(anchor, ast.Name):
            live = any(match("self._list", x) or match("self[$i]", x) for x in ast.walk(anchor))
            if any(isinstance(x, ast.Subscript) for x in ast.walk(anchor)) and live:
                o.refute(f, c, anchor, f"the anchor `{src(anchor)}` is looked up after the task was attached: a bad index raises after the "
                                       f"attach, and index == len(list) refers to the task itself")
            else:
                o.undecided(f, c, anchor, "anchor expression not recognised")
            continue
        defs = fl.reaching(anchor.id, cn)
        if defs and all(d.kind == 'param' for d in defs):
            # the anchor is a task handed in by the caller: move() rejects it when it is not a member (or is the task itself) - that
            # must have been established before the attach
            member = any(facts.cond_is(a, q, f"{anchor.id} in self._list", True) is not None or
                         facts.cond_is(a, q, f"{anchor.id} in self", True) is not None
                         for a, q in facts.node_conditions(prog, f, c, ctx.typer, expand=True))
            for g_ in facts.guards_of(prog, f, ctx.typer, inline=False):
                if all(cfg.dominates(g_.cfg_node, a[0]) or not cfg.can_reach(a[0], g_.cfg_node) for a in before_c) and any(
                        facts.cond_is(a, q, f"{anchor.id} in self._list", False) is not None
                        for t_, p_ in g_.conds for a, q in facts.split_conj(t_, p_)):
                    member = True
            if member:
                o.site(f, c, f"caller-supplied anchor `{anchor.id}` is checked to be a member before the attach")
            else:
                o.refute(f, c, c, f"move() is called with the caller-supplied task `{anchor.id}` as anchor after the task was attached, and nothing "
                                  f"before the attach establishes that `{anchor.id}` is in this list: move() rejects it ('Before' not found) when "
                                  f"the task is already re-parented")
            continue
        if not defs or any(d.kind != 'assign' or d.node is None for d in defs):
            o.undecided(f, c, anchor, "anchor is not a local with plain assignments")
            continue
        late = [d for d in defs if any(cfg.can_reach(a[0], d.node) for a in before_c)]
        if late:
            o.refute(f, late[0].stmt, late[0].stmt, "the anchor is resolved after the task was attached")
            continue
        e = ex.expand(anchor, cn)
        path = []
        if len(defs) == 1:
            path = facts.node_conditions(prog, f, defs[0].stmt, ctx.typer, expand=True)
        r = _bounded_lookup(e, path)
        if r is None:
            o.undecided(f, c, anchor, f"anchor value `{src(e)[:80]}` is not a bounded lookup the rule recognises")
            continue
        if r[0] == 'bad':
            o.refute(f, defs[0].stmt, defs[0].stmt, f"the anchor `{src(e)[:60]}`: {r[3]}")
            continue
        _, l, i = r
        lw = _list_without(l, task_p)
        if lw is True:
            o.site(f, defs[0].stmt, "anchor = (list without the task)[index] or None, resolved before the attach")
        elif lw is False:
            o.refute(f, defs[0].stmt, defs[0].stmt, f"the anchor is taken from `{src(l)[:50]}`, which may contain the inserted task itself")
            continue
        else:
            o.undecided(f, defs[0].stmt, defs[0].stmt, f"the list `{src(l)[:60]}` the anchor is taken from is not recognised")
            continue
        conds = facts.node_conditions(prog, f, c, ctx.typer, expand=False)
        nn = any(facts.cond_is(a, q, f"{anchor.id} is None", False) is not None for a, q in conds)
        if not nn and isinstance(e, ast.Subscript):
            nn = True        # a plain bounded lookup (path condition) always yields a task
        if nn:
            o.site(f, c, "move() only with a resolved anchor")
        else:
            o.refute(f, c, c, "move() is called although no anchor was resolved")
        neg_seen = neg_seen or _negative_index(ctx, f, i, idx_p, defs[0].node)
    if neg_seen:
        o.site(f, f.node, neg_seen)


def _negative_index(ctx, f, i, idx_p, at):
    """how a negative index is dealt with.  Whatever it is, it happens before the attach (the index expression is part of the anchor,
    which was shown to be resolved before it), so a failure there changes nothing"""
    fl = flow_of(f)
    if isinstance(i, ast.IfExp) and any(facts.cond_is(a, q, "$p < 0", q) is not None for a, q in facts.split_conj(i.test, True)):
        return "negative index normalised before the attach"
    if isinstance(i, ast.Name):
        for d in fl.reaching(i.id, at):
            if d.kind == 'assign' and d.stmt is not None:
                for a, q in facts.node_conditions(ctx.prog, f, d.stmt, ctx.typer, expand=False):
                    if facts.cond_is(a, q, f"{i.id} < 0", True) is not None or facts.cond_is(a, q, f"{idx_p} < 0", True) is not None:
                        return "negative index normalised before the attach"
    if any(isinstance(x, ast.Call) and isinstance(x.func, ast.Name) and x.func.id in ('max', 'min') for x in ast.walk(i)):
        return "index clamped before the attach"
    return "index used as given, before the attach (a failing lookup changes nothing)"


def link_facades(ctx, o, eff):
    prog = ctx.prog
    for cls in ('_ImmutableTaskList', '_TaskList', '_PredecessorsList', '_SuccessorsList'):
        c = prog.classes.get(cls)
        if c is None:
            o.undecided(None, None, cls, f"class {cls} not found")
            continue
        bad = False
        # methods defined by the class or inherited from new intermediate bases (not from the other classes of this list / _ChildrenList)
        methods = {}
        for k in prog.mro(cls):
            if k.name in ('_ChildrenList',) or (k.name != cls and k.name in ('_ImmutableTaskList', '_TaskList', '_PredecessorsList', '_SuccessorsList')):
                continue
            for n_, m in k.methods.items():
                methods.setdefault(n_, m)
        for m in methods.values():
            if m.name == '__init__':
                continue
            for w in eff.direct_writes(m):
                # taking an element out cannot be rejected by anybody (no validation is skipped); whether both sides of the link are
                # updated is C01's question.  Additions and replacements are what the setter has to validate first.
                if w.field == '_list' and w.root != 'fresh' and not any(k in w.kind for k in ('remove', 'pop', 'clear')):
                    bad = True
                    o.refute(m, w.node, w.node, f"{cls}.{unmangle(m.name)} changes the wrapped relation list in place (`{src(w.node)[:60]}`): for a "
                                                f"link facade that is the task's live predecessors/successors list, so the change is made before "
                                                f"(or without) the validating setter - a rejected `t.rel += x` / `t << x` leaves the new link behind")
        if not bad:
            o.site(c.methods.get('__init__', next(iter(c.methods.values()))) if c.methods else None, None,
                   f"{cls}: no method changes the wrapped list in place")


def sort_rule(ctx, o):
    prog = ctx.prog
    f = prog.func('task._ChildrenList.sort')
    ex = Expander(prog, f, ctx.typer, inline=True)
    cfg = cfg_of(f)
    found = False
    for n in walk_no_nested(f.node):
        if isinstance(n, ast.Call) and isinstance(n.func, ast.Attribute) and n.func.attr == 'sort':
            recv = ex.expand(n.func.value, cfg.node_containing(n))
            if match("self._list", recv) or match(f"self.{_owner_attr(prog)}._Task__children", recv):
                found = True
                o.refute(f, n, n, "sort() orders the shared child list in place with list.sort(): when a comparison fails half way (TypeError on "
                                  "values that cannot be compared, e.g. None) the children are left partially reordered")
    for st, val, inplace in T.list_replacements(f):
        found = True
        if cfg.enclosing_fors(cfg.node_of(st)):
            o.refute(f, st, st, "sort() writes the shared list back once per round of a loop (`" + src(st)[:50] + "`): when a later pass fails "
                                "(TypeError on values that cannot be compared) the passes already written leave the children reordered")
            continue
        vx = ex.expand(val, cfg.node_of(st))
        if isinstance(vx, ast.Call) and isinstance(vx.func, ast.Name) and vx.func.id == 'sorted' and vx.args:
            o.site(f, st, "the list is replaced by sorted(..) of it: a failing comparison leaves it untouched")
        else:
            o.site(f, st, "the list is replaced in one step")
    if not found:
        o.undecided(f, f.node, 'sort', "sort() neither replaces the list nor sorts it in place")


def reorder_rule(ctx, o):
    prog = ctx.prog
    f = prog.func('task._ChildrenList.reorder')
    cfg = cfg_of(f)
    eff = Effects(prog, ctx.typer, ctx.cg)
    ws = [w for w in eff.direct_writes(f) if w.field == '_list']
    repl = {id(st) for st, v, inplace in T.list_replacements(f)}
    stores = [w for w in ws if w.kind == 'store' or id(w.node) in repl]
    muts = [w for w in ws if w not in stores]
    if muts:
        o.refute(f, muts[0].node, muts[0].node, "reorder changes the live child list in place before all lookups are done: a missing or repeated "
                                                "id leaves already picked tasks dropped from the list")
        return
    if len(stores) != 1:
        o.undecided(f, f.node, 'reorder', "reorder does not replace the list exactly once")
        return
    sn = cfg.node_of(stores[0].node)
    late = []
    for n in walk_no_nested(f.node):
        risky = (isinstance(n, ast.Call) and isinstance(n.func, ast.Name) and n.func.id == 'next' and len(n.args) == 1) or \
                (isinstance(n, ast.Call) and isinstance(n.func, ast.Attribute) and n.func.attr in ('remove', 'index')) or isinstance(n, ast.Raise)
        if risky:
            cn = cfg.node_containing(n) or cfg.node_of(n)
            if cn is not None and cfg.can_reach(sn, cn):
                late.append(n)
    if late:
        o.refute(f, late[0], late[0], "a lookup that can fail runs after the live list was replaced")
    else:
        o.site(f, stores[0].node, "all failing lookups precede the single replacement of the list")
