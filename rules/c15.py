"""C15 - a rejected mutation changes nothing.   (DESIGN.md section 5, C15)

Event-order rule over every public mutator: no raise (explicit, through a callee that may raise, or an implicitly raising
list operation) is reachable after the first write of relation state, unless it is exempt:
  E1 pre-validated   the callee's guards were all established by equivalent guards of the caller before its first write;
  E2 safe lookup     list.remove(x) / list.index(y) whose membership (and distinctness from the moved tasks) was validated;
  E3 cannot reject   removal of current members / re-rooting under the own WBS root (assumption table, structurally checked).
Multi-receiver operations (list << x, bulk attribute assignment, the constructor with several relations) are sequences of
independently atomic setter calls: reported, and recorded as known findings.
"""
from __future__ import annotations

import ast

from sa import facts
from sa.cfg import cfg_of
from sa.effects import Effects
from sa.flow import Expander, flow_of
from sa.model import src, walk_no_nested, unmangle
from sa.pat import match, same
from sa.types import base
import re
from . import taskrules as T
from .taskrules import guard_facts, relation_write_nodes, Roles, SETTERS, REL_FIELDS, WBS_FIELD

MUTATORS = [
    'task.Task.parent.setter', 'task.Task.children.setter', 'task.Task.predecessors.setter', 'task.Task.successors.setter',
    'task.Task.__floordiv__', 'task.Task.__lshift__', 'task.Task.__rshift__', 'task.Task.__init__',
    'task._ChildrenList.append', 'task._ChildrenList.remove', 'task._ChildrenList.insert', 'task._ChildrenList.move',
    'task._ChildrenList.sort', 'task._ChildrenList.reorder',
    'task._PredecessorsList.append', 'task._PredecessorsList.remove', 'task._SuccessorsList.append', 'task._SuccessorsList.remove',
    'task._TaskList.remove_all', 'task._ImmutableTaskList.__setattr__', 'task._ImmutableTaskList.__lshift__',
    'task._ImmutableTaskList.__rshift__',
    'wbs.WBS.roots.setter', 'wbs.WBS.remove', 'wbs.WBS.__remove', 'wbs.WBS.remove_all', 'wbs.WBS.__floordiv__', 'wbs.WBS.__init__',
]
FIELDS = REL_FIELDS + (WBS_FIELD, '_list')
# callees that cannot reject in the contexts they are used in (E3); each entry is verified structurally in `cannot_reject`
NON_REJECTING = {'task._ChildrenList.remove', 'wbs.WBS.__remove', 'task.Task._detach', 'task.Task._attach'}


def check(ctx):
    prog = ctx.prog
    eff = Effects(prog, ctx.typer, ctx.cg)
    ctx.assume("a children assignment whose argument is a sub-list of the current children cannot be rejected (every guard quantifies "
               "over elements that are already children; no new ids enter) - used for remove / remove_all / WBS.remove")
    ctx.assume("re-rooting a member under the root task of its own WBS cannot be rejected (same owner, the root task is nobody's "
               "descendant and takes part in no dependency)")

    o = ctx.ob('rejections_are_runtime_errors', 'R6a', "every explicit raise in task.py / wbs.py raises RuntimeError", floor=25)

    def types(o):
        for f in prog.all_funcs():
            if f.module.name not in ('task', 'wbs'):
                continue
            for r, name in eff.direct_raises(f):
                if name == 'RuntimeError':
                    o.site(f, r, 'RuntimeError')
                else:
                    o.refute(f, r, r, f"rejects with {name}")
    ctx.guarded(o, types)

    o = ctx.ob('cannot_reject_table', 'R12',
               "structural side conditions of the E3 assumptions: list removal assigns a filtered sub-list of the live list to the owner; "
               "_attach/_detach raise nothing; re-rooting targets the task's own WBS root", floor=3)
    ctx.guarded(o, lambda o: cannot_reject(ctx, o, eff))

    o = ctx.ob('children_prevalidated', 'R12',
               "children assignment: every guard of the parent setter (called once per element after the old children were released) is "
               "established for every element before the first write: self, descendant, dependency-vs-ancestor, owner, ids incl. duplicates "
               "inside the argument", floor=5)
    ctx.guarded(o, lambda o: prevalidated(ctx, o, eff))

    o = ctx.ob('move_validates_first', 'R12',
               "move(): every lookup that can fail after the first list change (remove(task), index(anchor)) is validated before it: task in "
               "list, anchor in list, exactly one anchor, anchor not among the moved tasks", floor=4)
    ctx.guarded(o, lambda o: move_rule(ctx, o))

    o = ctx.ob('insert_resolves_anchor_first', 'R12',
               "insert(): the anchor is taken from the list without the task, with the index bounded, before the task is attached; the "
               "following move() is called only with that anchor", floor=3)
    ctx.guarded(o, lambda o: insert_rule(ctx, o))

    o = ctx.ob('reorder_works_on_copies', 'R12',
               "reorder(): lookups and removals that can fail operate on copies; the live list is replaced once, after them", floor=1)
    ctx.guarded(o, lambda o: reorder_rule(ctx, o))

    for q in MUTATORS:
        short = q.split('.', 1)[1]
        o = ctx.ob(f'order[{short}]', 'R12', f"{short}: no raising event is reachable after the first write of relation state (modulo E1-E3)", floor=1)
        ctx.guarded(o, lambda o, q=q: order(ctx, o, eff, q))


# ======================================================================================================================
def _events(ctx, f, eff):
    """(writes, raises): lists of (cfg_node, ast_node, text, kind, callee)"""
    prog = ctx.prog
    cfg = cfg_of(f)
    W, R = [], []
    ctor = f.name == '__init__'
    for w in eff.direct_writes(f):
        if w.field in FIELDS and w.root != 'fresh' and not (ctor and w.root == 'self'):
            cn = cfg.node_containing(w.node) or cfg.node_of(w.node)
            if cn is not None:
                W.append((cn, w.node, f"{w.kind} of {unmangle(w.field)}", 'direct', None))
    for n in walk_no_nested(f.node):
        if isinstance(n, ast.Raise):
            cn = cfg.node_of(n)
            if cn is not None and cfg.is_reachable(cn):
                R.append((cn, n, 'raise', 'raise', None))
    for ci in ctx.cg.calls_in(f):
        cn = cfg.node_containing(ci.node)
        if cn is None:
            continue
        cw = {k for k in eff.call_writes(f, ci) if k[0] in FIELDS and not (ctor and k[1] == 'self')}
        for t in ci.targets:
            if t is None:
                continue
            if cw and any(k[0] in FIELDS for k in eff.writes_star(t)):
                W.append((cn, ci.node, f"call of {t.qual}", 'call', t))
            if eff.raises_star(t):
                R.append((cn, ci.node, f"call of {t.qual} (may raise {', '.join(sorted(eff.raises_star(t)))})", 'call', t))
    # dynamic attribute assignment on tasks: may invoke any relation setter
    for n in walk_no_nested(f.node):
        if isinstance(n, ast.Call) and isinstance(n.func, ast.Attribute) and unmangle(n.func.attr) == '__setattr__' and n.args and \
                not isinstance(n.args[0], ast.Constant) and not (isinstance(n.func.value, ast.Call)):
            rt = base(ctx.typer.expr_type(n.func.value, f))
            if rt in ('Task', None):
                cn = cfg.node_containing(n)
                W.append((cn, n, "dynamic attribute assignment on a task", 'dynamic', None))
                R.append((cn, n, "dynamic attribute assignment on a task (any setter may reject)", 'dynamic', None))
    # implicitly raising list operations on builtin lists
    for n in walk_no_nested(f.node):
        if isinstance(n, ast.Call) and isinstance(n.func, ast.Attribute) and n.func.attr in ('remove', 'index') and n.args:
            rt = base(ctx.typer.expr_type(n.func.value, f))
            if rt == 'list':
                cn = cfg.node_containing(n)
                R.append((cn, n, f"list.{n.func.attr}() raises ValueError when the element is missing", 'implicit', None))
        if isinstance(n, ast.Call) and isinstance(n.func, ast.Name) and n.func.id == 'next' and len(n.args) == 1:
            cn = cfg.node_containing(n)
            R.append((cn, n, "next() without default raises StopIteration", 'implicit', None))
        if isinstance(n, ast.Subscript) and isinstance(n.ctx, ast.Load) and not isinstance(n.slice, (ast.Constant, ast.Slice)):
            rt = base(ctx.typer.expr_type(n.value, f))
            if rt in ('list',) + tuple(['_ChildrenList', '_ImmutableTaskList', '_TaskList']):
                cn = cfg.node_containing(n)
                R.append((cn, n, "subscript with a computed index raises IndexError", 'implicit', None))
    return W, R


def order(ctx, o, eff, q):
    prog = ctx.prog
    f = prog.func(q)
    cfg = cfg_of(f)
    W, R = _events(ctx, f, eff)
    if not W:
        o.site(f, f.node, "no relation write (delegates nothing / read only)")
        return
    n_ok = 0
    reported = set()
    for rn, rnode, rtext, rkind, rcallee in R:
        before = [w for w in W if (w[0] is not rn and cfg.can_reach(w[0], rn)) or (w[0] is rn and cfg.can_reach(rn, rn))]
        if not before:
            n_ok += 1
            continue
        w = before[0]
        ex = exempt(ctx, f, eff, w, (rn, rnode, rtext, rkind, rcallee))
        if ex:
            o.site(f, rnode, f"after `{src(w[1])[:40]}`: {ex}")
            continue
        key = _construct(f, w, rnode, rkind, rcallee)
        if w[0] is rn:
            fos = cfg.enclosing_fors(rn)
            key = "multi-receiver loop applying a rejecting setter" if fos else key
        elif ctor_like(f):
            key = "constructor applies several relation setters in sequence"
        if key in reported:
            continue
        reported.add(key)
        loop = ' (in a loop over several receivers/elements)' if w[0] is rn else ''
        o.refute(f, rnode, key, f"{rtext} is reachable after the write `{src(w[1])[:60]}` ({w[2]}){loop}: a rejection here leaves the "
                                f"earlier change in place")
    if not o.refuted:
        o.site(f, f.node, f"{len(W)} write event(s), {len(R)} raising event(s): all raising events precede the first write or are exempt")


def ctor_like(f):
    return f.name == '__init__'


def _construct(f, w, rnode, rkind, rcallee):
    if rkind == 'call' and rcallee is not None:
        return f"{rcallee.qual.split('.', 1)[1]} after {_wtext(w)}"
    if rkind == 'dynamic':
        return f"dynamic attribute assignment after {_wtext(w)}"
    if rkind == 'raise':
        return f"raise after {_wtext(w)}"
    return f"{src(rnode)[:50]} after {_wtext(w)}"


def _wtext(w):
    if w[3] == 'call' and w[4] is not None:
        return w[4].qual.split('.', 1)[1]
    if w[3] == 'dynamic':
        return 'dynamic attribute assignment'
    return w[2]


def exempt(ctx, f, eff, w, r):
    rn, rnode, rtext, rkind, rcallee = r
    prog = ctx.prog
    if rkind == 'call' and rcallee is not None and rcallee.qual in NON_REJECTING:
        return f"E3 {rcallee.name} cannot reject here"
    if rkind == 'call' and rcallee is not None and rcallee.name in ('__iter__', '__len__', '__getitem__', '__contains__'):
        if rcallee.name == '__getitem__' and f.qual == 'task._ChildrenList.insert':
            return None
        if not eff.direct_raises(rcallee):
            return "facade read"
    if f.qual == SETTERS['children'] and rkind == 'call' and rcallee is not None and rcallee.qual == SETTERS['parent']:
        return "E1 every guard of the parent setter is established before the first write (obligation children_prevalidated)"
    if f.qual == SETTERS['parent'] and rkind == 'call' and rcallee is not None and \
            rcallee.qual in ('task._ChildrenList.append', SETTERS['parent'], 'task._check_not_none') and _is_reroot(ctx, f, rnode):
        return "E3 re-rooting under the own WBS root cannot be rejected"
    if rkind == 'implicit' and isinstance(rnode, ast.Call) and isinstance(rnode.func, ast.Attribute) and rnode.func.attr == 'remove':
        conds = facts.node_conditions(prog, f, rnode, ctx.typer, expand=False)
        x, L = rnode.args[0], rnode.func.value
        if any(p and isinstance(t, ast.Compare) and isinstance(t.ops[0], ast.In) and same(t.left, x) and same(t.comparators[0], L)
               for t, p in conds):
            return "E2 remove(x) under `x in list`"
    if f.qual == 'task._ChildrenList.move' and rkind == 'implicit':
        return "E2 lookups validated before the first list change (obligation move_validates_first)"
    if f.qual == 'task._ChildrenList.insert' and rkind == 'call' and rcallee is not None and rcallee.qual in (
            'task._ChildrenList.move', 'task._to_list'):
        return "E1 move() is called with an anchor resolved before the attach (obligation insert_resolves_anchor_first)"
    if f.qual in ('task._TaskList.remove_all', 'wbs.WBS.remove_all', 'wbs.WBS.remove', 'wbs.WBS.__remove') and rkind == 'call' and \
            rcallee is not None and (rcallee.qual in NON_REJECTING or rcallee.name in ('remove', '__remove', '_check_not_none')):
        return "E3 removal of current members cannot be rejected"
    return None


def _is_reroot(ctx, f, node) -> bool:
    """node is (after expanding hoisted locals) `self.__wbs._root().children.append(self)`"""
    if not isinstance(node, ast.Call):
        return False
    if match("self._Task__wbs._root().children.append(self)", node):
        return True
    try:
        ex = Expander(ctx.prog, f, ctx.typer, inline=False)
        return bool(match("self._Task__wbs._root().children.append(self)", ex.expand(node)))
    except Exception:
        return False


# ======================================================================================================================
def cannot_reject(ctx, o, eff):
    prog = ctx.prog
    f = prog.func('task._ChildrenList.remove')
    ok = False
    for st, tgt, val in facts.attr_stores(f, 'children'):
        if match("self._ChildrenList__parent", tgt.value):
            parts = facts.comp_parts(val)
            if parts and isinstance(parts[0], ast.Name) and match("self._list", parts[2]) and isinstance(parts[1], ast.Name) and \
                    parts[0].id == parts[1].id and len(parts[3]) == 1:
                ok = True
                o.site(f, st, "owner.children = [t for t in self._list if t != task]: a sub-list of the current children")
            else:
                o.refute(f, st, st, f"remove() assigns `{src(val)[:60]}`, which is not a filtered sub-list of the live child list: the assumption "
                                    f"'removal cannot be rejected' does not hold")
                ok = True
    if not ok:
        o.undecided(f, f.node, 'remove', "remove() does not assign the owner's children")
    for q in ('task.Task._attach', 'task.Task._detach'):
        g = prog.funcs.get(q)
        if g is None:
            continue
        rs = eff.raises_star(g)
        if rs:
            o.refute(g, g.node, q, f"{q} may raise {sorted(rs)} although it runs after the relation writes")
        else:
            o.site(g, g.node, f"{g.name} raises nothing")
    p = prog.func(SETTERS['parent'])
    rr = [n for n in facts.calls_named(p, 'append') if _is_reroot(ctx, p, n)]
    if rr:
        conds = facts.node_conditions(prog, p, rr[0], ctx.typer, expand=True)
        if any(facts.cond_is(t, q, "self._Task__wbs is None", want=False) for t, q in conds):
            o.site(p, rr[0], "re-rooting targets self.__wbs._root()")
        else:
            o.refute(p, rr[0], rr[0], "re-rooting is attempted without a WBS")
    w = prog.func('wbs.WBS.__remove')
    exw = Expander(prog, w, ctx.typer, inline=False)
    if any(match("$c.children.remove($t)", exw.expand(n)) for n in facts.calls_named(w, 'remove')):
        o.site(w, w.node, "WBS.__remove removes through the child list facade")
    else:
        o.undecided(w, w.node, '__remove', "WBS.__remove in an unrecognised form")


def _swap_roles(atom: str) -> str:
    """atom of the parent setter (self = the element, arg = the receiver of the children assignment) in the caller's roles"""
    t = re.sub(r"\bself\b", "\0ELEM", atom)
    t = re.sub(r"\barg\b", "self", t)
    t = t.replace("\0ELEM", "elem")
    m = re.match(r"^(same|wbsneq)\((.*),(.*)\)$", t)
    if m and ',' not in m.group(2) and ',' not in m.group(3):
        a, b = sorted([m.group(2), m.group(3)])
        t = f"{m.group(1)}({a},{b})"
    # the per-element id check is implied by the group check (monotone in its second argument; duplicates inside the argument
    # are part of the group check - verified below)
    if t == 'call:_has_id_intersection(self,[elem])':
        t = 'call:_has_id_intersection(self,arg)'
    return t


def _translate_formula(f):
    k = f[0]
    if k == 'atom':
        return ('atom', _swap_roles(f[1]))
    if k == 'not':
        return ('not', _translate_formula(f[1]))
    if k in ('and', 'or'):
        return (k, [_translate_formula(x) for x in f[1]])
    return f


def prevalidated(ctx, o, eff):
    prog = ctx.prog
    callee = prog.func(SETTERS['parent'])
    caller = prog.func(SETTERS['children'])
    from .c05 import _reaches_under
    writes = relation_write_nodes(ctx, caller, eff)
    for g in T.guard_formulas(ctx, callee):
        if g.exc != 'RuntimeError':
            o.refute(callee, g.node, g.node, f"the parent setter rejects with {g.exc}")
            continue
        R = _translate_formula(g.formula)
        # the argument of the parent setter is the receiver of the children assignment: never None
        R = T.F_and(R, T.F_not(T.F_atom('none(self)')))
        label = "parent-setter guard `" + T.fmt(g.formula)[:70] + "` established for every element before the old children are released"
        T.require(ctx, o, caller, label, R, writes, eff, needs_elem=False, mode_filter=_reaches_under)
    # ids: duplicates inside the argument are part of _has_id_intersection
    h = prog.func('task._has_id_intersection')
    dup = False
    for r in [n for n in walk_no_nested(h.node) if isinstance(n, ast.Return) and isinstance(n.value, ast.Constant) and n.value.value is True]:
        for t, p in facts.node_conditions(prog, h, r, ctx.typer):
            if isinstance(t, ast.Compare) and 'len(' in src(t) and p:
                dup = True
    if dup:
        o.site(h, h.node, "the group id check also rejects equal ids inside the argument (element k+1 is then compatible with the tree that "
                          "already holds elements 1..k)")
    else:
        o.refute(h, h.node, 'duplicates inside the argument', "the group id check compares every element with the receiving tree only: two new "
                                                              "tasks with equal ids pass it and the second is rejected after the first was attached")


def move_rule(ctx, o):
    prog = ctx.prog
    f = prog.func('task._ChildrenList.move')
    cfg = cfg_of(f)
    gs = facts.guards_of(prog, f, ctx.typer, inline=False)
    W = [c for c in facts.calls_named(f, 'remove') + facts.calls_named(f, 'insert') if match("self._list.$m($*a)", c)]
    if not W:
        o.undecided(f, f.node, 'move', "no list change found")
        return
    first_w = [cfg.node_containing(c) for c in W]

    def precedes(g):
        dn = cfg.node_of(cfg.enclosing_fors(g.cfg_node)[0]) if cfg.enclosing_fors(g.cfg_node) else cfg.node_containing(cfg.conditions(g.cfg_node)[-1][0])
        return all(cfg.dominates(dn, w) and not (cfg.enclosing_fors(g.cfg_node) and cfg.can_reach(w, dn)) for w in first_w)

    def has(pred):
        for g in gs:
            if g.exc != 'RuntimeError':
                continue
            atoms = []
            for t, p in g.conds:
                atoms += facts.split_conj(t, p)
            if pred(g, atoms):
                return g if precedes(g) else ('late', g)
        return None
    tasks_p, before_p, after_p = f.params[1], f.params[2], f.params[3]
    checks = [
        ("every moved task is in the list", lambda g, a: any((match("$t not in self._list", t) and p) or (match("$t in self._list", t) and not p) for t, p in a)
         and any(isinstance(tg, ast.Name) for tg, it in g.binders)),
        ("`before` is in the list", lambda g, a: any(match(f"{before_p} not in self._list", t) and p for t, p in a)),
        ("`after` is in the list", lambda g, a: any(match(f"{after_p} not in self._list", t) and p for t, p in a)),
        ("an anchor is given", lambda g, a: {src(t) for t, p in a if p} >= {f"{before_p} is None", f"{after_p} is None"}),
        ("the anchor is not one of the moved tasks",
         lambda g, a: any(p and (f"{before_p} in " in src(t)) for t, p in a) and any(p and (f"{after_p} in " in src(t)) for t, p in a)
         or any(p and f"{before_p} in " in src(t) and f"{after_p} in " in src(t) for t, p in a)),
    ]
    for label, pred in checks:
        r = has(pred)
        if r is None:
            o.refute(f, f.node, label, f"move() does not validate that {label} before it changes the list: the failure happens after a task was "
                                       f"already removed")
        elif isinstance(r, tuple):
            o.refute(f, r[1].node, label, f"move() validates that {label} only after the list was changed")
        else:
            o.site(f, r.node, label)


def insert_rule(ctx, o):
    prog = ctx.prog
    f = prog.func('task._ChildrenList.insert')
    cfg = cfg_of(f)
    fl = flow_of(f)
    ex = Expander(prog, f, ctx.typer, inline=False)
    idx_p, task_p = f.params[1], f.params[2]
    att = [st for st, tgt, val in facts.attr_stores(f, 'parent') if isinstance(tgt.value, ast.Name) and tgt.value.id == task_p]
    if len(att) != 1:
        o.undecided(f, f.node, 'insert', "insert does not attach the task exactly once")
        return
    an = cfg.node_of(att[0])
    mv = [c for c in facts.calls_named(f, 'move')]
    if not mv:
        o.site(f, att[0], "insert only appends")
        return
    for c in mv:
        ba = facts.bound_args(c, prog.func('task._ChildrenList.move'))
        anchor = ba[1] if len(ba) > 1 else None
        after_arg = ba[2] if len(ba) > 2 else None
        if anchor is None or (after_arg is not None and not (isinstance(after_arg, ast.Constant) and after_arg.value is None)):
            o.undecided(f, c, c, "move() call without a `before` anchor")
            continue
        if not isinstance(anchor, ast.Name):
            if any(isinstance(x, ast.Subscript) for x in ast.walk(anchor)) and cfg.can_reach(an, cfg.node_containing(c)):
                o.refute(f, c, anchor, f"the anchor `{src(anchor)}` is looked up after the task was attached: a bad index raises after the "
                                       f"attach, and index == len(list) refers to the task itself")
            else:
                o.undecided(f, c, anchor, "anchor expression not recognised")
            continue
        d = fl.unique_def(anchor.id, cfg.node_containing(c))
        if d is None or d.kind != 'assign':
            o.undecided(f, c, anchor, "anchor has several definitions")
            continue
        if not (cfg.dominates(d.node, an) and not cfg.can_reach(an, d.node)):
            o.refute(f, d.stmt, d.stmt, "the anchor is resolved after the task was attached")
            continue
        v = d.value
        m = match("$l[$i] if $i < len($l) else None", v) or match("None if $i >= len($l) else $l[$i]", v) or \
            match("$l[$i] if len($l) > $i else None", v)
        if not m:
            o.refute(f, d.stmt, d.stmt, f"the anchor `{src(v)[:60]}` is not bounded by the list length: a bad index raises IndexError")
            continue
        lx = ex.expand(m['l'], d.node)
        parts = facts.comp_parts(lx)
        if parts and match("self._list", parts[2]) and len(parts[3]) == 1 and \
                (match(f"{parts[1].id} != {task_p}", parts[3][0]) or match(f"{parts[1].id} is not {task_p}", parts[3][0])):
            o.site(f, d.stmt, "anchor = (list without the task)[index] or None, resolved before the attach")
        else:
            o.refute(f, d.stmt, d.stmt, f"the anchor is taken from `{src(lx)[:50]}`, which may contain the inserted task itself")
            continue
        conds = facts.node_conditions(prog, f, c, ctx.typer, expand=False)
        if any(match(f"{anchor.id} is not None", t) and p for t, p in conds):
            o.site(f, c, "move() only with a resolved anchor")
        else:
            o.refute(f, c, c, "move() is called although no anchor was resolved")
    # a negative index must be normalised (or rejected) before use
    neg = [n for n in walk_no_nested(f.node) if isinstance(n, ast.If) and match(f"{idx_p} < 0", n.test)]
    if neg and cfg.dominates(cfg.node_of(neg[0]), an):
        o.site(f, neg[0], "negative index handled before the attach")
    else:
        o.refute(f, f.node, 'negative index', "a negative index is not handled before the attach")


def reorder_rule(ctx, o):
    prog = ctx.prog
    f = prog.func('task._ChildrenList.reorder')
    cfg = cfg_of(f)
    eff = Effects(prog, ctx.typer, ctx.cg)
    ws = [w for w in eff.direct_writes(f) if w.field == '_list']
    repl = {id(st) for st, v, inplace in T.list_replacements(f)}
    stores = [w for w in ws if w.kind == 'store' or id(w.node) in repl]
    muts = [w for w in ws if w not in stores]
    if muts:
        o.refute(f, muts[0].node, muts[0].node, "reorder changes the live child list in place before all lookups are done: a missing or repeated "
                                                "id leaves already picked tasks dropped from the list")
        return
    if len(stores) != 1:
        o.undecided(f, f.node, 'reorder', "reorder does not replace the list exactly once")
        return
    sn = cfg.node_of(stores[0].node)
    late = []
    for n in walk_no_nested(f.node):
        risky = (isinstance(n, ast.Call) and isinstance(n.func, ast.Name) and n.func.id == 'next' and len(n.args) == 1) or \
                (isinstance(n, ast.Call) and isinstance(n.func, ast.Attribute) and n.func.attr in ('remove', 'index')) or isinstance(n, ast.Raise)
        if risky:
            cn = cfg.node_containing(n) or cfg.node_of(n)
            if cn is not None and cfg.can_reach(sn, cn):
                late.append(n)
    if late:
        o.refute(f, late[0], late[0], "a lookup that can fail runs after the live list was replaced")
    else:
        o.site(f, stores[0].node, "all failing lookups precede the single replacement of the list")
