"""Shared machinery for the mutator properties (C01, C05, C11, C15): guard facts in canonical form, relation write sites,
owner tables.

Canonical atoms (strings over roles):
    same(A,B)            A is B | A == B | id(A) == id(B)                      (unordered)
    desc(A,B)            A is a descendant of B:  A in B.all_children | B in A.all_parents
    tpred(A,B)           A transitively precedes B:  A in B.all_predecessors | B in A.all_successors
    call:f(A,B..)        f(A, B, ..) for the helper predicates (_has_id_intersection, _has_dependency_with_parents)
    wbsneq(A,B)          A.__wbs != B.__wbs            wbsnone(A)   A.__wbs is None          none(A)   A is None
Roles: self | arg (the parameter of the setter, also after `_to_list`) | elem (loop variable over arg) | other text.
"""
from __future__ import annotations

import ast
import copy
import re
from typing import Dict, List, Optional, Tuple

from sa import facts
from sa.cfg import cfg_of
from sa.effects import Effects
from sa.flow import Expander, flow_of
from sa.model import Func, unmangle, walk_no_nested, src
from sa.pat import match, same

REL_FIELDS = ('_Task__parent', '_Task__children', '_Task__predecessors', '_Task__successors')
WBS_FIELD = '_Task__wbs'

SETTERS = {
    'parent': 'task.Task.parent.setter',
    'children': 'task.Task.children.setter',
    'predecessors': 'task.Task.predecessors.setter',
    'successors': 'task.Task.successors.setter',
}

# who may write which relation field (R1); `_list` is the list object shared between Task and its _ChildrenList facade
OWNERS = {
    '_Task__parent': {'task.Task.__init__', 'task.Task.parent.setter', 'task.Task.children.setter'},
    '_Task__children': {'task.Task.__init__', 'task.Task.parent.setter', 'task.Task.children.setter', 'task.Task.__set_children'},
    '_Task__predecessors': {'task.Task.__init__', 'task.Task.predecessors.setter', 'task.Task.successors.setter'},
    '_Task__successors': {'task.Task.__init__', 'task.Task.predecessors.setter', 'task.Task.successors.setter'},
    '_Task__wbs': {'task.Task.__init__', 'task.Task._attach', 'task.Task._detach'},
    '_Task__id': {'task.Task.__init__'},
    '_list': {'task._ImmutableTaskList.__init__', 'task._ChildrenList.move', 'task._ChildrenList.sort', 'task._ChildrenList.reorder'},
}


# function node id -> name of the parameter that plays the `arg` role when it is not the first one (a setter body spliced into
# the constructor: arg = the constructor's `predecessors` parameter).  Set through `arg_role(f, name)`.
_ARG_OVERRIDE: Dict[int, str] = {}


class arg_role:
    """with arg_role(f, 'predecessors'): ...   - inside the block every Roles(f) uses that parameter as `arg`"""

    def __init__(self, f: Func, name: Optional[str]):
        self.key, self.name = id(f.node), name

    def __enter__(self):
        self.prev = _ARG_OVERRIDE.get(self.key)
        if self.name is not None:
            _ARG_OVERRIDE[self.key] = self.name
        return self

    def __exit__(self, *a):
        if self.prev is None:
            _ARG_OVERRIDE.pop(self.key, None)
        else:
            _ARG_OVERRIDE[self.key] = self.prev
        return False


class Roles:
    def __init__(self, prog, f: Func, typer):
        self.f = f
        self.self_name = f.self_name
        self.arg = None
        ps = [p for p in f.params if p != f.self_name]
        if ps:
            self.arg = ps[0]
        if id(f.node) in _ARG_OVERRIDE:
            self.arg = _ARG_OVERRIDE[id(f.node)]
        self.names: Dict[str, str] = {}
        if self.self_name:
            self.names[self.self_name] = 'self'
        if self.arg:
            self.names[self.arg] = 'arg'

    def is_arg_list(self, e: ast.AST) -> bool:
        """expression denotes the (list form of the) argument"""
        if isinstance(e, ast.Name) and e.id == self.arg:
            return True
        m = match("_to_list($x)", e)
        if m and isinstance(m['x'], ast.Name) and m['x'].id == self.arg:
            return True
        m = match("list($x)", e) or match("[$y for $y in $x]", e)
        if m and self.is_arg_list(m['x']):
            return True
        # the given tasks, each once, in their order (de-duplication by object identity: checked by C01.closure on _unique_tasks)
        m = match("_unique_tasks($x)", e) or match("list(dict.fromkeys($x))", e) or match("list({id($t): $t for $t in $x}.values())", e)
        if m and self.is_arg_list(m['x']):
            return True
        return False

    def render(self, e: ast.AST, extra: Optional[Dict[str, str]] = None) -> str:
        names = dict(self.names)
        if extra:
            names.update(extra)
        e2 = copy.deepcopy(e)
        roles = self

        class T(ast.NodeTransformer):
            def visit_Call(self, n):
                # _to_list(arg) is still `arg`
                if roles.is_arg_list(n):
                    return ast.Name(id='arg', ctx=ast.Load())
                self.generic_visit(n)
                return n

            def visit_Name(self, n):
                if n.id in names:
                    return ast.Name(id=names[n.id], ctx=ast.Load())
                return n
        return src(T().visit(e2))


class _FoldNames(ast.NodeTransformer):
    """`'all_' + 'predecessors'` -> `'all_predecessors'`;  `getattr(x, 'name')` -> `x.name` (attribute chosen by a constant string,
    e.g. after a helper with a direction parameter was inlined)"""

    def visit_BinOp(self, n):
        self.generic_visit(n)
        if isinstance(n.op, ast.Add) and isinstance(n.left, ast.Constant) and isinstance(n.right, ast.Constant) and \
                isinstance(n.left.value, str) and isinstance(n.right.value, str):
            return ast.copy_location(ast.Constant(value=n.left.value + n.right.value), n)
        return n

    def visit_JoinedStr(self, n):
        self.generic_visit(n)
        if all(isinstance(v, ast.Constant) and isinstance(v.value, str) or
               (isinstance(v, ast.FormattedValue) and isinstance(v.value, ast.Constant) and isinstance(v.value.value, str)
                and v.conversion == -1 and v.format_spec is None) for v in n.values):
            return ast.copy_location(ast.Constant(value=''.join(v.value if isinstance(v, ast.Constant) else v.value.value for v in n.values)), n)
        return n

    def visit_Call(self, n):
        self.generic_visit(n)
        if isinstance(n.func, ast.Name) and n.func.id == 'getattr' and len(n.args) == 2 and not n.keywords and \
                isinstance(n.args[1], ast.Constant) and isinstance(n.args[1].value, str) and n.args[1].value.isidentifier():
            return ast.copy_location(ast.Attribute(value=n.args[0], attr=n.args[1].value, ctx=ast.Load()), n)
        return n


class _FoldConst(ast.NodeTransformer):
    """`A if True else B` -> A, `A if False else B` -> B, `not <const>`: residues of a merged helper spliced with a constant switch"""

    def visit_IfExp(self, n):
        self.generic_visit(n)
        if isinstance(n.test, ast.Constant) and isinstance(n.test.value, (bool, type(None), int)):
            return n.body if n.test.value else n.orelse
        return n

    def visit_UnaryOp(self, n):
        self.generic_visit(n)
        if isinstance(n.op, ast.Not) and isinstance(n.operand, ast.Constant) and isinstance(n.operand.value, (bool, type(None))):
            return ast.copy_location(ast.Constant(value=not n.operand.value), n)
        return n


def fold_const(e: ast.AST) -> ast.AST:
    if e is None or not any(isinstance(n, ast.IfExp) and isinstance(n.test, (ast.Constant, ast.UnaryOp)) for n in ast.walk(e)):
        return e
    return ast.fix_missing_locations(_FoldConst().visit(copy.deepcopy(e)))


def fold_names(e: ast.AST) -> ast.AST:
    e = fold_const(e)
    if not any(isinstance(n, ast.Call) and isinstance(n.func, ast.Name) and n.func.id == 'getattr' for n in ast.walk(e)):
        return e
    return ast.fix_missing_locations(_FoldNames().visit(copy.deepcopy(e)))


def publish_attr(prog) -> str:
    """the (mangled) attribute in which a _ChildrenList keeps the owner's publish callback: what __init__ stores its third parameter in"""
    init = prog.funcs.get('task._ChildrenList.__init__')
    if init is not None and len(init.params) > 3:
        for st, tgt, val in facts.attr_stores(init, None):
            if isinstance(val, ast.Name) and val.id == init.params[3] and isinstance(tgt.value, ast.Name) and tgt.value.id == init.self_name:
                return tgt.attr
    return '_ChildrenList__setter'


def canon_atom(e: ast.AST, render) -> Optional[Tuple[str, bool]]:
    """(atom text, polarity flip) for a single comparison / call; None when the shape is not recognised"""
    flip = False
    e = fold_names(e)
    while isinstance(e, ast.UnaryOp) and isinstance(e.op, ast.Not):
        e, flip = e.operand, not flip
    if isinstance(e, ast.Compare) and len(e.ops) == 1:
        l, op, r = e.left, e.ops[0], e.comparators[0]
        if isinstance(op, (ast.Is, ast.Eq, ast.IsNot, ast.NotEq)):
            neg = isinstance(op, (ast.IsNot, ast.NotEq))
            if isinstance(r, ast.Constant) and r.value is None:
                m = match("$a._Task__wbs", l) or match("$a.wbs", l)
                if m:
                    return f"wbsnone({render(m['a'])})", flip != neg
                return f"none({render(l)})", flip != neg
            ml, mr = match("id($a)", l), match("id($b)", r)
            if ml and mr:
                l, r = ml['a'], mr['b']
            wl, wr = match("$a._Task__wbs", l) or match("$a.wbs", l), match("$b._Task__wbs", r) or match("$b.wbs", r)
            if wl and wr:
                a, b = sorted([render(wl['a']), render(wr['b'])])
                return f"wbsneq({a},{b})", flip != (not neg)
            a, b = sorted([render(l), render(r)])
            return f"same({a},{b})", flip != neg
        if isinstance(op, (ast.In, ast.NotIn)):
            neg = isinstance(op, ast.NotIn)
            m = match("$y.all_children", r) or match("$y._Task__get_all_children()", r)
            if m:
                return f"desc({render(l)},{render(m['y'])})", flip != neg
            m = match("$y.all_parents", r) or match("$y._Task__get_all_parents()", r)
            if m:
                return f"desc({render(m['y'])},{render(l)})", flip != neg
            m = match("$y.all_predecessors", r) or match("$y._Task__get_all_predecessors()", r)
            if m:
                return f"tpred({render(l)},{render(m['y'])})", flip != neg
            m = match("$y.all_successors", r) or match("$y._Task__get_all_successors()", r)
            if m:
                return f"tpred({render(m['y'])},{render(l)})", flip != neg
            return f"in({render(l)},{render(r)})", flip != neg
    if isinstance(e, ast.Call) and isinstance(e.func, ast.Name) and not e.keywords:
        return f"call:{e.func.id}({','.join(render(a) for a in e.args)})", flip
    if isinstance(e, ast.Call) and isinstance(e.func, ast.Attribute) and isinstance(e.func.value, ast.Name) and e.func.value.id == 'Task' and \
            e.func.attr.startswith('_Task__') and not e.keywords:
        # a helper predicate of the module moved into the class as a private static method and called through the class
        # (`Task.__has_id_intersection(parent, [self])`): the same question under the module helper's name
        return f"call:_{e.func.attr[len('_Task__'):]}({','.join(render(a) for a in e.args)})", flip
    return None


class GuardFact:
    def __init__(self, g: facts.Guard, roles: Roles):
        self.g = g
        self.node = g.node
        self.exc = g.exc
        self.binder = None          # 'elem' if the raise is inside `for x in arg` (possibly several)
        extra = {}
        self.binders_ok = True
        for tgt, it in g.binders:
            if isinstance(tgt, ast.Name) and roles.is_arg_list(it):
                extra[tgt.id] = 'elem'
                self.binder = 'elem'
            else:
                # a loop over something else: keep the variable name, mark as foreign binder
                self.binders_ok = self.binders_ok and False
        self.extra = extra
        render = lambda x: roles.render(x, extra)
        self.atoms: List[Tuple[str, bool]] = []      # (atom, polarity)
        self.unknown: List[ast.AST] = []
        for t, pol in g.conds:
            for a, p in facts.split_conj(t, pol):
                nx = _next_exists(a)
                if nx is not None:
                    a, p = nx[0], (p if nx[1] else not p)
                ex = facts.exists_form(a)
                if ex is not None:
                    tgt, it, cs = ex
                    if isinstance(tgt, ast.Name) and roles.is_arg_list(it):
                        r2 = lambda x, _t=tgt: roles.render(x, dict(extra, **{_t.id: 'elem'}))
                        self.binder = 'elem'
                        okp = p
                        for c in cs:
                            for a2, p2 in facts.split_conj(c, True):
                                ca = canon_atom(a2, r2)
                                if ca is None:
                                    self.unknown.append(a2)
                                else:
                                    self.atoms.append((ca[0], (p2 != ca[1]) if okp else None))
                        continue
                ca = canon_atom(a, render)
                if ca is None:
                    self.unknown.append(a)
                else:
                    self.atoms.append((ca[0], p != ca[1]))

    def __repr__(self):
        return f"<GuardFact {self.exc} binder={self.binder} {self.atoms} unknown={[src(u) for u in self.unknown]} @{self.node.lineno}>"


def guard_facts(ctx, f: Func) -> List[GuardFact]:
    roles = Roles(ctx.prog, f, ctx.typer)
    return [GuardFact(g, roles) for g in facts.guards_of(ctx.prog, f, ctx.typer, inline=False)]


# ----------------------------------------------------------------------------------------------------------------------
def relation_write_nodes(ctx, f: Func, eff: Effects, fields=REL_FIELDS + (WBS_FIELD,), interprocedural=True):
    """cfg nodes of f at which relation state may be written: direct stores / in-place mutations of the fields, and calls
    whose callee (transitively) writes them.  Returns [(cfg_node, ast_node, description)]"""
    cfg = cfg_of(f)
    out = []
    for w in eff.direct_writes(f):
        if w.field in fields or (w.field == '_list' and f.cls in ('_ChildrenList',)):
            cn = cfg.node_containing(w.node) or cfg.node_of(w.node)
            if cn is not None:
                out.append((cn, w.node, f"{w.kind} of {unmangle(w.field)}"))
    if interprocedural:
        for ci in ctx.cg.calls_in(f):
            for t in ci.targets:
                if t is None or t is f and False:
                    continue
                ws = {k for k in eff.writes_star(t) if k[0] in fields}
                if ws:
                    cn = cfg.node_containing(ci.node)
                    if cn is not None:
                        out.append((cn, ci.node, f"call of {t.qual} (writes {', '.join(sorted(unmangle(k[0]) for k in ws))})"))
                    break
    return out


def first_write_dominated_by(cfg, write_nodes, guard_node) -> List:
    """write nodes NOT dominated by guard_node"""
    return [w for w in write_nodes if not cfg.dominates(guard_node, w[0])]


def decision_node(cfg, f, g):
    """the node at which a guard is decided for the purpose of ordering: the header of its outermost enclosing for-loop
    (a guard evaluated for every element is complete when that loop is left) or else the test of its innermost `if`"""
    gn = g.g.cfg_node if hasattr(g, 'g') else g.cfg_node
    fors = cfg.enclosing_fors(gn)
    if fors:
        return cfg.node_of(fors[0]), fors[0]
    conds = cfg.conditions(gn)
    if conds:
        return cfg.node_containing(conds[-1][0]), None
    return gn, None


def vacuous_branches(cfg, f):
    """branch nodes on which the argument is None: every guard about the argument is vacuously satisfied there"""
    roles = Roles(None, f, None)
    out = set()
    for n in cfg.nodes:
        if n.kind == 'branch' and isinstance(n.test, ast.AST) and not isinstance(n.test, (ast.For, ast.AsyncFor)):
            for a, p in facts.split_conj(n.test, n.polarity):
                ca = canon_atom(a, roles.render)
                if ca and ca[0] == 'none(arg)' and (p != ca[1]) is True:
                    out.add(n.id)
    return out


def reaches_avoiding(cfg, target, avoid) -> bool:
    seen, todo = set(), [cfg.entry]
    while todo:
        n = todo.pop()
        if n.id in seen or n.id in avoid:
            continue
        seen.add(n.id)
        if n is target:
            return True
        todo.extend(n.succ)
    return False


def writes_not_preceded(cfg, f, g, writes):
    """write nodes that can be reached without the guard g having been decided.

    g is decided on a path when the path takes the non-raising branch of one of the tests in g's condition chain (the
    conjunction is then false) or leaves g's per-element loop through its "exhausted" branch (every element was tested);
    paths on which the argument is None do not count (the guard is vacuous there).  A write inside g's own loop interleaves
    with the validation and counts as not preceded."""
    gn = g.g.cfg_node if hasattr(g, 'g') else g.cfg_node
    avoid = set(vacuous_branches(cfg, f))
    chain = cfg.conditions(gn)
    for test, pol in chain:
        tn = cfg.node_containing(test)
        if tn is None:
            continue
        for s_ in tn.succ:
            if s_.kind == 'branch' and s_.test is test and s_.polarity != pol:
                avoid.add(s_.id)
    loops = cfg.enclosing_fors(gn)
    loop_hdrs = []
    for fo in loops:
        hdr = cfg.node_of(fo)
        if hdr is None:
            continue
        loop_hdrs.append(hdr)
        for s_ in hdr.succ:
            if s_.kind == 'branch' and s_.polarity is False:
                avoid.add(s_.id)
    avoid.add(gn.id)
    late = []
    for w in writes:
        wn = w[0]
        if reaches_avoiding(cfg, wn, avoid):
            late.append(w)
        elif any(cfg.can_reach(wn, h) for h in loop_hdrs):
            late.append(w)        # the write is inside the validation loop: element k is written before element k+1 is checked
    return late


def list_replacements(f: Func):
    """[(stmt, value, in_place)] for `self._list = v` (rebinding) and `self._list[:] = v` (in place, keeps the shared object)"""
    out = []
    for n in walk_no_nested(f.node):
        if isinstance(n, ast.Assign) and len(n.targets) == 1:
            t = n.targets[0]
            if match("self._list", t):
                out.append((n, n.value, False))
            elif isinstance(t, ast.Subscript) and match("self._list", t.value) and isinstance(t.slice, ast.Slice) and \
                    t.slice.lower is None and t.slice.upper is None and t.slice.step is None:
                out.append((n, n.value, True))
    return out


def shared_list(ctx, o):
    """the child list object of a task is ONE list shared by the task and every children facade ever handed out: facades change
    it in place (never rebind their `_list`), publish exactly that object, and the task never rebinds `__children`"""
    prog = ctx.prog
    g = prog.func('task.Task.children')
    ok = any(match("_ChildrenList(self, self._Task__children, self._Task__set_children)", n) for n in ast.walk(g.node))
    if ok:
        o.site(g, g.node, "children getter hands out the raw list object and the publish callback")
    else:
        o.refute(g, g.node, 'children getter', "the children facade is not built on the task's own list object (a copy would never reach the task)")
    cl = prog.cls('_ChildrenList')
    for m in cl.methods.values():
        if m.name == '__init__':
            continue
        for st, tgt, val in facts.attr_stores(m, '_list'):
            if match("self._list", tgt):
                o.refute(m, st, st, f"{m.name} rebinds the facade's list (`{src(st)[:50]}`): the task and every children list handed out earlier keep "
                                    f"the old object and go stale; the shared list must be changed in place")
        pa = publish_attr(prog)
        for c in facts.calls_named(m, unmangle(pa)):
            if match(f"self.{pa}(self._list)", c) or \
                    match(f"self.{pa}(self._list)", expand_call(prog, m, ctx.typer, c)):
                o.site(m, c, f"{m.name} publishes the shared list itself")
            else:
                o.refute(m, c, c, f"{m.name} hands `{src(c.args[0]) if c.args else '?'}` to the task instead of the shared list object: lists handed "
                                  f"out earlier go stale")
    t = prog.cls('Task')
    for name in ('children',):
        sf = t.setters.get(name)
        if sf is not None:
            for st, tgt, val in facts.attr_stores(sf, '_Task__children'):
                if match("self._Task__children", tgt):
                    o.refute(sf, st, st, "the children setter rebinds the task's child list: facades handed out earlier go stale")
    sc = prog.funcs.get('task.Task.__set_children')
    if sc is not None:
        sts = [x for x in facts.attr_stores(sc, '_Task__children')]
        p = [x for x in sc.params if x != sc.self_name]
        if all(isinstance(v, ast.Name) and p and v.id == p[0] for _, _, v in sts) or not sts:
            o.site(sc, sc.node, "publish callback stores the object it is given")
        else:
            o.refute(sc, sc.node, '__set_children', "the publish callback stores a different list than the one it is given")


# ======================================================================================================================
# guard requirements as propositional implications over canonical atoms
#
#   requirement R (a formula over atoms, from the property text)  ==>  OR of the conditions of all RuntimeError guards that
#   are decided before the first write.  Decided by truth table over the atoms that occur (opaque sub-conditions are free
#   variables: the implication must hold whatever their value).  Path-condition residues ("an earlier guard did not fire")
#   need no special treatment: (c1) or (not c1 and c2) == c1 or c2.

def F_atom(name):
    return ('atom', name)


def F_not(f):
    return ('not', f)


def F_and(*fs):
    return ('and', list(fs))


def F_or(*fs):
    return ('or', list(fs))


def evalf(f, env) -> bool:
    k = f[0]
    if k == 'atom':
        return env[f[1]]
    if k == 'not':
        return not evalf(f[1], env)
    if k == 'and':
        return all(evalf(x, env) for x in f[1])
    if k == 'or':
        return any(evalf(x, env) for x in f[1])
    if k == 'const':
        return f[1]
    raise ValueError(k)


def atoms_of(f, acc=None):
    acc = acc if acc is not None else set()
    if f[0] == 'atom':
        acc.add(f[1])
    elif f[0] == 'not':
        atoms_of(f[1], acc)
    elif f[0] in ('and', 'or'):
        for x in f[1]:
            atoms_of(x, acc)
    return acc


def fmt(f) -> str:
    k = f[0]
    if k == 'atom':
        return f[1]
    if k == 'not':
        return 'not ' + fmt(f[1])
    if k == 'const':
        return str(f[1])
    return '(' + (' and ' if k == 'and' else ' or ').join(fmt(x) for x in f[1]) + ')'


def cond_formula(e: ast.AST, roles: Roles, extra: Dict[str, str], binder_seen: list):
    """boolean formula of a condition expression over canonical atoms; unknown parts become opaque atoms"""
    e = fold_const(e)
    if isinstance(e, ast.UnaryOp) and isinstance(e.op, ast.Not):
        return F_not(cond_formula(e.operand, roles, extra, binder_seen))
    if isinstance(e, ast.BoolOp):
        parts = [cond_formula(v, roles, extra, binder_seen) for v in e.values]
        return ('and', parts) if isinstance(e.op, ast.And) else ('or', parts)
    if isinstance(e, ast.Constant) and isinstance(e.value, bool):
        return ('const', e.value)
    if isinstance(e, ast.Compare) and len(e.ops) == 1 and isinstance(e.left, ast.Constant) and isinstance(e.comparators[0], ast.Constant) and \
            isinstance(e.ops[0], (ast.Is, ast.IsNot, ast.Eq, ast.NotEq)) and \
            all(x.value is None or isinstance(x.value, (str, int, bool)) for x in (e.left, e.comparators[0])):
        # a leaf of a selector chain (`'parent as' is not None`): two literals
        a_, b_ = e.left.value, e.comparators[0].value
        eq = (a_ is b_) if (a_ is None or b_ is None) else (type(a_) is type(b_) and a_ == b_)
        return ('const', eq if isinstance(e.ops[0], (ast.Is, ast.Eq)) else not eq)
    if isinstance(e, ast.IfExp):
        c = cond_formula(e.test, roles, extra, binder_seen)
        return ('or', [('and', [c, cond_formula(e.body, roles, extra, binder_seen)]),
                       ('and', [F_not(c), cond_formula(e.orelse, roles, extra, binder_seen)])])
    nx = _next_exists(e)
    if nx is not None:
        f_ = cond_formula(nx[0], roles, extra, binder_seen)
        return f_ if nx[1] else F_not(f_)
    ex = facts.exists_form(e)
    if ex is None and isinstance(e, ast.Call) and isinstance(e.func, ast.Name) and e.func.id == 'bool' and e.args:
        ex = facts.exists_form(e.args[0])
    if ex is not None:
        tgt, it, cs = ex
        if isinstance(tgt, ast.Name) and roles.is_arg_list(it):
            binder_seen.append('elem')
            ex2 = dict(extra, **{tgt.id: 'elem'})
            return ('and', [cond_formula(c, roles, ex2, binder_seen) for c in cs]) if cs else ('const', True)
    lifted = _lift_ifexp(e)
    if lifted is not None:
        return cond_formula(lifted, roles, extra, binder_seen)
    im = _id_membership(e)
    if im is not None:
        # `A.id in {t.id for t in S}` holds whenever `A in S` holds (and also for a stranger with the same id): as a REJECTING test it
        # is the object test or more; the extra part stays an uninterpreted id comparison
        obj = ast.Compare(left=im[0], ops=[ast.In()], comparators=[im[1]])
        f_ = ('or', [cond_formula(obj, roles, extra, binder_seen), F_atom('opaque:' + (canon_atom(im[2], lambda x: roles.render(x, extra)) or ('in(?)', 0))[0])])
        return F_not(f_) if im[3] else f_
    hl = _has_links(e)
    if hl is not None:
        return F_atom(f"haslinks:{hl[0]}({roles.render(hl[1], extra)})")
    ca = canon_atom(e, lambda x: roles.render(x, extra))
    if ca is not None:
        a = F_atom(ca[0])
        return F_not(a) if ca[1] else a
    return F_atom('opaque:' + roles.render(e, extra))


def _id_membership(e: ast.AST):
    """`A.id in {t.id for t in S}` (set / list / generator of ids of S, also through set(..)) -> (A, S, positive compare, negated?)"""
    if not (isinstance(e, ast.Compare) and len(e.ops) == 1 and isinstance(e.ops[0], (ast.In, ast.NotIn))):
        return None
    l, r = e.left, e.comparators[0]
    if not (isinstance(l, ast.Attribute) and l.attr == 'id'):
        return None
    m = match("set($x)", r) or match("list($x)", r) or match("frozenset($x)", r)
    comp = m['x'] if m else r
    if isinstance(comp, (ast.SetComp, ast.ListComp, ast.GeneratorExp)) and len(comp.generators) == 1 and not comp.generators[0].ifs and \
            isinstance(comp.generators[0].target, ast.Name) and isinstance(comp.elt, ast.Attribute) and comp.elt.attr == 'id' and \
            isinstance(comp.elt.value, ast.Name) and comp.elt.value.id == comp.generators[0].target.id:
        pos = ast.Compare(left=l, ops=[ast.In()], comparators=[r])
        return l.value, comp.generators[0].iter, pos, isinstance(e.ops[0], ast.NotIn)
    return None


def _has_links(e: ast.AST):
    """truthiness of a task's direct link list or child list: `x.predecessors` / `x.__predecessors` / `len(..) > 0` ->
    ('pred'|'succ'|'kids', x)"""
    m = match("len($l) > 0", e) or match("len($l) != 0", e) or match("len($l) >= 1", e) or match("len($l)", e) or match("bool($l)", e)
    l = m['l'] if m else e
    if isinstance(l, ast.Attribute) and l.attr in ('predecessors', '_Task__predecessors', 'successors', '_Task__successors'):
        return ('pred' if 'predecessors' in l.attr else 'succ'), l.value
    if isinstance(l, ast.Attribute) and l.attr in ('children', '_Task__children'):
        return 'kids', l.value
    return None


def _next_exists(e: ast.AST):
    """`next((v for v in X if C), None) is not None` -> (`any(C for v in X)`, True);  `.. is None` -> (.., False): the first-offender
    idiom says the same as the exists-form (the elements are tasks, never None - _check_no_nones_in_list)"""
    if isinstance(e, ast.Compare) and len(e.ops) == 1 and isinstance(e.ops[0], (ast.Is, ast.IsNot, ast.Eq, ast.NotEq)) and \
            isinstance(e.comparators[0], ast.Constant) and e.comparators[0].value is None:
        m = match("next($g, None)", e.left)
        g = m['g'] if m else None
        if isinstance(g, (ast.GeneratorExp, ast.ListComp)) and len(g.generators) == 1 and isinstance(g.elt, ast.Name) and \
                isinstance(g.generators[0].target, ast.Name) and g.elt.id == g.generators[0].target.id and g.generators[0].ifs:
            gen = g.generators[0]
            cond = gen.ifs[0] if len(gen.ifs) == 1 else ast.BoolOp(op=ast.And(), values=list(gen.ifs))
            anyc = ast.Call(func=ast.Name(id='any', ctx=ast.Load()),
                            args=[ast.GeneratorExp(elt=cond, generators=[ast.comprehension(target=gen.target, iter=gen.iter, ifs=[], is_async=0)])],
                            keywords=[])
            return ast.fix_missing_locations(anyc), isinstance(e.ops[0], (ast.IsNot, ast.NotEq))
    return None


def _lift_ifexp(e: ast.AST) -> Optional[ast.AST]:
    """`(A if c else B) op X`  ->  `(A op X) if c else (B op X)` for a conditional expression that is a direct operand of a
    comparison or a direct argument of a call (a hoisted `anchor = before if before is not None else after`)"""
    if isinstance(e, ast.Compare) and len(e.ops) == 1:
        for side in ('left', 'right'):
            v = e.left if side == 'left' else e.comparators[0]
            if isinstance(v, ast.IfExp):
                def mk(x):
                    n = copy.copy(e)
                    if side == 'left':
                        n.left = x
                    else:
                        n.comparators = [x]
                    return n
                return ast.IfExp(test=v.test, body=mk(v.body), orelse=mk(v.orelse))
    if isinstance(e, ast.Call) and not e.keywords:
        for i, v in enumerate(e.args):
            if isinstance(v, ast.IfExp):
                def mk(x, i=i):
                    n = copy.copy(e)
                    n.args = list(e.args[:i]) + [x] + list(e.args[i + 1:])
                    return n
                return ast.IfExp(test=v.test, body=mk(v.body), orelse=mk(v.orelse))
    return None


class GF:
    """one guard (raise) with its condition as a formula"""

    def __init__(self, g: facts.Guard, roles: Roles):
        self.g, self.node, self.exc = g, g.node, g.exc
        extra = {}
        self.per_element = False
        self.foreign_binder = False
        for tgt, it in g.binders:
            if isinstance(tgt, ast.Name) and roles.is_arg_list(it):
                extra[tgt.id] = 'elem'
                self.per_element = True
            else:
                self.foreign_binder = True
        seen = []
        parts = []
        for t, pol in g.conds:
            f = cond_formula(t, roles, extra, seen)
            parts.append(f if pol else F_not(f))
        if seen:
            self.per_element = True
        self.formula = ('and', parts) if parts else ('const', True)
        self.extra = extra

    def opaque(self):
        return sorted(a for a in atoms_of(self.formula) if a.startswith('opaque:'))


class TreeExpander(Expander):
    """the engine's Expander whose if/elif/else join also works for a selector local defined afresh in every round of a loop
    (`for v in X: if c1: r = A  elif c2: r = B  else: r = None;  if r is not None: raise`): the inner tests of the chain do not
    dominate the use, so "nothing a test reads is redefined up to the use" has to be asked on the paths that do not pass the
    OUTERMOST test again (that one dominates the use: a path through it re-evaluates the whole chain)"""

    def _tree_join(self, var, ds, at, depth, seen, stop):
        out = super()._tree_join(var, ds, at, depth, seen, stop)
        if out is not None:
            return out
        cfg = self.flow.cfg
        chains = {id(d): cfg.conditions(d.node) for d in ds}
        if any(d.node is at or d.node is None for d in ds):
            return None
        s2 = seen | {id(d) for d in ds}
        outer = [None]

        def rec(group, k):
            if len(group) == 1:
                d = group[0]
                if len(chains[id(d)]) != k:
                    return None
                return self._x(d.value, d.node, depth + 1, s2, stop)
            if any(len(chains[id(d)]) <= k for d in group):
                return None
            t = chains[id(group[0])][k][0]
            if any(chains[id(d)][k][0] is not t for d in group):
                return None
            T_ = [d for d in group if chains[id(d)][k][1]]
            F_ = [d for d in group if not chains[id(d)][k][1]]
            if not T_ or not F_:
                return rec(group, k + 1)
            tn = cfg.node_containing(t)
            if tn is None:
                return None
            if outer[0] is None:
                if not cfg.dominates(tn, at):
                    return None
                outer[0] = tn
            a, b = rec(T_, k + 1), rec(F_, k + 1)
            if a is None or b is None:
                return None
            avoid = {outer[0].id} if tn is not outer[0] else None
            for n in ast.walk(t):
                p = facts.attr_path(n) if isinstance(n, (ast.Name, ast.Attribute)) else None
                if p and not self.flow.no_def_between(p, tn, at, avoid):
                    return None
            return ast.IfExp(test=self._x(t, tn, depth + 1, s2, stop | {var}), body=a, orelse=b)
        out = rec(list(ds), 0)
        if out is not None:
            self.expanded_paths.add(var)
        return out


def guards_of(prog, func: Func, typer=None, inline=True) -> List[facts.Guard]:
    """facts.guards_of with the TreeExpander"""
    cfg = cfg_of(func)
    ex = TreeExpander(prog, func, typer, inline=inline)
    out = []
    for n in walk_no_nested(func.node):
        if isinstance(n, ast.Raise):
            cn = cfg.node_of(n)
            if cn is None or not cfg.is_reachable(cn):
                continue
            conds = [(ex.expand(t, cfg.node_containing(t)), pol) for t, pol in cfg.conditions(cn)]
            binders = [(fo.target, ex.expand(fo.iter, cfg.node_of(fo))) for fo in cfg.enclosing_fors(cn)]
            out.append(facts.Guard(func, n, facts.exc_name(n), conds, binders, cn))
    return out


def guard_formulas(ctx, f: Func) -> List[GF]:
    roles = Roles(ctx.prog, f, ctx.typer)
    return [GF(g, roles) for g in guards_of(ctx.prog, f, ctx.typer, inline=True)]


def implication(R, fs: List) -> Optional[dict]:
    """None if R ==> OR(fs) for every assignment, else a counterexample assignment"""
    names = sorted(atoms_of(R) | set().union(*[atoms_of(x) for x in fs]) if fs else atoms_of(R))
    if len(names) > 16:
        return {'_too_many_atoms': True}
    n = len(names)
    # background knowledge: A in B.all_predecessors (tpred(A,B)) implies that B has predecessors and A has successors
    #                       A in B.all_children (desc(A,B)) implies that B has children
    #                       _has_dependency_with_parents(A, B) implies that A has children or links (all three must be atoms)
    axioms = []
    for a in names:
        m = re.match(r"^tpred\(([^,()]+),([^,()]+)\)$", a)
        if m:
            for concl in (f"haslinks:pred({m.group(2)})", f"haslinks:succ({m.group(1)})"):
                if concl in names:
                    axioms.append((a, [concl]))
        m = re.match(r"^desc\(([^,()]+),([^,()]+)\)$", a)
        if m and f"haslinks:kids({m.group(2)})" in names:
            axioms.append((a, [f"haslinks:kids({m.group(2)})"]))
        m = re.match(r"^call:_has_dependency_with_parents\(([^,()]+),([^,()]+)\)$", a)
        if m:
            concl = [f"haslinks:{k}({m.group(1)})" for k in ('kids', 'pred', 'succ')]
            if all(c in names for c in concl):
                axioms.append((a, concl))
    for bits in range(1 << n):
        env = {names[i]: bool(bits >> i & 1) for i in range(n)}
        if any(env[a] and not any(env[c] for c in cs) for a, cs in axioms):
            continue
        if evalf(R, env) and not any(evalf(x, env) for x in fs):
            return env
    return None


_KNOWN_CONTAINERS = ('arg', 'self._list', 'self._Task__children', 'self._Task__predecessors', 'self._Task__successors')


def require(ctx, o, f: Func, label: str, R, writes, eff, needs_elem: bool, mode_filter=None):
    """obligation step: requirement R must be rejected with RuntimeError before any relation write of f"""
    cfg = cfg_of(f)
    gfs = guard_formulas(ctx, f)
    if needs_elem:
        # a requirement about an element of the argument presupposes that the argument has one: `if arg:` / `if len(arg) > 0:`
        # around the guards is no restriction
        for g in gfs:
            g.formula = _assume_true(g.formula, {'opaque:arg', 'opaque:len(arg) > 0', 'opaque:len(arg)'})
    early, late = [], []
    for g in gfs:
        np_ = writes_not_preceded(cfg, f, _as_gf(g), writes)
        if mode_filter is not None:
            np_ = [w for w in np_ if mode_filter(cfg, f, w[0], g)]
        (late if np_ else early).append(g)
    usable = [g for g in early if g.exc == 'RuntimeError' and (g.per_element or not needs_elem or 'elem' not in fmt(g.formula))]
    cex = implication(R, [g.formula for g in usable])
    if cex is None:
        hit = [g for g in usable if atoms_of(g.formula) & atoms_of(R)]
        o.site(f, (hit[0].node if hit else f.node), f"{label}: {fmt(R)} => RuntimeError before the first write")
        return True
    # diagnose
    wrong_exc = [g for g in early if g.exc != 'RuntimeError']
    if wrong_exc and implication(R, [g.formula for g in usable + wrong_exc]) is None:
        o.refute(f, wrong_exc[0].node, label, f"[{label}] is rejected with {wrong_exc[0].exc} instead of RuntimeError")
        return False
    late_rt = [g for g in late if g.exc == 'RuntimeError']
    if late_rt and implication(R, [g.formula for g in usable + late_rt]) is None:
        g = next((x for x in late_rt if atoms_of(x.formula) & atoms_of(R)), late_rt[0])
        w = writes_not_preceded(cfg, f, _as_gf(g), writes)
        o.refute(f, g.node, label, f"[{label}] is only checked after relation state was written (`{src(w[0][1])[:50]}` comes first): a rejection "
                                   f"leaves a half-done change")
        return False
    if needs_elem:
        not_elem = [g for g in early if g.exc == 'RuntimeError' and g not in usable]
        if not_elem and implication(R, [g.formula for g in usable + not_elem]) is None:
            o.refute(f, not_elem[0].node, label, f"[{label}] is not evaluated for every element of the argument")
            return False
    # the truth value of another parameter (`if successors:` around a neighbouring block of the constructor) hides no check
    params = {'opaque:' + p_ for p_ in f.params}
    opaque = sorted({a for g in early + late for a in g.opaque() if a not in params})
    # membership in a container the vocabulary does not know (and the requirement does not mention) is uninterpreted, too
    opaque += sorted({'opaque:' + a for g in early + late for a in atoms_of(g.formula)
                      if a.startswith('in(') and a not in atoms_of(R) and 'opaque:' + a not in opaque
                      and a[:-1].split(',', 1)[-1] not in _KNOWN_CONTAINERS})
    # `<call / subscript / comprehension> is None`: a computed value the vocabulary cannot interpret
    opaque += sorted({'opaque:' + a for g in early + late for a in atoms_of(g.formula)
                      if a.startswith('none(') and a not in atoms_of(R) and any(ch in a[5:-1] for ch in '([') and 'opaque:' + a not in opaque})
    by_id = [a for a in opaque if '.id' in a and ('==' in a or '!=' in a or
                                                  (a.startswith('opaque:in(') and a[10:].split(',', 1)[0].endswith('.id')))]
    if by_id:
        o.refute(f, f.node, label, f"[{label}] depends on `{by_id[0][7:][:80]}`, a comparison of task IDS: equal ids are exactly what must not be "
                                   f"trusted here")
        return False
    # polarity inversion: some guard mentions the key atoms of R but fires in the complementary case
    keys = atoms_of(R)
    inverted = [g for g in early + late if keys & atoms_of(g.formula) and implication(g.formula, [R]) is not None
                and implication(('and', [g.formula, R]), []) is not None and False]
    helper_calls = unfolded_raising_helpers(ctx, f, eff)
    def other_param(it):
        """the iterable is (the list form of) ANOTHER parameter: such guards are about that argument, not about this one"""
        for _ in range(6):
            m = match("_to_list($x)", it) or match("_unique_tasks($x)", it) or match("list($x)", it) or match("[$y for $y in $x]", it)
            if not m:
                break
            it = m['x']
        return isinstance(it, ast.Name) and it.id in f.params and it.id != Roles(ctx.prog, f, ctx.typer).arg
    foreign = [g for g in early + late if g.foreign_binder and g.exc == 'RuntimeError'
               and not all(other_param(it) or Roles(ctx.prog, f, ctx.typer).is_arg_list(it) for tgt, it in g.g.binders)]
    if foreign and not opaque and not helper_calls:
        its = ', '.join(sorted({src(it)[:50] for g in foreign for tgt, it in g.g.binders}))
        o.undecided(f, f.node, label, f"[{label}] not established: guards sit in a loop over `{its}`, which the rule cannot relate to the argument")
        return False
    if opaque or helper_calls:
        why = ("conditions the rule cannot interpret: " + '; '.join(a[7:][:60] for a in opaque[:3])) if opaque else \
            ("helper(s) that may hold the check: " + ', '.join(helper_calls[:3]))
        o.undecided(f, f.node, label, f"[{label}] not established ({why})")
        return False
    env_txt = ', '.join(f"{k}={v}" for k, v in sorted(cex.items()) if k in keys)
    # a test of the requirement exists, but under a further condition that lets the case through: name that condition
    bypass = []
    core = {k for k in keys if not k.startswith('none(')} or keys
    for a in sorted(cex):
        if a in keys or a.startswith('opaque:') or a.startswith('_'):
            continue
        env2 = dict(cex)
        env2[a] = not cex[a]
        if any(core & atoms_of(g.formula) and evalf(g.formula, env2) for g in usable):
            bypass.append(a)
    by_txt = f" (the test exists but is by-passed when {', '.join(f'{a}={cex[a]}' for a in bypass[:4])})" if bypass else ''
    o.refute(f, f.node, label, f"[{label}] is missing: with {env_txt} no RuntimeError is raised before relation state is written{by_txt}")
    return False


def _assume_true(f, names):
    k = f[0]
    if k == 'atom':
        return ('const', True) if f[1] in names else f
    if k == 'not':
        return ('not', _assume_true(f[1], names))
    if k in ('and', 'or'):
        return (k, [_assume_true(x, names) for x in f[1]])
    return f


def _as_gf(g: GF):
    class _W:
        pass
    w = _W()
    w.g = g.g
    return w


def unfolded_raising_helpers(ctx, f: Func, eff) -> List[str]:
    """package functions called by f that may raise and that are neither baseline validators the rules know nor folded away"""
    known = {'_to_list', '_check_no_nones_in_list', '_check_not_none'}
    out = []
    for ci in ctx.cg.calls_in(f):
        for t in ci.targets:
            if t is None or t.name in known:
                continue
            if ci.kind in ('getter',) or t.kind in ('getter',):
                continue
            if t.kind == 'setter' or t.name in ('append', 'remove', 'insert', 'move', '_attach', '_detach', '__init__'):
                continue
            if eff.direct_raises(t) and not any(k[0] in REL_FIELDS for k in eff.writes_star(t)):
                out.append(t.qual)
    return sorted(set(out))


def expand_call(prog, f: Func, typer, call: ast.Call, inline: bool = False) -> ast.AST:
    """the call with hoisted locals expanded, INCLUDING a receiver local that is defined once as a facade/getter expression and then
    used for a mutating call (`top = wbs._root().children; top.append(x)` -> `wbs._root().children.append(x)`), which the Expander
    keeps opaque because the name is "mutated".  Exact as long as the local has that single plain definition."""
    ex = Expander(prog, f, typer, inline=inline)
    cfg = cfg_of(f)
    at = cfg.node_containing(call)
    out = fold_const(ex.expand(call, at))
    fl = flow_of(f)
    fn = out.func if isinstance(out, ast.Call) else None
    if isinstance(fn, ast.Attribute) and isinstance(fn.value, ast.Name) and at is not None:
        d = fl.unique_def(fn.value.id, at)
        if d is not None and d.kind == 'assign' and d.value is not None and d.node is not None and d.node is not at and \
                len(fl.defs_of(fn.value.id)) == 1:
            new = copy.copy(out)
            new.func = copy.copy(fn)
            new.func.value = fold_const(ex.expand(d.value, d.node))
            out = new
    return out
